(* C29 — executable model of request authorisation in the three HTTP route trees.  Definitions only.

   Mirrors:
     role_rank / has_permission        varpulis-cluster/src/rbac.rs  Role (discriminants 0,1,2), Role::has_permission
     authenticate                      rbac.rs RbacConfig::authenticate (the HashMap of keys is an association list;
                                       the scan keeps the last match, like `matched_role = Some(entry.role)` in the loop)
     any_admin_key                     rbac.rs RbacConfig::any_admin_key (some key whose role is Admin; the HashMap
                                       iteration order is not modelled: the first in the list)
     run_stages                        one warp `.and` chain: filters run left to right, the first rejection ends the route
         SAuth (ARbac need)            cluster/api.rs with_rbac                 -> Unauthorized / Forbidden
         SAuth ARaft                   raft/routes.rs with_optional_raft_auth   -> RaftUnauthorized
         SAuth AHdrApiKey/AHdrAdminKey warp::header::<String>(..)               -> MissingHeader
     prologue_result                   first action of a CLI handler (get_tenant_by_api_key / validate_admin_key)
     serve                             warp `.or` chain: the first route that does not reject answers; if every route rejects,
                                       the recover function maps the combined rejection to a status
     cluster_recover                   cluster/api.rs handle_rejection (order of the `find` tests)
     cli_recover                       cli/auth.rs handle_rejection
   Paths are lists of non-empty segments; a request carries what the filters look at: method, path, the x-api-key and
   x-admin-key headers, whether a body is present / deserialises for the addressed route, whether the query string
   deserialises.  The rate limiter state is the flag c_rate_ok of the configuration. *)
From Coq Require Import String List Bool Arith.
Import ListNotations.
From VP Require Import Rbac.Syntax.
Open Scope string_scope.

(* ---- roles and keys (rbac.rs) ------------------------------------------------------------ *)
Definition role_rank (r : role) : nat := match r with Viewer => 0 | Operator => 1 | Admin => 2 end.
Definition has_permission (have need : role) : bool := Nat.leb (role_rank need) (role_rank have).
Definition role_eqb (a b : role) : bool := Nat.eqb (role_rank a) (role_rank b).

Record rbac := mkRbac { rkeys : list (string * role); ranon : bool; ranon_role : role }.

Definition rbac_disabled : rbac := mkRbac [] true Admin.
Definition rbac_single (k : string) : rbac := mkRbac [(k, Admin)] false Viewer.
Definition rbac_multi (ks : list (string * role)) : rbac := mkRbac ks false Viewer.

Fixpoint scan_keys (ks : list (string * role)) (key : string) (acc : option role) : option role :=
  match ks with
  | [] => acc
  | (k, r) :: ks' => scan_keys ks' key (if String.eqb k key then Some r else acc)
  end.

Definition is_nil {A} (l : list A) : bool := match l with [] => true | _ => false end.

Definition authenticate (c : rbac) (provided : option string) : option role :=
  if ranon c && is_nil (rkeys c) then Some (ranon_role c)
  else match provided with
       | Some key => scan_keys (rkeys c) key None
       | None => if ranon c then Some (ranon_role c) else None
       end.

Fixpoint any_admin_key (ks : list (string * role)) : option string :=
  match ks with
  | [] => None
  | (k, r) :: ks' => if role_eqb r Admin then Some k else any_admin_key ks'
  end.

(* ---- requests and configurations --------------------------------------------------------- *)
Inductive bodyst := BNone | BBad | BGood.

Record request := mkReq {
  qmeth : meth; qpath : list string;
  qapikey : option string; qadminkey : option string;
  qbody : bodyst; qquery_ok : bool }.

Record config := mkCfg {
  c_rbac : rbac;                   (* cluster: Arc<RbacConfig> *)
  c_raft_key : option string;      (* raft_routes(raft, admin_key) *)
  c_admin_key : option string;     (* api_routes(manager, admin_key) *)
  c_tenant_keys : list string;     (* keys of TenantManager::api_key_index *)
  c_rate_ok : bool }.              (* the rate limiter admits this client *)

Definition meth_eqb (a b : meth) : bool :=
  match a, b with
  | GET, GET | POST, POST | PUT, PUT | DELETE, DELETE | OTHERM, OTHERM => true
  | _, _ => false
  end.

Definition opt_str_eqb (a : option string) (b : string) : bool :=
  match a with Some x => String.eqb x b | None => false end.

Fixpoint mem_str (k : string) (l : list string) : bool :=
  match l with [] => false | x :: r => String.eqb x k || mem_str k r end.

(* ---- one route ----------------------------------------------------------------------------- *)
Inductive rej :=
| RNotFound | RMethod | RRate | RUnauthorized | RForbidden | RRaftUnauthorized | RMissingHeader
| RLengthRequired | RBodyDeser | RInvalidQuery.

Inductive outcome := OReject (r : rej) | OHandler (h : string).

Definition auth_stage (cfg : config) (q : request) (a : authf) : option rej :=
  match a with
  | ARbac need =>
      match authenticate (c_rbac cfg) (qapikey q) with
      | Some have => if has_permission have need then None else Some RForbidden
      | None => Some RUnauthorized
      end
  | ARaft =>
      match c_raft_key cfg with
      | None => None
      | Some expected => if opt_str_eqb (qapikey q) expected then None else Some RRaftUnauthorized
      end
  | AHdrApiKey => match qapikey q with Some _ => None | None => Some RMissingHeader end
  | AHdrAdminKey => match qadminkey q with Some _ => None | None => Some RMissingHeader end
  end.

Fixpoint run_stages (cfg : config) (q : request) (path : list string) (st : list stage) : outcome :=
  match st with
  | [] => OReject RNotFound
  | SPath (PLit s) :: st' =>
      match path with
      | x :: p' => if String.eqb x s then run_stages cfg q p' st' else OReject RNotFound
      | [] => OReject RNotFound
      end
  | SPath PParam :: st' =>
      match path with
      | _ :: p' => run_stages cfg q p' st'
      | [] => OReject RNotFound
      end
  | SEnd :: st' => match path with [] => run_stages cfg q path st' | _ => OReject RNotFound end
  | SMeth m :: st' => if meth_eqb (qmeth q) m then run_stages cfg q path st' else OReject RMethod
  | SRate :: st' => if c_rate_ok cfg then run_stages cfg q path st' else OReject RRate
  | SAuth a :: st' =>
      match auth_stage cfg q a with
      | None => run_stages cfg q path st'
      | Some r => OReject r
      end
  | SBodyLimit :: st' => match qbody q with BNone => OReject RLengthRequired | _ => run_stages cfg q path st' end
  | SBodyJson :: st' => match qbody q with BGood => run_stages cfg q path st' | _ => OReject RBodyDeser end
  | SQuery :: st' => if qquery_ok q then run_stages cfg q path st' else OReject RInvalidQuery
  | SState :: st' => run_stages cfg q path st'
  | SHandler h :: _ => OHandler h
  end.

Definition run_route (cfg : config) (q : request) (r : route) : outcome :=
  run_stages cfg q (qpath q) (rstages r).

(* ---- CLI handler prologues ----------------------------------------------------------------- *)
Fixpoint lookup_prologue (ps : list (string * hprologue)) (h : string) : option hprologue :=
  match ps with
  | [] => None
  | (k, p) :: r => if String.eqb k h then Some p else lookup_prologue r h
  end.

(* None = the handler goes on to do its work; Some status = it answers with that status before touching anything *)
Definition prologue_result (cfg : config) (q : request) (p : option hprologue) : option nat :=
  match p with
  | None => None
  | Some (HTenantKey _) =>
      match qapikey q with
      | Some k => if mem_str k (c_tenant_keys cfg) then None else Some 401
      | None => Some 401
      end
  | Some HAdminKey =>
      match c_admin_key cfg with
      | None => Some 403
      | Some k => if opt_str_eqb (qadminkey q) k then None else Some 401
      end
  end.

(* ---- the `.or` chain and the recover functions --------------------------------------------- *)
Inductive result :=
| Served (route handler : string)           (* the handler body runs *)
| Denied (route handler : string) (status : nat)   (* the handler's own key check answers *)
| Rejected (status : nat).                  (* every route rejected; status chosen by the recover function *)

Definition rej_eqb (a b : rej) : bool :=
  match a, b with
  | RNotFound, RNotFound | RMethod, RMethod | RRate, RRate | RUnauthorized, RUnauthorized
  | RForbidden, RForbidden | RRaftUnauthorized, RRaftUnauthorized | RMissingHeader, RMissingHeader
  | RLengthRequired, RLengthRequired | RBodyDeser, RBodyDeser | RInvalidQuery, RInvalidQuery => true
  | _, _ => false
  end.

Definition has_rej (r : rej) (l : list rej) : bool := existsb (rej_eqb r) l.
Definition all_not_found (l : list rej) : bool := forallb (rej_eqb RNotFound) l.

Definition cluster_recover (l : list rej) : nat :=
  if has_rej RRate l then 429
  else if has_rej RUnauthorized l then 401
  else if has_rej RForbidden l then 403
  else if has_rej RMissingHeader l then 401
  else if has_rej RBodyDeser l then 400
  else if has_rej RInvalidQuery l then 400
  else if has_rej RMethod l then 405
  else if all_not_found l then 404
  else 500.

Definition cli_recover (l : list rej) : nat :=
  if has_rej RBodyDeser l then 400
  else if has_rej RInvalidQuery l then 400
  else if has_rej RMethod l then 405
  else if all_not_found l then 404
  else 500.

Fixpoint serve_from (recover : list rej -> nat) (ps : list (string * hprologue))
         (cfg : config) (q : request) (tbl : list route) (acc : list rej) : result :=
  match tbl with
  | [] => Rejected (recover (rev acc))
  | r :: tbl' =>
      match run_route cfg q r with
      | OHandler h =>
          match prologue_result cfg q (lookup_prologue ps h) with
          | None => Served (rname r) h
          | Some st => Denied (rname r) h st
          end
      | OReject x => serve_from recover ps cfg q tbl' (x :: acc)
      end
  end.

Definition serve recover ps cfg q tbl : result := serve_from recover ps cfg q tbl [].

(* The applications (tables come from Gen_Routes.v):
     cluster      cluster_routes(..).recover(cluster::api::handle_rejection)
     raft         raft_routes(raft, key).recover(cluster::api::handle_rejection)
     raftcluster  cluster_routes_with_raft = raft_routes(raft, rbac.any_admin_key()).or(cluster_routes(..))
     cli          api_routes(manager, admin_key).recover(cli::auth::handle_rejection) *)
Definition with_raft_key_from_rbac (cfg : config) : config :=
  mkCfg (c_rbac cfg) (any_admin_key (rkeys (c_rbac cfg))) (c_admin_key cfg) (c_tenant_keys cfg) (c_rate_ok cfg).

(* The filters of a route that actually ran for a request (up to and including the rejecting one / the handler):
   used to state that nothing behind a failing auth filter is evaluated. *)
Fixpoint run_trace (cfg : config) (q : request) (path : list string) (st : list stage) : list stage :=
  match st with
  | [] => []
  | SPath (PLit s) :: st' =>
      SPath (PLit s) :: match path with
                        | x :: p' => if String.eqb x s then run_trace cfg q p' st' else []
                        | [] => []
                        end
  | SPath PParam :: st' =>
      SPath PParam :: match path with _ :: p' => run_trace cfg q p' st' | [] => [] end
  | SEnd :: st' => SEnd :: match path with [] => run_trace cfg q path st' | _ => [] end
  | SMeth m :: st' => SMeth m :: if meth_eqb (qmeth q) m then run_trace cfg q path st' else []
  | SRate :: st' => SRate :: if c_rate_ok cfg then run_trace cfg q path st' else []
  | SAuth a :: st' =>
      SAuth a :: match auth_stage cfg q a with None => run_trace cfg q path st' | Some _ => [] end
  | SBodyLimit :: st' => SBodyLimit :: match qbody q with BNone => [] | _ => run_trace cfg q path st' end
  | SBodyJson :: st' => SBodyJson :: match qbody q with BGood => run_trace cfg q path st' | _ => [] end
  | SQuery :: st' => SQuery :: if qquery_ok q then run_trace cfg q path st' else []
  | SState :: st' => SState :: run_trace cfg q path st'
  | SHandler h :: _ => [SHandler h]
  end.
