(* C29 — rendering of the model's answer for the correspondence check: one string per (application,
   configuration, request) case:  S:<route>  (handler body runs) | D:<route>:<status> (handler's own key check
   refuses) | R:<status> (every route rejected; status from the recover function). *)
From Coq Require Import String List Bool Arith.
Import ListNotations.
From VP Require Import Base.Render Rbac.Syntax Rbac.Model Rbac.Policy Rbac.Gen_Routes Rbac.Apps.
Open Scope string_scope.

Definition render_result (r : result) : string :=
  match r with
  | Served n _ => "S:" ++ n
  | Denied n _ st => "D:" ++ n ++ ":" ++ str_of_nat st
  | Rejected st => "R:" ++ str_of_nat st
  end.

Definition case (a : app) (cfg : config) (q : request) : string := render_result (app_serve a cfg q).

(* the endpoint of the documented policy a request addresses and whether the credential grants it (oracle side) *)
Definition policy_verdict (a : app) (cfg : config) (q : request) : string :=
  match filter (fun e => ep_matches e q) (app_policy a) with
  | [] => "none"
  | e :: _ => if granted (e_access e) (app_cfg a cfg) q then "granted" else "refused"
  end.
