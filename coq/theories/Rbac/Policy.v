(* C29 — the documented access policy (specification side).  Definitions only.

   Transcribed by hand from /repo/docs/api-changelog.md (tables "SaaS API", "Cluster API" with their
   "Min Role" / "Auth" columns; `(none)` = unauthenticated by design: prometheus, raft status) and, for the
   /raft/* RPC endpoints, from the doc comment of raft/routes.rs raft_routes ("when admin_key is Some, all
   mutating Raft endpoints require the x-api-key header; /raft/metrics stays unauthenticated").
   Role meaning (rbac.rs module doc): Viewer = read-only, Operator = deploy/manage/inject, Admin = everything
   including deletion; a role grants every lower one. *)
From Coq Require Import String List Bool Arith.
Import ListNotations.
From VP Require Import Rbac.Syntax Rbac.Model.
Open Scope string_scope.

Inductive access :=
| Public                 (* served to everybody *)
| MinRole (r : role)     (* x-api-key resolves to a role >= r under the RBAC configuration *)
| RaftKey                (* no Raft admin key configured, or x-api-key equals it *)
| TenantKey              (* x-api-key is the key of an existing tenant *)
| AdminKey.              (* an admin key is configured and x-admin-key equals it *)

Record endpoint := mkEp { e_meth : meth; e_pat : list pseg; e_access : access }.

Definition L := PLit.
Definition P := PParam.
Definition cl (rest : list pseg) : list pseg := L "api" :: L "v1" :: L "cluster" :: rest.
Definition v1 (rest : list pseg) : list pseg := L "api" :: L "v1" :: rest.

Definition cluster_policy : list endpoint := [
  (* workers *)
  mkEp POST   (cl [L "workers"; L "register"])       (MinRole Operator);
  mkEp POST   (cl [L "workers"; P; L "heartbeat"])   (MinRole Operator);
  mkEp GET    (cl [L "workers"])                     (MinRole Viewer);
  mkEp GET    (cl [L "workers"; P])                  (MinRole Viewer);
  mkEp DELETE (cl [L "workers"; P])                  (MinRole Admin);
  mkEp POST   (cl [L "workers"; P; L "drain"])       (MinRole Operator);
  (* pipeline groups *)
  mkEp POST   (cl [L "pipeline-groups"])                      (MinRole Operator);
  mkEp GET    (cl [L "pipeline-groups"])                      (MinRole Viewer);
  mkEp GET    (cl [L "pipeline-groups"; P])                   (MinRole Viewer);
  mkEp DELETE (cl [L "pipeline-groups"; P])                   (MinRole Admin);
  mkEp POST   (cl [L "pipeline-groups"; P; L "inject"])       (MinRole Operator);
  mkEp POST   (cl [L "pipeline-groups"; P; L "inject-batch"]) (MinRole Operator);
  (* connectors *)
  mkEp GET    (cl [L "connectors"])      (MinRole Viewer);
  mkEp GET    (cl [L "connectors"; P])   (MinRole Viewer);
  mkEp POST   (cl [L "connectors"])      (MinRole Operator);
  mkEp PUT    (cl [L "connectors"; P])   (MinRole Operator);
  mkEp DELETE (cl [L "connectors"; P])   (MinRole Admin);
  (* operations *)
  mkEp GET    (cl [L "topology"])                         (MinRole Viewer);
  mkEp POST   (cl [L "validate"])                         (MinRole Viewer);
  mkEp POST   (cl [L "rebalance"])                        (MinRole Operator);
  mkEp GET    (cl [L "migrations"])                       (MinRole Viewer);
  mkEp GET    (cl [L "migrations"; P])                    (MinRole Viewer);
  mkEp POST   (cl [L "pipelines"; P; P; L "migrate"])     (MinRole Operator);
  mkEp GET    (cl [L "metrics"])                          (MinRole Viewer);
  mkEp GET    (cl [L "prometheus"])                       Public;
  mkEp GET    (cl [L "scaling"])                          (MinRole Viewer);
  mkEp GET    (cl [L "summary"])                          (MinRole Viewer);
  mkEp GET    (cl [L "raft"])                             Public;
  (* models and chat *)
  mkEp GET    (cl [L "models"])                  (MinRole Viewer);
  mkEp POST   (cl [L "models"])                  (MinRole Operator);
  mkEp DELETE (cl [L "models"; P])               (MinRole Admin);
  mkEp GET    (cl [L "models"; P; L "download"]) (MinRole Viewer);
  mkEp POST   (cl [L "chat"])                    (MinRole Viewer);
  mkEp GET    (cl [L "chat"; L "config"])        (MinRole Viewer);
  mkEp PUT    (cl [L "chat"; L "config"])        (MinRole Operator)
].

Definition raft_policy : list endpoint := [
  mkEp POST [L "raft"; L "vote"]              RaftKey;
  mkEp POST [L "raft"; L "append"]            RaftKey;
  mkEp POST [L "raft"; L "snapshot"]          RaftKey;
  mkEp POST [L "raft"; L "init"]              RaftKey;
  mkEp POST [L "raft"; L "add-learner"]       RaftKey;
  mkEp POST [L "raft"; L "change-membership"] RaftKey;
  mkEp GET  [L "raft"; L "metrics"]           Public
].

Definition cli_policy : list endpoint := [
  mkEp POST   (v1 [L "pipelines"])                       TenantKey;
  mkEp GET    (v1 [L "pipelines"])                       TenantKey;
  mkEp GET    (v1 [L "pipelines"; P])                    TenantKey;
  mkEp DELETE (v1 [L "pipelines"; P])                    TenantKey;
  mkEp POST   (v1 [L "pipelines"; P; L "events"])        TenantKey;
  mkEp POST   (v1 [L "pipelines"; P; L "events-batch"])  TenantKey;
  mkEp GET    (v1 [L "pipelines"; P; L "metrics"])       TenantKey;
  mkEp POST   (v1 [L "pipelines"; P; L "reload"])        TenantKey;
  mkEp POST   (v1 [L "pipelines"; P; L "checkpoint"])    TenantKey;
  mkEp POST   (v1 [L "pipelines"; P; L "restore"])       TenantKey;
  mkEp GET    (v1 [L "pipelines"; P; L "logs"])          TenantKey;
  mkEp GET    (v1 [L "usage"])                           TenantKey;
  mkEp POST   (v1 [L "tenants"])                         AdminKey;
  mkEp GET    (v1 [L "tenants"])                         AdminKey;
  mkEp GET    (v1 [L "tenants"; P])                      AdminKey;
  mkEp DELETE (v1 [L "tenants"; P])                      AdminKey
].

(* ---- when does a credential grant an access level? ----------------------------------------- *)

(* The role a key has under an RBAC configuration, in the documentation's terms: with no keys configured and
   anonymous access on, everybody has the anonymous role; otherwise a presented key has the role it is
   registered with (none if unknown), and a request without key has the anonymous role iff anonymous access is on. *)
Fixpoint assoc_role (ks : list (string * role)) (key : string) : option role :=
  match ks with
  | [] => None
  | (k, r) :: ks' => if String.eqb k key then Some r else assoc_role ks' key
  end.

Definition spec_role (c : rbac) (key : option string) : option role :=
  match rkeys c, ranon c with
  | [], true => Some (ranon_role c)
  | _, _ =>
      match key with
      | Some k => assoc_role (rkeys c) k
      | None => if ranon c then Some (ranon_role c) else None
      end
  end.

Definition granted (a : access) (cfg : config) (q : request) : bool :=
  match a with
  | Public => true
  | MinRole need =>
      match spec_role (c_rbac cfg) (qapikey q) with
      | Some have => Nat.leb (role_rank need) (role_rank have)
      | None => false
      end
  | RaftKey =>
      match c_raft_key cfg with
      | None => true
      | Some k => opt_str_eqb (qapikey q) k
      end
  | TenantKey =>
      match qapikey q with
      | Some k => mem_str k (c_tenant_keys cfg)
      | None => false
      end
  | AdminKey =>
      match c_admin_key cfg with
      | None => false
      | Some k => opt_str_eqb (qadminkey q) k
      end
  end.

(* a request addresses an endpoint *)
Fixpoint pat_matches (pat : list pseg) (path : list string) : bool :=
  match pat, path with
  | [], [] => true
  | PLit s :: pat', x :: path' => String.eqb x s && pat_matches pat' path'
  | PParam :: pat', _ :: path' => pat_matches pat' path'
  | _, _ => false
  end.

Definition ep_matches (e : endpoint) (q : request) : bool :=
  meth_eqb (qmeth q) (e_meth e) && pat_matches (e_pat e) (qpath q).

(* two patterns can be matched by one path *)
Fixpoint pat_overlap (a b : list pseg) : bool :=
  match a, b with
  | [], [] => true
  | PLit s :: a', PLit t :: b' => String.eqb s t && pat_overlap a' b'
  | _ :: a', _ :: b' => pat_overlap a' b'
  | _, _ => false
  end.
