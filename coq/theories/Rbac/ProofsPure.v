(* C29 — lemmas, part 2: a failing auth filter stops the route before anything reads the body, the query or
   the shared state, and before the handler. *)
From Coq Require Import String List Bool Arith Lia.
Import ListNotations.
From VP Require Import Rbac.Syntax Rbac.Model Rbac.Policy Rbac.Proofs.
Open Scope string_scope.
Open Scope list_scope.

Definition is_auth_rej (j : rej) : bool :=
  match j with RUnauthorized | RForbidden | RRaftUnauthorized | RMissingHeader => true | _ => false end.
Definition reads_request_or_state (s : stage) : bool :=
  match s with SBodyLimit | SBodyJson | SQuery | SState | SHandler _ => true | _ => false end.

(* static check on a stage list: no filter that reads body/query/state (and no handler) precedes an auth filter *)
Fixpoint auth_before_reads (st : list stage) (seen_read : bool) : bool :=
  match st with
  | [] => true
  | SAuth _ :: r => negb seen_read && auth_before_reads r seen_read
  | s :: r => auth_before_reads r (seen_read || reads_request_or_state s)
  end.

Lemma auth_stage_rej cfg q a j : auth_stage cfg q a = Some j -> is_auth_rej j = true.
Proof.
  destruct a; simpl.
  - destruct (authenticate (c_rbac cfg) (qapikey q)); [destruct (has_permission r0 r)|]; intros H; inv H; reflexivity.
  - destruct (c_raft_key cfg); [destruct (opt_str_eqb (qapikey q) s)|]; intros H; inv H; reflexivity.
  - destruct (qapikey q); intros H; inv H; reflexivity.
  - destruct (qadminkey q); intros H; inv H; reflexivity.
Qed.

(* when a route rejects with an auth rejection, what ran is exactly the filters up to that auth filter *)
Lemma run_trace_auth_rej cfg q st : forall path j,
  run_stages cfg q path st = OReject j -> is_auth_rej j = true ->
  exists pre a post, st = pre ++ SAuth a :: post /\ run_trace cfg q path st = pre ++ [SAuth a].
Proof.
  induction st as [|s st IH]; intros path j Hr Hj; simpl in Hr.
  - inv Hr. discriminate.
  - destruct s.
    + destruct p as [lit|].
      * destruct path as [|x path']; [inv Hr; discriminate|].
        destruct (String.eqb x lit) eqn:E; [|inv Hr; discriminate].
        destruct (IH _ _ Hr Hj) as (pre & a & post & -> & Ht).
        exists (SPath (PLit lit) :: pre), a, post. split; [reflexivity|]. simpl. rewrite E, Ht. reflexivity.
      * destruct path as [|x path']; [inv Hr; discriminate|].
        destruct (IH _ _ Hr Hj) as (pre & a & post & -> & Ht).
        exists (SPath PParam :: pre), a, post. split; [reflexivity|]. simpl. rewrite Ht. reflexivity.
    + destruct path as [|x path']; [|inv Hr; discriminate].
      destruct (IH _ _ Hr Hj) as (pre & a & post & -> & Ht).
      exists (SEnd :: pre), a, post. split; [reflexivity|]. simpl. rewrite Ht. reflexivity.
    + destruct (meth_eqb (qmeth q) m) eqn:E; [|inv Hr; discriminate].
      destruct (IH _ _ Hr Hj) as (pre & a & post & -> & Ht).
      exists (SMeth m :: pre), a, post. split; [reflexivity|]. simpl. rewrite E, Ht. reflexivity.
    + destruct (c_rate_ok cfg) eqn:E; [|inv Hr; discriminate].
      destruct (IH _ _ Hr Hj) as (pre & a & post & -> & Ht).
      exists (SRate :: pre), a, post. split; [reflexivity|]. simpl. rewrite E, Ht. reflexivity.
    + destruct (auth_stage cfg q a) eqn:E.
      * inv Hr. exists [], a, st. split; [reflexivity|]. simpl. rewrite E. reflexivity.
      * destruct (IH _ _ Hr Hj) as (pre & a' & post & -> & Ht).
        exists (SAuth a :: pre), a', post. split; [reflexivity|]. simpl. rewrite E, Ht. reflexivity.
    + destruct (qbody q) eqn:E; [inv Hr; discriminate| |];
        destruct (IH _ _ Hr Hj) as (pre & a & post & -> & Ht);
        exists (SBodyLimit :: pre), a, post; (split; [reflexivity|]); simpl; rewrite E, Ht; reflexivity.
    + destruct (qbody q) eqn:E; [inv Hr; discriminate|inv Hr; discriminate|].
      destruct (IH _ _ Hr Hj) as (pre & a & post & -> & Ht).
      exists (SBodyJson :: pre), a, post. split; [reflexivity|]. simpl. rewrite E, Ht. reflexivity.
    + destruct (qquery_ok q) eqn:E; [|inv Hr; discriminate].
      destruct (IH _ _ Hr Hj) as (pre & a & post & -> & Ht).
      exists (SQuery :: pre), a, post. split; [reflexivity|]. simpl. rewrite E, Ht. reflexivity.
    + destruct (IH _ _ Hr Hj) as (pre & a & post & -> & Ht).
      exists (SState :: pre), a, post. split; [reflexivity|]. simpl. rewrite Ht. reflexivity.
    + inv Hr.
Qed.

Lemma auth_before_reads_prefix pre : forall st a post b,
  st = pre ++ SAuth a :: post -> auth_before_reads st b = true ->
  b = false /\ forallb (fun s => negb (reads_request_or_state s)) pre = true.
Proof.
  induction pre as [|s pre IH]; intros st a post b -> H; simpl in H.
  - apply andb_prop in H as [H _]. destruct b; [discriminate|]. auto.
  - destruct s; simpl in *;
      try (destruct (IH _ _ _ _ eq_refl H) as [Hb Hp]; apply orb_false_elim in Hb as [-> Hs]; try discriminate; auto; fail).
    apply andb_prop in H as [Hb H]. destruct (IH _ _ _ _ eq_refl H) as [-> Hp]. auto.
Qed.

Theorem auth_reject_reads_nothing cfg q r j :
  auth_before_reads (rstages r) false = true ->
  run_route cfg q r = OReject j -> is_auth_rej j = true ->
  forall s, In s (run_trace cfg q (qpath q) (rstages r)) -> reads_request_or_state s = false.
Proof.
  unfold run_route. intros Hst Hr Hj s Hs.
  destruct (run_trace_auth_rej _ _ _ _ _ Hr Hj) as (pre & a & post & Heq & Ht).
  rewrite Ht in Hs. destruct (auth_before_reads_prefix _ _ _ _ _ Heq Hst) as [_ Hp].
  apply in_app_or in Hs as [Hs|[<-|[]]]; [|reflexivity].
  rewrite forallb_forall in Hp. specialize (Hp _ Hs). destruct (reads_request_or_state s); [discriminate|reflexivity].
Qed.

(* the handler (and with it every state change) only runs when every filter passed *)
Lemma handler_in_trace_iff cfg q st : forall path h,
  In (SHandler h) (run_trace cfg q path st) -> exists h', run_stages cfg q path st = OHandler h'.
Proof.
  induction st as [|s st IH]; intros path h Hin; simpl in *; [tauto|].
  destruct s.
  - destruct p as [lit|]; destruct path as [|x path']; simpl in Hin;
      try (destruct Hin as [Hin|Hin]; [discriminate|tauto]).
    + destruct Hin as [Hin|Hin]; [discriminate|]. destruct (String.eqb x lit); [eauto|destruct Hin].
    + destruct Hin as [Hin|Hin]; [discriminate|]. eauto.
  - destruct Hin as [Hin|Hin]; [discriminate|]. destruct path; [eauto|destruct Hin].
  - destruct Hin as [Hin|Hin]; [discriminate|]. destruct (meth_eqb (qmeth q) m); [eauto|destruct Hin].
  - destruct Hin as [Hin|Hin]; [discriminate|]. destruct (c_rate_ok cfg); [eauto|destruct Hin].
  - destruct Hin as [Hin|Hin]; [discriminate|]. destruct (auth_stage cfg q a); [destruct Hin|eauto].
  - destruct Hin as [Hin|Hin]; [discriminate|]. destruct (qbody q); [destruct Hin|eauto|eauto].
  - destruct Hin as [Hin|Hin]; [discriminate|]. destruct (qbody q); [destruct Hin|destruct Hin|eauto].
  - destruct Hin as [Hin|Hin]; [discriminate|]. destruct (qquery_ok q); [eauto|destruct Hin].
  - destruct Hin as [Hin|Hin]; [discriminate|]. eauto.
  - eauto.
Qed.
