(* Lsp/Run.v — evaluation of Lsp/Model.v for the correspondence check of C43.
   doc_case extra text offsets positions errors spans   renders, separated by '|':
     p2lc per offset  ;  word_at per position  ;  get_error_end_column per position (line, character)  ;
     error_range per error  ;  span_range per span  ;  completion prefix length per position
   [extra] = the non-ASCII characters of the document that the implementation classifies as alphanumeric. *)
From Coq Require Import String.
From VP Require Import Base.Tactics Base.Render Text.Str Lsp.Model.
Open Scope string_scope.

Definition ascii_alnum (c : N) : bool :=
  (((48 <=? c) && (c <=? 57)) || ((65 <=? c) && (c <=? 90)) || ((97 <=? c) && (c <=? 122)) || (c =? 95))%N.
Definition alnum_of (extra : list N) (c : N) : bool :=
  if (c <? 128)%N then ascii_alnum c else existsb (N.eqb c) extra.

Definition str_of_cps (l : str) : string := join "." (map str_of_N l).
Definition str_of_pair (p : N * N) : string := str_of_N (fst p) ++ "," ++ str_of_N (snd p).
Definition str_of_range (r : range) : string :=
  str_of_N (r_sl r) ++ "," ++ str_of_N (r_sc r) ++ "," ++ str_of_N (r_el r) ++ "," ++ str_of_N (r_ec r).
Definition str_of_wres (w : wres) : string :=
  match w with WNone => "-" | WSome x => "w" ++ str_of_cps x | WPanic => "PANIC" end.

Definition doc_case (extra : list N) (text : str) (offsets : list N) (positions : list (N * N))
                    (errors : list perr) (spans : list (N * N)) : string :=
  let al := alnum_of extra in
  join ";" (map (fun p => str_of_pair (position_to_line_col text p)) offsets) ++ "|" ++
  join ";" (map (fun '(l, c) => str_of_wres (word_at al text l c)) positions) ++ "|" ++
  join ";" (map (fun '(l, c) => str_of_N (get_error_end_column al text l c)) positions) ++ "|" ++
  join ";" (map (fun e => str_of_range (error_range al text e)) errors) ++ "|" ++
  join ";" (map (fun '(s, e) => str_of_range (span_range text s e)) spans) ++ "|" ++
  join ";" (map (fun '(l, c) => str_of_N (lenN (completion_prefix text l c))) positions).
