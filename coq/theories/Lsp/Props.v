(* Lsp/Props.v — property C43: "language-server requests never crash and report valid ranges", for the
   position arithmetic of crates/varpulis-lsp (PARTIAL: the handlers' own text scans, the parser and the
   validator are not modelled; see checks/C43.py for the exploration half).  Model: Lsp/Model.v.          *)
From Coq Require Import String.
From VP Require Import Base.Tactics Text.Str Parse.Model Parse.Proofs Parse.Props Lsp.Model Lsp.Proofs.
Open Scope N_scope.

(* The word under the cursor (navigation.rs word_at_position, hover.rs get_word_at_position) never slices
   out of range, for every document, every position and every character classification; the other
   modelled functions are total by construction (they index nothing). *)
Theorem C43_pos_no_panic : forall alnum text line character,
  word_at alnum text line character <> WPanic.
Proof. exact word_at_no_panic. Qed.

(* A byte offset - any offset: beyond the end, inside a character - is turned into a position of the document. *)
Theorem C43_offset_in_doc : forall text position,
  pos_in_doc text (fst (position_to_line_col text position)) (snd (position_to_line_col text position)).
Proof.
  intros text position. pose proof (position_to_line_col_in text position) as H.
  destruct (position_to_line_col text position). exact H.
Qed.

(* Every range built for a diagnostic lies within the document: for every error shape with arbitrary offsets,
   and for Located errors whose line / column satisfy what C41 proves about the parser ... *)
Theorem C43_range_in_doc : forall alnum text e,
  perr_ok text e -> range_in_doc text (error_range alnum text e).
Proof. exact error_range_in_doc. Qed.

(* ... in particular for every location the modelled parser reports (C41_position_in_range) *)
Theorem C43_located_from_parser : forall alnum text a,
  loc_in text a -> range_in_doc text (error_range alnum text (ELocated (l_line a) (l_col a))).
Proof.
  intros alnum text a H. apply error_range_in_doc. cbn [perr_ok].
  pose proof (loc_in_bounds text a H) as (_ & B & C). unfold Lsp.Model.lenN. split; lia.
Qed.

(* ranges of semantic diagnostics, go-to-definition and references (span_to_location): any span *)
Theorem C43_span_range_in_doc : forall text span_start span_end,
  range_in_doc text (span_range text span_start span_end).
Proof. exact span_range_in_doc. Qed.

(* ---- non-vacuity ---------------------------------------------------------------------------------- *)
Definition ascii_word (c : N) : bool :=
  ((48 <=? c) && (c <=? 57)) || ((65 <=? c) && (c <=? 90)) || ((97 <=? c) && (c <=? 122)) || (c =? 95).

(* x = "日本" ) : the error at the closing parenthesis (line 1, column 10); the old code sliced the line at byte 9 *)
Example C43_multibyte_error_range :
  error_range ascii_word (s2l "x = " ++ [34; 26085; 26412; 34] ++ s2l " )" ++ [10])%list (ELocated 1 10)
  = {| r_sl := 0; r_sc := 9; r_el := 0; r_ec := 10 |}.
Proof. vm_compute. reflexivity. Qed.

Example C43_perr_ok_example : perr_ok (s2l "stream X = ") (ELocated 1 12).
Proof. vm_compute. repeat split; discriminate. Qed.

(* an error at the end of the only line: the end column stays on the line (it was one past) *)
Example C43_end_of_line_range :
  error_range ascii_word (s2l "stream X = ") (ELocated 1 12) = {| r_sl := 0; r_sc := 11; r_el := 0; r_ec := 11 |}.
Proof. vm_compute. reflexivity. Qed.

Example C43_word_example : word_at ascii_word (s2l "stream Sensor1 = A") 0 9 = WSome (s2l "Sensor1").
Proof. vm_compute. reflexivity. Qed.
