(* Lsp/Proofs.v — lemmas about Lsp/Model.v (property C43) *)
From Coq Require Import String.
From VP Require Import Base.Tactics Text.Str Text.StrLemmas Parse.Proofs Lsp.Model.
Open Scope N_scope.

(* ------------------------------------------------------------------ what "within the document" means *)

(* a 0-based (line, character) lies within the document: the line exists (lines are separated by newline
   characters, the text after the last newline is a line) and the character is not beyond its end *)
Definition pos_in_doc (text : str) (line col : N) : Prop :=
  line <= count_nl text /\ col <= lenN (line_of text line).

Definition range_in_doc (text : str) (r : range) : Prop :=
  pos_in_doc text (r_sl r) (r_sc r) /\ pos_in_doc text (r_el r) (r_ec r).

(* ------------------------------------------------------------------ position_to_line_col *)

Lemma p2lc_go_in : forall s position done line col,
  line = count_nl done -> col = lenN (last_seg done) ->
  let '(l, c) := p2lc_go s position (utf8_len done) line col in
  exists before after, (done ++ s)%list = (before ++ after)%list /\ l = count_nl before /\ c = lenN (last_seg before).
Proof.
  induction s as [|ch s IH]; intros position done line col Hl Hc; cbn [p2lc_go].
  - exists done, []. auto.
  - destruct (position <=? utf8_len done); [exists done, (ch :: s); auto|].
    replace (done ++ ch :: s)%list with ((done ++ [ch]) ++ s)%list by (rewrite <- app_assoc; reflexivity).
    assert (Hu : utf8_len (done ++ [ch]) = utf8_len done + utf8_len1 ch)
      by (rewrite utf8_len_app; cbn [utf8_len]; lia).
    destruct (ch =? 10) eqn:E.
    + apply N.eqb_eq in E. subst ch.
      replace (utf8_len done + 1) with (utf8_len (done ++ [10])) by (rewrite Hu; reflexivity).
      apply IH.
      * rewrite count_nl_snoc. change (10 =? 10) with true. cbv iota. lia.
      * unfold last_seg. rewrite last_seg_go_app. change (10 =? 10) with true. reflexivity.
    + rewrite <- Hu. apply IH.
      * rewrite count_nl_snoc, E. lia.
      * unfold last_seg, lenN. rewrite last_seg_go_app, E, app_length. cbn [length].
        unfold last_seg, lenN in Hc. lia.
Qed.

Lemma split_in_doc : forall before after,
  pos_in_doc (before ++ after) (count_nl before) (lenN (last_seg before)).
Proof.
  intros before after. unfold pos_in_doc. split.
  - rewrite count_nl_app. lia.
  - unfold line_of, split_nl, lenN, count_nl. rewrite Nat2N.id, split_nl_go_nth.
    unfold last_seg. rewrite app_length. lia.
Qed.

Lemma position_to_line_col_in : forall text position,
  let '(l, c) := position_to_line_col text position in pos_in_doc text l c.
Proof.
  intros text position. unfold position_to_line_col.
  pose proof (p2lc_go_in text position [] 0 0 eq_refl eq_refl) as H. cbn [utf8_len app] in H.
  destruct (p2lc_go text position 0 0 0) as [l c].
  destruct H as (before & after & E & Hl & Hc). subst. apply split_in_doc.
Qed.

(* ------------------------------------------------------------------ lines().nth(k) against the k-th line *)

Lemma strip_suffix_length : forall p l r, strip_suffix p l = Some r -> (length r <= length l)%nat.
Proof. intros p l r H. apply strip_suffix_some in H. subst. rewrite app_length. lia. Qed.

Lemma strip_eol_length : forall x : str, (length (strip_eol x) <= length x)%nat.
Proof.
  intros x. unfold strip_eol. destruct (strip_suffix [10] x) as [a|] eqn:E1; [|lia].
  pose proof (strip_suffix_length _ _ _ E1).
  destruct (strip_suffix [13] a) as [b|] eqn:E2; [|assumption].
  pose proof (strip_suffix_length _ _ _ E2). lia.
Qed.

Lemma strip_eol_nl_length : forall y : str, (length (strip_eol (y ++ [10]%N)) <= length y)%nat.
Proof.
  intros y. unfold strip_eol. rewrite strip_suffix_app.
  destruct (strip_suffix [13] y) as [b|] eqn:E2; [|lia]. exact (strip_suffix_length _ _ _ E2).
Qed.

(* the pieces of split_inclusive line up with the lines of the text *)
Lemma split_incl_vs_nl : forall l cur k x, nth_error (split_incl_go l cur) k = Some x ->
  exists y, nth_error (split_nl_go l cur) k = Some y /\ (x = (y ++ [10])%list \/ x = y).
Proof.
  induction l as [|c l IH]; intros cur k x H; cbn [split_incl_go split_nl_go] in *.
  - destruct cur as [|a cur]; [destruct k; discriminate|].
    destruct k as [|k]; [|destruct k; discriminate]. cbn [nth_error] in H. inv H.
    exists (rev (a :: cur)). split; [reflexivity|]. right. apply rv_rev.
  - destruct (c =? 10) eqn:E.
    + destruct k as [|k]; cbn [nth_error] in *.
      * inv H. exists (rev cur). split; [reflexivity|]. left. rewrite rv_rev. cbn [rev].
        apply N.eqb_eq in E. now subst c.
      * now apply IH.
    + now apply IH.
Qed.

Lemma nthN_nth_error : forall {A} (l : list A) n, nthN l n = nth_error l (N.to_nat n).
Proof.
  induction l as [|x l IH]; intros n; cbn [nthN].
  - now destruct (N.to_nat n).
  - destruct (n =? 0) eqn:E.
    + apply N.eqb_eq in E. subst. reflexivity.
    + apply N.eqb_neq in E. rewrite IH. replace (N.to_nat n) with (S (N.to_nat (n - 1))) by lia. reflexivity.
Qed.

Lemma nth_line_some : forall text line l, nth_line text line = Some l ->
  line <= count_nl text /\ lenN l <= lenN (line_of text line).
Proof.
  intros text line l H. unfold nth_line in H. rewrite nthN_nth_error in H.
  unfold str_lines in H. rewrite nth_error_map in H.
  destruct (nth_error (split_incl text) (N.to_nat line)) as [x|] eqn:E; [|discriminate]. cbn in H. inv H.
  unfold split_incl in E. destruct (split_incl_vs_nl _ _ _ _ E) as (y & Hy & Hxy).
  assert (Hlt : (N.to_nat line < length (split_nl_go text []))%nat) by (apply nth_error_Some; congruence).
  pose proof (split_nl_length text []) as Hlen. split; [lia|].
  unfold line_of, split_nl. rewrite (nth_error_nth _ _ _ Hy). unfold lenN.
  destruct Hxy as [-> | ->].
  - pose proof (strip_eol_nl_length y). lia.
  - pose proof (strip_eol_length y). lia.
Qed.

Lemma line_length_le : forall text line, line_length text line <= lenN (line_of text line).
Proof.
  intros text line. unfold line_length. destruct (nth_line text line) as [l|] eqn:E; [|unfold lenN; lia].
  now apply nth_line_some in E.
Qed.

(* ------------------------------------------------------------------ end column of an error *)

Lemma skipN_length : forall {A} (l : list A) n, lenN (skipN n l) = lenN l - n.
Proof.
  induction l as [|x l IH]; intros n; cbn [skipN]; [unfold lenN; cbn; lia|].
  destruct (n =? 0) eqn:E.
  - apply N.eqb_eq in E. subst. lia.
  - apply N.eqb_neq in E. rewrite IH. unfold lenN. cbn [length]. lia.
Qed.

Lemma take_while_length : forall p l, (length (take_while p l) <= length l)%nat.
Proof. induction l as [|c l IH]; cbn [take_while]; [lia|]. destruct (p c); cbn [length]; lia. Qed.

Lemma get_error_end_column_le : forall alnum text line start_col,
  start_col <= lenN (line_of text line) ->
  get_error_end_column alnum text line start_col <= lenN (line_of text line).
Proof.
  intros alnum text line start_col Hs. unfold get_error_end_column.
  pose proof (line_length_le text line) as Hl.
  destruct (nth_line text line) as [l|] eqn:E.
  - pose proof (nth_line_some _ _ _ E) as [_ Hll].
    pose proof (take_while_length alnum (skipN start_col l)) as Ht.
    pose proof (skipN_length l start_col) as Hk. unfold lenN in *.
    destruct (0 <? N.of_nat (length (take_while alnum (skipN start_col l)))) eqn:Ez; [|lia].
    apply N.ltb_lt in Ez. lia.
  - change (0 <? 0) with false. cbv iota. lia.
Qed.

Lemma get_error_end_column_ge : forall alnum text line start_col,
  start_col <= get_error_end_column alnum text line start_col.
Proof.
  intros. unfold get_error_end_column. destruct (0 <? _); lia.
Qed.

(* ------------------------------------------------------------------ ranges *)

Lemma span_range_in_doc : forall text s e, range_in_doc text (span_range text s e).
Proof.
  intros text s e. unfold span_range.
  pose proof (position_to_line_col_in text s) as Hs. pose proof (position_to_line_col_in text e) as He.
  destruct (position_to_line_col text s) as [sl sc]. destruct (position_to_line_col text e) as [el ec].
  split; assumption.
Qed.

(* what the parser guarantees about a Located error (C41_position_bounds); nothing is required of the others *)
Definition perr_ok (text : str) (e : perr) : Prop :=
  match e with
  | ELocated line column =>
    1 <= line <= 1 + count_nl text /\ 1 <= column <= 1 + lenN (line_of text (line - 1))
  | _ => True
  end.

Lemma rev_head_nth : forall {A} (l : list A) x r, rev l = x :: r -> nth_error l (length l - 1) = Some x.
Proof.
  intros A l x r H. apply (f_equal (@rev A)) in H. rewrite rev_involutive in H. subst l. cbn [rev].
  rewrite app_length, nth_error_app2; cbn [length]; [|lia].
  replace (length (rev r) + 1 - 1 - length (rev r))%nat with 0%nat by lia. reflexivity.
Qed.

Lemma last_line_nth : forall text, str_lines text <> [] ->
  exists l, nth_line text (lenN (str_lines text) - 1) = Some l /\ last_line_chars text = lenN l.
Proof.
  intros text Hne. unfold last_line_chars, nth_line. rewrite nthN_nth_error.
  destruct (rev (str_lines text)) as [|x r] eqn:E.
  - apply (f_equal (@rev str)) in E. rewrite rev_involutive in E. cbn in E. congruence.
  - exists x. split; [|reflexivity]. apply rev_head_nth in E.
    unfold lenN. replace (N.to_nat (N.of_nat (length (str_lines text)) - 1)) with (length (str_lines text) - 1)%nat by lia.
    exact E.
Qed.

Lemma error_range_in_doc : forall alnum text e, perr_ok text e -> range_in_doc text (error_range alnum text e).
Proof.
  intros alnum text e Hok. destruct e as [line column|position found| |position| |position|s e]; cbn [error_range].
  - (* Located *)
    cbn [perr_ok] in Hok. destruct Hok as [[L1 L2] [C1 C2]].
    assert (Hs : pos_in_doc text (line - 1) (column - 1)) by (unfold pos_in_doc; lia).
    split; [exact Hs|]. cbn [r_el r_ec]. split; [apply Hs|].
    apply get_error_end_column_le. apply Hs.
  - (* UnexpectedToken *)
    pose proof (position_to_line_col_in text position) as Hp.
    destruct (position_to_line_col text position) as [l c]. pose proof (line_length_le text l).
    split; [exact Hp|]. cbn [r_el r_ec]. destruct Hp as [Hp1 Hp2]. split; [exact Hp1|lia].
  - (* UnexpectedEof *)
    destruct (str_lines text) as [|a ls] eqn:E.
    + unfold last_line_chars. rewrite E. cbn. unfold range_in_doc, pos_in_doc, lenN. cbn [r_sl r_sc r_el r_ec]. split; split; lia.
    + destruct (last_line_nth text ltac:(congruence)) as (l & Hn & Hc). rewrite E in Hn. rewrite Hc.
      apply nth_line_some in Hn. unfold pos_in_doc. cbn [r_sl r_sc r_el r_ec]. split; exact Hn.
  - (* InvalidToken *)
    pose proof (position_to_line_col_in text position) as Hp.
    destruct (position_to_line_col text position) as [l c]. pose proof (line_length_le text l).
    split; [exact Hp|]. cbn [r_el r_ec]. destruct Hp as [Hp1 Hp2]. split; [exact Hp1|lia].
  - (* no position: Range::default() *)
    unfold range_in_doc, pos_in_doc, lenN. cbn [r_sl r_sc r_el r_ec]. split; split; lia.
  - (* UnterminatedString *)
    pose proof (position_to_line_col_in text position) as Hp.
    destruct (position_to_line_col text position) as [l c]. pose proof (line_length_le text l).
    split; [exact Hp|]. cbn [r_el r_ec]. destruct Hp as [Hp1 Hp2]. split; [exact Hp1|lia].
  - apply span_range_in_doc.
Qed.

(* ------------------------------------------------------------------ the word under the cursor *)

Lemma takeN_length : forall {A} (l : list A) n, lenN (takeN n l) <= n.
Proof.
  induction l as [|x l IH]; intros n; cbn [takeN]; [unfold lenN; cbn; lia|].
  destruct (n =? 0) eqn:E; [unfold lenN; cbn; lia|].
  apply N.eqb_neq in E. specialize (IH (n - 1)). unfold lenN in *. cbn [length]. lia.
Qed.

Lemma word_at_no_panic : forall alnum text line character, word_at alnum text line character <> WPanic.
Proof.
  intros alnum text line character. unfold word_at.
  destruct (nth_line text line) as [l|]; [|discriminate].
  destruct (utf8_len l <? character); [discriminate|].
  destruct (lenN l <? character) eqn:E1.
  - (* beyond the characters of the line: start = end = col *)
    apply N.ltb_lt in E1. destruct (character <? lenN l) eqn:E2; [apply N.ltb_lt in E2; lia|].
    rewrite N.eqb_refl. discriminate.
  - apply N.ltb_ge in E1.
    set (back := count_while alnum (rev (takeN character l))).
    assert (Hb : back <= character).
    { unfold back, count_while. pose proof (take_while_length alnum (rev (takeN character l))) as H.
      rewrite rev_length in H. pose proof (takeN_length l character). unfold lenN in *. lia. }
    destruct (character <? lenN l) eqn:E2.
    + apply N.ltb_lt in E2.
      set (fwd := count_while alnum (skipN character l)).
      assert (Hf : character + fwd <= lenN l).
      { unfold fwd, count_while. pose proof (take_while_length alnum (skipN character l)) as H.
        pose proof (skipN_length l character). unfold lenN in *. lia. }
      destruct (character - back =? character + fwd); [discriminate|].
      destruct (lenN l <? character + fwd) eqn:E3; [apply N.ltb_lt in E3; lia|].
      destruct (character + fwd <? character - back) eqn:E4; [apply N.ltb_lt in E4; lia|].
      discriminate.
    + destruct (character - back =? character); [discriminate|].
      destruct (lenN l <? character) eqn:E3; [apply N.ltb_lt in E3; lia|].
      destruct (character <? character - back) eqn:E4; [apply N.ltb_lt in E4; lia|].
      discriminate.
Qed.
