(* Lsp/Model.v — executable model of the position arithmetic of crates/varpulis-lsp/src.  Definitions only.

   Rust                                                   here
   -----------------------------------------------------  ----------------------------------------
   diagnostics.rs position_to_line_col                    position_to_line_col
   navigation.rs  byte_offset_to_position (same code)     position_to_line_col
   source.lines().nth(line)                               nth_line
   diagnostics.rs line_length                             line_length
   diagnostics.rs get_error_end_column                    get_error_end_column
   diagnostics.rs error_to_diagnostic (the range)         error_range     (one constructor of [perr] per ParseError shape)
   diagnostics.rs semantic_to_lsp_diagnostic (the range)  span_range
   navigation.rs  span_to_location (the range)            span_range
   navigation.rs  word_at_position /
   hover.rs       get_word_at_position (same code)        word_at         (chars[start..end] out of range => WPanic)
   completion.rs  get_completion_context: the prefix      completion_prefix

   Text = list of Unicode scalar values (Text/Str.v); byte offsets through utf8_len.  Columns are counted in
   characters, as the server does.  `char::is_alphanumeric() || c == '_'` is Unicode-table driven; the model
   takes it as a parameter [alnum] (the theorems hold for every predicate; the check instantiates it with the
   classification the implementation gives for the characters of the generated documents).
   `usize as u32` truncation of line / column numbers is not modelled (documents below 2^32 lines / columns). *)
From Coq Require Import String.
From VP Require Import Base.Tactics Text.Str.
Open Scope N_scope.

Fixpoint p2lc_go (s : str) (position pos line col : N) : N * N :=
  match s with
  | [] => (line, col)
  | c :: r =>
    if position <=? pos then (line, col)
    else if c =? 10 then p2lc_go r position (pos + 1) (line + 1) 0
    else p2lc_go r position (pos + utf8_len1 c) line (col + 1)
  end.
(* 0-based (line, column) of a byte offset; an offset inside a character counts that character *)
Definition position_to_line_col (source : str) (position : N) : N * N := p2lc_go source position 0 0 0.

Fixpoint nthN {A} (l : list A) (n : N) : option A :=
  match l with
  | [] => None
  | x :: r => if n =? 0 then Some x else nthN r (n - 1)
  end.
Fixpoint skipN {A} (n : N) (l : list A) : list A :=
  match l with
  | [] => []
  | _ :: r => if n =? 0 then l else skipN (n - 1) r
  end.
Fixpoint takeN {A} (n : N) (l : list A) : list A :=
  match l with
  | [] => []
  | x :: r => if n =? 0 then [] else x :: takeN (n - 1) r
  end.

Definition nth_line (source : str) (line : N) : option str := nthN (str_lines source) line.
Definition lenN {A} (l : list A) : N := N.of_nat (length l).
Definition line_length (source : str) (line : N) : N :=
  match nth_line source line with Some l => lenN l | None => 0 end.

Section WithAlnum.
Variable alnum : N -> bool.         (* c.is_alphanumeric() || c == '_' *)

Definition get_error_end_column (source : str) (line start_col : N) : N :=
  let token_len :=
    match nth_line source line with
    | Some l => lenN (take_while alnum (skipN start_col l))
    | None => 0
    end in
  if 0 <? token_len then start_col + token_len
  else N.max (N.min (start_col + 1) (line_length source line)) start_col.

(* the shapes of ParseError that error_to_diagnostic distinguishes *)
Inductive perr :=
| ELocated (line column : N)                 (* 1-based, as parse() reports them *)
| EUnexpectedToken (position found_chars : N)
| EUnexpectedEof
| EInvalidToken (position : N)
| ENoPosition                                (* InvalidNumber / InvalidDuration / InvalidTimestamp / InvalidEscape *)
| EUnterminatedString (position : N)
| ECustom (span_start span_end : N).

Record range := { r_sl : N; r_sc : N; r_el : N; r_ec : N }.

Definition span_range (source : str) (span_start span_end : N) : range :=
  let '(sl, sc) := position_to_line_col source span_start in
  let '(el, ec) := position_to_line_col source span_end in
  {| r_sl := sl; r_sc := sc; r_el := el; r_ec := ec |}.

Definition last_line_chars (source : str) : N :=
  match rev (str_lines source) with [] => 0 | l :: _ => lenN l end.

Definition error_range (source : str) (e : perr) : range :=
  match e with
  | ELocated line column =>
    let line_0 := line - 1 in
    let col_0 := column - 1 in
    {| r_sl := line_0; r_sc := col_0; r_el := line_0; r_ec := get_error_end_column source line_0 col_0 |}
  | EUnexpectedToken position found =>
    let '(line, col) := position_to_line_col source position in
    {| r_sl := line; r_sc := col; r_el := line;
       r_ec := N.max (N.min (col + found) (line_length source line)) col |}
  | EUnexpectedEof =>
    let line := lenN (str_lines source) - 1 in
    {| r_sl := line; r_sc := last_line_chars source; r_el := line; r_ec := last_line_chars source |}
  | EInvalidToken position =>
    let '(line, col) := position_to_line_col source position in
    {| r_sl := line; r_sc := col; r_el := line;
       r_ec := N.max (N.min (col + 10) (line_length source line)) col |}
  | ENoPosition => {| r_sl := 0; r_sc := 0; r_el := 0; r_ec := 0 |}
  | EUnterminatedString position =>
    let '(line, col) := position_to_line_col source position in
    {| r_sl := line; r_sc := col; r_el := line; r_ec := N.max (line_length source line) col |}
  | ECustom s e => span_range source s e
  end.

(* word_at_position / get_word_at_position *)
Inductive wres := WNone | WSome (w : str) | WPanic.

(* number of leading elements satisfying p *)
Definition count_while (p : N -> bool) (l : str) : N := lenN (take_while p l).

Definition word_at (text : str) (line character : N) : wres :=
  match nth_line text line with
  | None => WNone
  | Some l =>
    let col := character in
    if utf8_len l <? col then WNone                    (* `col > line.len()` compares with the byte length *)
    else
      let chars := l in
      (* while start > 0 && is_ident_char(chars.get(start - 1)): chars.get beyond the end is None *)
      let start := if lenN chars <? col then col
                   else col - count_while alnum (rev (takeN col chars)) in
      (* while end < chars.len() && is_ident_char(chars.get(end)) *)
      let end_ := if col <? lenN chars then col + count_while alnum (skipN col chars) else col in
      if start =? end_ then WNone
      else if (lenN chars <? end_) || (end_ <? start) then WPanic       (* chars[start..end] *)
      else WSome (takeN (end_ - start) (skipN start chars))
  end.

End WithAlnum.

(* line.char_indices().nth(col) => &line[..byte_index], else the whole line *)
Definition completion_prefix (text : str) (line character : N) : str :=
  let l := match nth_line text line with Some l => l | None => [] end in
  takeN character l.
