(* Interpreter + rendering for the correspondence check of C45 (evaluated by vm_compute). *)
From Coq Require Import String.
From VP Require Import Base.Tactics Base.Render Breaker.Model.
Open Scope string_scope.
Open Scope Z_scope.

Definition str_of_bstate (s : bstate) : string := match s with Closed => "C" | Open => "O" | HalfOpen => "H" end.
Definition str_of_res (r : res) : string :=
  match r with
  | RNone => "-" | RInflight => "inflight" | ROk => "ok" | RErrOpen => "open"
  | RErrInner c => "err" ++ str_of_Z c | RBool b => str_of_bool b | RInvalid => "invalid"
  end.
Definition str_of_err (e : err) : string := match e with ErrOpen => "open" | ErrInner c => "err" ++ str_of_Z c end.
Definition str_of_dlq (d : dlq_entry) : string := str_of_Z (d_conn d) ++ ":" ++ str_of_err (d_err d) ++ ":" ++ str_of_Z (d_ev d).

Fixpoint steps (cfg : config) (w : world) (ops : list op) : list string * world :=
  match ops with
  | [] => ([], w)
  | o :: r => let '(w1, x) := step cfg w o in
              let '(l, w2) := steps cfg w1 r in
              ((str_of_res x ++ "," ++ str_of_bstate (b_state (w_br w1))) :: l, w2)
  end.

Definition cb_case (threshold timeout : Z) (dlq : bool) (name : Z) (atomic : bool) (ops : list op) : string :=
  let cfg := {| c_threshold := threshold; c_timeout := timeout; c_dlq := dlq; c_name := name; c_atomic := atomic |} in
  let '(l, w) := steps cfg world0 ops in
  "S:" ++ join ";" l ++ "|D:" ++ join "," (map str_of_Z (w_delivered w)) ++ "|Q:" ++ join "," (map str_of_dlq (w_dlq w))
  ++ "|I:" ++ join "," (map (fun x => str_of_Z (fst x)) (w_inflight w))
  ++ "|N:" ++ str_of_Z (n_fail (w_br w)) ++ "," ++ str_of_Z (n_succ (w_br w)) ++ "," ++ str_of_Z (n_rej (w_br w)).
