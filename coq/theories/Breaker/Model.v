(* Executable model of the circuit breaker, the resilient sink wrapper and the dead-letter queue.

   Rust                                              model
   -----------------------------------------------   ------------------------------
   circuit_breaker.rs  State / InnerState + metrics   bstate / breaker
   CircuitBreaker::allow_request                      allow_request   (virtual clock [now], duration_since saturates)
   CircuitBreaker::record_success / record_failure    record_success / record_failure
   sink.rs  ResilientSink::send / send_batch          start (up to the await of the inner sink) + finish (after it);
                                                      the breaker's mutex makes each call atomic, so concurrent senders
                                                      interleave at exactly this granularity
   ResilientSink::send_to_dlq, DeadLetterQueue::      dlq_write (one entry per event: connector = inner sink name,
     write_batch                                        error text, the event)
   inner sink (mock in the harness)                   outcome given with OFinish: all events accepted, or event k fails
                                                      (default Sink::send_batch = sequential sends, stops at first error;
                                                       [c_atomic] = an all-or-nothing batch sink)
   Strings are abstracted: sink name and error messages are numbers; events are their ids.
   No proofs in this file. *)
From VP Require Import Base.Tactics.
Open Scope Z_scope.

Inductive bstate := Closed | Open | HalfOpen.

Record config := { c_threshold : Z; c_timeout : Z; c_dlq : bool; c_name : Z; c_atomic : bool }.

Record breaker := { b_state : bstate; b_fails : Z; b_last : option Z;
                    n_fail : Z; n_succ : Z; n_rej : Z }.

Definition breaker0 : breaker :=
  {| b_state := Closed; b_fails := 0; b_last := None; n_fail := 0; n_succ := 0; n_rej := 0 |}.

Definition with_state (b : breaker) (s : bstate) : breaker :=
  {| b_state := s; b_fails := b_fails b; b_last := b_last b; n_fail := n_fail b; n_succ := n_succ b; n_rej := n_rej b |}.
Definition reject (b : breaker) : breaker :=
  {| b_state := b_state b; b_fails := b_fails b; b_last := b_last b; n_fail := n_fail b; n_succ := n_succ b; n_rej := n_rej b + 1 |}.

Definition allow_request (cfg : config) (now : Z) (b : breaker) : breaker * bool :=
  match b_state b with
  | Closed => (b, true)
  | Open =>
    match b_last b with
    | Some lf => if c_timeout cfg <=? Z.max 0 (now - lf) then (with_state b HalfOpen, true) else (reject b, false)
    | None => (reject b, false)
    end
  | HalfOpen => (reject b, false)       (* the probe is in flight *)
  end.

Definition record_success (b : breaker) : breaker :=
  {| b_state := match b_state b with HalfOpen => Closed | s => s end;
     b_fails := 0; b_last := b_last b; n_fail := n_fail b; n_succ := n_succ b + 1; n_rej := n_rej b |}.

Definition record_failure (cfg : config) (now : Z) (b : breaker) : breaker :=
  let f := b_fails b + 1 in
  {| b_state := match b_state b with
                | Closed => if c_threshold cfg <=? f then Open else Closed
                | HalfOpen => Open
                | Open => Open
                end;
     b_fails := f; b_last := Some now; n_fail := n_fail b + 1; n_succ := n_succ b; n_rej := n_rej b |}.

(* ---- breaker-level histories ---- *)
Inductive bop := BTime (t : Z) | BAllow | BSucc | BFail.

Definition bstep (cfg : config) (s : Z * breaker) (o : bop) : (Z * breaker) * option bool :=
  let '(now, b) := s in
  match o with
  | BTime t => ((t, b), None)
  | BAllow => let '(b', r) := allow_request cfg now b in ((now, b'), Some r)
  | BSucc => ((now, record_success b), None)
  | BFail => ((now, record_failure cfg now b), None)
  end.

Fixpoint brun (cfg : config) (s : Z * breaker) (ops : list bop) : Z * breaker :=
  match ops with [] => s | o :: r => brun cfg (fst (bstep cfg s o)) r end.

(* ---- resilient sink + DLQ with concurrent senders ---- *)
Inductive err := ErrOpen | ErrInner (code : Z).     (* "circuit breaker open" | the inner sink's error text *)
Record dlq_entry := { d_conn : Z; d_err : err; d_ev : Z }.

Record world := { w_now : Z; w_br : breaker;
                  w_inflight : list (Z * list Z);   (* sender -> events handed to the inner sink, call not finished *)
                  w_delivered : list Z; w_dlq : list dlq_entry }.

Definition world0 : world := {| w_now := 0; w_br := breaker0; w_inflight := []; w_delivered := []; w_dlq := [] |}.

Inductive op :=
| OTime (t : Z)
| OStart (sender : Z) (batch : bool) (evs : list Z)
| OFinish (sender : Z) (k : Z) (code : Z)      (* k < 0 or k >= #events: all accepted; else event k fails with [code] *)
| OAllow | OSucc | OFail.

Inductive res := RNone | RInflight | ROk | RErrOpen | RErrInner (code : Z) | RBool (b : bool) | RInvalid.

Definition dlq_write (cfg : config) (e : err) (evs : list Z) (q : list dlq_entry) : list dlq_entry :=
  if c_dlq cfg then (q ++ map (fun ev => {| d_conn := c_name cfg; d_err := e; d_ev := ev |}) evs)%list else q.

Fixpoint take_sender (s : Z) (l : list (Z * list Z)) : option (list Z * list (Z * list Z)) :=
  match l with
  | [] => None
  | (s', evs) :: r => if s' =? s then Some (evs, r)
                      else match take_sender s r with Some (e, r') => Some (e, (s', evs) :: r') | None => None end
  end.

Definition step (cfg : config) (w : world) (o : op) : world * res :=
  match o with
  | OTime t => ({| w_now := t; w_br := w_br w; w_inflight := w_inflight w; w_delivered := w_delivered w; w_dlq := w_dlq w |}, RNone)
  | OStart s _ evs =>
    let '(b', ok) := allow_request cfg (w_now w) (w_br w) in
    if ok then ({| w_now := w_now w; w_br := b'; w_inflight := (w_inflight w ++ [(s, evs)])%list;
                   w_delivered := w_delivered w; w_dlq := w_dlq w |}, RInflight)
    else ({| w_now := w_now w; w_br := b'; w_inflight := w_inflight w;
             w_delivered := w_delivered w; w_dlq := dlq_write cfg ErrOpen evs (w_dlq w) |}, RErrOpen)
  | OFinish s k code =>
    match take_sender s (w_inflight w) with
    | None => (w, RInvalid)
    | Some (evs, rest) =>
      if (k <? 0) || (Z.of_nat (length evs) <=? k) then
        ({| w_now := w_now w; w_br := record_success (w_br w); w_inflight := rest;
            w_delivered := (w_delivered w ++ evs)%list; w_dlq := w_dlq w |}, ROk)
      else
        ({| w_now := w_now w; w_br := record_failure cfg (w_now w) (w_br w); w_inflight := rest;
            w_delivered := (w_delivered w ++ (if c_atomic cfg then [] else firstn (Z.to_nat k) evs))%list;
            w_dlq := dlq_write cfg (ErrInner code) evs (w_dlq w) |}, RErrInner code)
    end
  | OAllow => let '(b', ok) := allow_request cfg (w_now w) (w_br w) in
              ({| w_now := w_now w; w_br := b'; w_inflight := w_inflight w; w_delivered := w_delivered w; w_dlq := w_dlq w |}, RBool ok)
  | OSucc => ({| w_now := w_now w; w_br := record_success (w_br w); w_inflight := w_inflight w;
                 w_delivered := w_delivered w; w_dlq := w_dlq w |}, RNone)
  | OFail => ({| w_now := w_now w; w_br := record_failure cfg (w_now w) (w_br w); w_inflight := w_inflight w;
                 w_delivered := w_delivered w; w_dlq := w_dlq w |}, RNone)
  end.

Fixpoint run (cfg : config) (w : world) (ops : list op) : world :=
  match ops with [] => w | o :: r => run cfg (fst (step cfg w o)) r end.
