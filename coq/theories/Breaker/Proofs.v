(* Lemmas about the breaker / resilient-sink model (C45). *)
From VP Require Import Base.Tactics Breaker.Model.
Open Scope Z_scope.

(* ================= breaker-level histories ================= *)

(* failures recorded since the last recorded success *)
Fixpoint consec_from (acc : Z) (ops : list bop) : Z :=
  match ops with
  | [] => acc
  | BSucc :: r => consec_from 0 r
  | BFail :: r => consec_from (acc + 1) r
  | _ :: r => consec_from acc r
  end.
Definition consec (ops : list bop) : Z := consec_from 0 ops.

(* clock value at the last recorded failure *)
Fixpoint last_fail_from (now : Z) (acc : option Z) (ops : list bop) : option Z :=
  match ops with
  | [] => acc
  | BTime t :: r => last_fail_from t acc r
  | BFail :: r => last_fail_from now (Some now) r
  | _ :: r => last_fail_from now acc r
  end.
Definition last_fail_time (ops : list bop) : option Z := last_fail_from 0 None ops.

(* ghost run: the breaker run plus the number of requests admitted since the last recorded result *)
Definition gstep (cfg : config) (s : Z * breaker * Z) (o : bop) : Z * breaker * Z :=
  let '(now, b, adm) := s in
  match o with
  | BTime t => (t, b, adm)
  | BAllow => let '(b', r) := allow_request cfg now b in (now, b', if r then adm + 1 else adm)
  | BSucc => (now, record_success b, 0)
  | BFail => (now, record_failure cfg now b, 0)
  end.
Fixpoint grun (cfg : config) (s : Z * breaker * Z) (ops : list bop) : Z * breaker * Z :=
  match ops with [] => s | o :: r => grun cfg (gstep cfg s o) r end.

Definition binit : Z * breaker := (0, breaker0).

Lemma brun_app : forall cfg a b s, brun cfg s (a ++ b) = brun cfg (brun cfg s a) b.
Proof. induction a as [|o a IH]; intros; cbn; auto. Qed.
Lemma grun_app : forall cfg a b s, grun cfg s (a ++ b) = grun cfg (grun cfg s a) b.
Proof. induction a as [|o a IH]; intros; cbn; auto. Qed.

Lemma grun_brun : forall cfg ops now b adm, fst (grun cfg (now, b, adm) ops) = brun cfg (now, b) ops.
Proof.
  induction ops as [|o r IH]; intros now b adm; cbn [grun brun]; auto.
  destruct o; cbn [gstep bstep fst].
  - apply IH.
  - destruct (allow_request cfg now b) as [b' x]. cbn [fst]. apply IH.
  - apply IH.
  - apply IH.
Qed.

(* the invariant of every reachable breaker state, relative to the history that produced it *)
Record binv (cfg : config) (now : Z) (b : breaker) (adm : Z) (c : Z) (lf : option Z) : Prop := {
  inv_fails : b_fails b = c;
  inv_last : b_last b = lf;
  inv_closed : b_state b = Closed -> c < c_threshold cfg;
  inv_open : b_state b = Open -> adm = 0 /\ exists tf, lf = Some tf;
  inv_half : b_state b = HalfOpen -> adm = 1;
}.

Lemma consec_from_app1 : forall ops acc o, consec_from acc (ops ++ [o]) =
  match o with BSucc => 0 | BFail => consec_from acc ops + 1 | _ => consec_from acc ops end.
Proof.
  induction ops as [|x r IH]; intros acc o; cbn.
  - destruct o; reflexivity.
  - destruct x; apply IH.
Qed.

Fixpoint clock_from (now : Z) (ops : list bop) : Z :=
  match ops with [] => now | BTime t :: r => clock_from t r | _ :: r => clock_from now r end.

Lemma last_fail_from_app1 : forall ops now acc o, last_fail_from now acc (ops ++ [o]) =
  match o with BFail => Some (clock_from now ops) | _ => last_fail_from now acc ops end.
Proof.
  induction ops as [|x r IH]; intros now acc o; cbn.
  - destruct o; reflexivity.
  - destruct x; apply IH.
Qed.

Lemma brun_clock : forall cfg ops now b, fst (brun cfg (now, b) ops) = clock_from now ops.
Proof.
  induction ops as [|z r IH]; intros now b; cbn; auto.
  destruct z; cbn; auto.
  destruct (allow_request cfg now b). cbn. auto.
Qed.

Lemma step_inv : forall cfg now b adm c lf o,
  1 <= c_threshold cfg ->
  binv cfg now b adm c lf ->
  let '(now', b', adm') := gstep cfg (now, b, adm) o in
  binv cfg now' b' adm'
       (match o with BSucc => 0 | BFail => c + 1 | _ => c end)
       (match o with BFail => Some now | _ => lf end).
Proof.
  intros cfg now b adm c lf o Hth [Hf Hl Hc Ho Hh].
  destruct o; cbn [gstep].
  - constructor; auto.
  - unfold allow_request. destruct (b_state b) eqn:S.
    + constructor; auto; rewrite S; discriminate.
    + destruct (Ho eq_refl) as (Ha & tf & Etf). rewrite Hl, Etf.
      destruct (c_timeout cfg <=? Z.max 0 (now - tf)).
      * constructor; cbn; intros; try congruence; try lia.
      * constructor; cbn; intros; try congruence; try lia. split; eauto.
    + constructor; cbn; intros; try congruence; try lia; auto.
  - constructor; cbn; intros; try congruence; try lia.
    + destruct (b_state b) eqn:S; try discriminate. split; auto. destruct (Ho eq_refl) as (_ & tf & E). eauto.
    + destruct (b_state b); discriminate.
  - constructor; cbn; intros; try congruence; try lia.
    + destruct (b_state b) eqn:S; try discriminate. destruct (c_threshold cfg <=? b_fails b + 1) eqn:E; [discriminate|]. lia.
    + split; eauto.
    + destruct (b_state b); try discriminate. destruct (c_threshold cfg <=? b_fails b + 1); discriminate.
Qed.

Lemma run_inv_gen : forall cfg ops pre now b adm,
  1 <= c_threshold cfg ->
  grun cfg (0, breaker0, 0) pre = (now, b, adm) ->
  binv cfg now b adm (consec pre) (last_fail_time pre) ->
  let '(now', b', adm') := grun cfg (now, b, adm) ops in
  binv cfg now' b' adm' (consec (pre ++ ops)) (last_fail_time (pre ++ ops)).
Proof.
  induction ops as [|o r IH]; intros pre now b adm Hth Hrun Hinv.
  - cbn. rewrite app_nil_r. exact Hinv.
  - cbn [grun]. pose proof (step_inv cfg now b adm _ _ o Hth Hinv) as S.
    destruct (gstep cfg (now, b, adm) o) as [[now1 b1] adm1] eqn:G.
    replace (pre ++ o :: r)%list with ((pre ++ [o]) ++ r)%list by (rewrite <- app_assoc; reflexivity).
    apply IH; auto.
    + rewrite grun_app, Hrun. cbn [grun]. exact G.
    + unfold consec, last_fail_time. rewrite consec_from_app1, last_fail_from_app1.
      assert (Enow : clock_from 0 pre = now).
      { rewrite <- (brun_clock cfg pre 0 breaker0). rewrite <- (grun_brun cfg pre 0 breaker0 0), Hrun. reflexivity. }
      rewrite Enow. destruct o; exact S.
Qed.

Lemma binv_init : forall cfg, 1 <= c_threshold cfg -> binv cfg 0 breaker0 0 (consec []) (last_fail_time []).
Proof. intros. constructor; cbn; auto; try discriminate. intros _. unfold consec; cbn. lia. Qed.

Lemma run_inv : forall cfg ops, 1 <= c_threshold cfg ->
  let '(now, b, adm) := grun cfg (0, breaker0, 0) ops in
  binv cfg now b adm (consec ops) (last_fail_time ops).
Proof.
  intros cfg ops Hth. pose proof (run_inv_gen cfg ops [] 0 breaker0 0 Hth eq_refl (binv_init cfg Hth)) as H.
  exact H.
Qed.

(* ---- the four contract statements at breaker level ---- *)

Lemma opens_exactly : forall cfg ops now b,
  1 <= c_threshold cfg -> brun cfg binit ops = (now, b) -> b_state b = Closed ->
  consec ops < c_threshold cfg /\
  b_state (snd (brun cfg binit (ops ++ [BFail]))) = (if consec ops + 1 =? c_threshold cfg then Open else Closed).
Proof.
  intros cfg ops now b Hth Hrun Hc.
  pose proof (run_inv cfg ops Hth) as I. destruct (grun cfg (0, breaker0, 0) ops) as [[now' b'] adm] eqn:G.
  pose proof (grun_brun cfg ops 0 breaker0 0) as E. rewrite G in E. cbn [fst] in E. unfold binit in Hrun. rewrite Hrun in E. inv E.
  destruct I as [Hf Hl Hcl Ho Hh]. specialize (Hcl Hc). split; auto.
  rewrite brun_app. unfold binit. rewrite Hrun. cbn. rewrite Hc, Hf.
  destruct (consec ops + 1 =? c_threshold cfg) eqn:E1; destruct (c_threshold cfg <=? consec ops + 1) eqn:E2; auto; lia.
Qed.

Lemma rejects_until_timeout : forall cfg ops now b,
  1 <= c_threshold cfg -> brun cfg binit ops = (now, b) -> b_state b = Open ->
  exists tf, last_fail_time ops = Some tf /\
    forall t, snd (allow_request cfg t b) = (c_timeout cfg <=? Z.max 0 (t - tf)) /\
              b_state (fst (allow_request cfg t b)) = (if c_timeout cfg <=? Z.max 0 (t - tf) then HalfOpen else Open).
Proof.
  intros cfg ops now b Hth Hrun Hc.
  pose proof (run_inv cfg ops Hth) as I. destruct (grun cfg (0, breaker0, 0) ops) as [[now' b'] adm] eqn:G.
  pose proof (grun_brun cfg ops 0 breaker0 0) as E. rewrite G in E. cbn [fst] in E. unfold binit in Hrun. rewrite Hrun in E. inv E.
  destruct I as [Hf Hl Hcl Ho Hh]. destruct (Ho Hc) as (_ & tf & Etf). exists tf. split; auto.
  intros t. unfold allow_request. rewrite Hc, Hl, Etf.
  destruct (c_timeout cfg <=? Z.max 0 (t - tf)); cbn; auto.
Qed.

Lemma single_probe : forall cfg ops now b adm,
  1 <= c_threshold cfg -> grun cfg (0, breaker0, 0) ops = (now, b, adm) -> b_state b = HalfOpen ->
  adm = 1 /\
  (forall t, snd (allow_request cfg t b) = false /\ b_state (fst (allow_request cfg t b)) = HalfOpen) /\
  b_state (record_success b) = Closed /\
  (forall t, b_state (record_failure cfg t b) = Open).
Proof.
  intros cfg ops now b adm Hth G Hc.
  pose proof (run_inv cfg ops Hth) as I. rewrite G in I. destruct I as [Hf Hl Hcl Ho Hh].
  split; [auto|]. split; [|split].
  - intros t. unfold allow_request. rewrite Hc. cbn. auto.
  - cbn. rewrite Hc. reflexivity.
  - intros t. cbn. rewrite Hc. reflexivity.
Qed.

Lemma never_two_admitted : forall cfg ops now b adm,
  1 <= c_threshold cfg -> grun cfg (0, breaker0, 0) ops = (now, b, adm) -> b_state b <> Closed -> adm <= 1.
Proof.
  intros cfg ops now b adm Hth G Hc.
  pose proof (run_inv cfg ops Hth) as I. rewrite G in I. destruct I as [Hf Hl Hcl Ho Hh].
  destruct (b_state b) eqn:S; [congruence| destruct (Ho eq_refl); lia | rewrite (Hh eq_refl); lia].
Qed.

(* ================= resilient sink: nothing is lost ================= *)

Definition started (ops : list op) : list Z :=
  flat_map (fun o => match o with OStart _ _ evs => evs | _ => [] end) ops.
Definition inflight_events (w : world) : list Z := flat_map snd (w_inflight w).
Definition dlq_named (cfg : config) (w : world) (e : Z) : Prop :=
  exists d, In d (w_dlq w) /\ d_ev d = e /\ d_conn d = c_name cfg.

Definition accounted (cfg : config) (w : world) (e : Z) : Prop :=
  In e (w_delivered w) \/ dlq_named cfg w e \/ In e (inflight_events w).

Lemma take_sender_spec : forall s l evs rest, take_sender s l = Some (evs, rest) ->
  forall e, In e (flat_map snd l) <-> In e evs \/ In e (flat_map snd rest).
Proof.
  induction l as [|[s' ev'] r IH]; cbn; intros evs rest H e; [discriminate|].
  destruct (s' =? s).
  - inv H. rewrite in_app_iff. tauto.
  - destruct (take_sender s r) as [[e1 r1]|] eqn:T; [|discriminate]. inv H. cbn. rewrite !in_app_iff. rewrite (IH _ _ eq_refl). tauto.
Qed.

Lemma dlq_write_in : forall cfg er evs q d, In d (dlq_write cfg er evs q) ->
  In d q \/ (c_dlq cfg = true /\ d_conn d = c_name cfg /\ d_err d = er /\ In (d_ev d) evs).
Proof.
  intros cfg er evs q d H. unfold dlq_write in H. destruct (c_dlq cfg); auto.
  apply in_app_or in H. destruct H as [H|H]; auto. apply in_map_iff in H. destruct H as (ev & <- & I). cbn. auto.
Qed.

Lemma dlq_write_named : forall cfg er evs q e, c_dlq cfg = true -> In e evs ->
  exists d, In d (dlq_write cfg er evs q) /\ d_ev d = e /\ d_conn d = c_name cfg /\ d_err d = er.
Proof.
  intros cfg er evs q e Hd I. unfold dlq_write. rewrite Hd.
  exists {| d_conn := c_name cfg; d_err := er; d_ev := e |}. cbn. split; auto.
  apply in_or_app. right. apply in_map_iff. eauto.
Qed.

Lemma dlq_write_keeps : forall cfg er evs q d, In d q -> In d (dlq_write cfg er evs q).
Proof. intros. unfold dlq_write. destruct (c_dlq cfg); auto. apply in_or_app; auto. Qed.

Lemma step_accounted : forall cfg w o e,
  c_dlq cfg = true ->
  (accounted cfg w e \/ (match o with OStart _ _ evs => In e evs | _ => False end)) ->
  accounted cfg (fst (step cfg w o)) e.
Proof.
  intros cfg w o e Hd H. unfold accounted, dlq_named, inflight_events in *.
  destruct o; cbn [step].
  - cbn. tauto.
  - destruct (allow_request cfg (w_now w) (w_br w)) as [b' ok]. destruct ok; cbn.
    + rewrite flat_map_app. cbn. rewrite app_nil_r, in_app_iff. tauto.
    + destruct H as [[H|[H|H]]|H]; auto.
      * destruct H as (d & I & E1 & E2). right; left. exists d. split; auto. apply dlq_write_keeps; auto.
      * right; left. destruct (dlq_write_named cfg ErrOpen evs (w_dlq w) e Hd H) as (d & I & E1 & E2 & _). eauto.
  - destruct (take_sender sender (w_inflight w)) as [[evs rest]|] eqn:T; [|cbn; tauto].
    pose proof (take_sender_spec _ _ _ _ T e) as Sp.
    destruct ((k <? 0) || (Z.of_nat (length evs) <=? k)); cbn.
    + rewrite in_app_iff. destruct H as [[H|[H|H]]|[]]; auto. apply Sp in H. tauto.
    + destruct H as [[H|[H|H]]|[]].
      * left. apply in_or_app. auto.
      * destruct H as (d & I & E1 & E2). right; left. exists d. split; auto. apply dlq_write_keeps; auto.
      * apply Sp in H. destruct H as [H|H]; auto.
        right; left. destruct (dlq_write_named cfg (ErrInner code) evs (w_dlq w) e Hd H) as (d & I & E1 & E2 & _). eauto.
  - destruct (allow_request cfg (w_now w) (w_br w)) as [b' ok]. cbn. tauto.
  - cbn. tauto.
  - cbn. tauto.
Qed.

Lemma run_accounted_gen : forall cfg ops w e,
  c_dlq cfg = true -> (accounted cfg w e \/ In e (started ops)) -> accounted cfg (run cfg w ops) e.
Proof.
  induction ops as [|o r IH]; intros w e Hd H; cbn [run].
  - destruct H as [H|[]]; auto.
  - apply IH; auto. unfold started in H. cbn [flat_map] in H. rewrite in_app_iff in H.
    destruct H as [H|[H|H]]; auto.
    + left. apply step_accounted; auto.
    + left. apply step_accounted; auto. right. destruct o; try contradiction. exact H.
Qed.

(* every DLQ entry names this sink and carries either the rejection text or the error of some finished call *)
Definition finish_codes (ops : list op) : list Z :=
  flat_map (fun o => match o with OFinish _ _ c => [c] | _ => [] end) ops.

Definition dlq_ok (cfg : config) (codes : list Z) (d : dlq_entry) : Prop :=
  d_conn d = c_name cfg /\ (d_err d = ErrOpen \/ exists c, d_err d = ErrInner c /\ In c codes).

Lemma step_dlq_ok : forall cfg w o codes,
  (forall d, In d (w_dlq w) -> dlq_ok cfg codes d) ->
  forall d, In d (w_dlq (fst (step cfg w o))) ->
  dlq_ok cfg (codes ++ match o with OFinish _ _ c => [c] | _ => [] end) d.
Proof.
  intros cfg w o codes H d I.
  assert (W : forall d, dlq_ok cfg codes d -> dlq_ok cfg (codes ++ match o with OFinish _ _ c => [c] | _ => [] end) d).
  { intros d0 (A & B). split; auto. destruct B as [B|(c & B & C)]; auto. right. exists c. split; auto. apply in_or_app; auto. }
  destruct o; cbn [step] in I.
  - cbn in I. auto.
  - destruct (allow_request cfg (w_now w) (w_br w)) as [b' ok]. destruct ok; cbn in I; auto.
    apply dlq_write_in in I. destruct I as [I|(_ & A & B & _)]; auto. split; auto.
  - destruct (take_sender sender (w_inflight w)) as [[evs rest]|] eqn:T; [|cbn in I; auto].
    destruct ((k <? 0) || (Z.of_nat (length evs) <=? k)); cbn in I; auto.
    apply dlq_write_in in I. destruct I as [I|(_ & A & B & _)]; auto. split; auto. right. exists code. split; auto. apply in_or_app. right. left. reflexivity.
  - destruct (allow_request cfg (w_now w) (w_br w)) as [b' ok]. cbn in I. auto.
  - cbn in I; auto.
  - cbn in I; auto.
Qed.

Lemma run_dlq_ok_gen : forall cfg ops w codes,
  (forall d, In d (w_dlq w) -> dlq_ok cfg codes d) ->
  forall d, In d (w_dlq (run cfg w ops)) -> dlq_ok cfg (codes ++ finish_codes ops) d.
Proof.
  induction ops as [|o r IH]; intros w codes H d I; cbn [run] in I.
  - unfold finish_codes. cbn. rewrite app_nil_r. auto.
  - unfold finish_codes. cbn [flat_map]. rewrite app_assoc.
    apply (IH (fst (step cfg w o))); auto. intros d0 I0. eapply step_dlq_ok; eauto.
Qed.

(* a failed call: every one of its events is written to the DLQ with that error *)
Lemma finish_failure_dlq : forall cfg w s k code evs rest e,
  c_dlq cfg = true -> take_sender s (w_inflight w) = Some (evs, rest) ->
  0 <= k < Z.of_nat (length evs) -> In e evs ->
  exists d, In d (w_dlq (fst (step cfg w (OFinish s k code)))) /\ d_ev d = e /\ d_conn d = c_name cfg /\ d_err d = ErrInner code.
Proof.
  intros cfg w s k code evs rest e Hd T Hk I. cbn [step]. rewrite T.
  destruct ((k <? 0) || (Z.of_nat (length evs) <=? k)) eqn:E; [lia|]. cbn.
  apply dlq_write_named; auto.
Qed.

(* a rejected call: every one of its events is written to the DLQ as "circuit breaker open" *)
Lemma start_rejected_dlq : forall cfg w s bt evs e,
  c_dlq cfg = true -> snd (allow_request cfg (w_now w) (w_br w)) = false -> In e evs ->
  exists d, In d (w_dlq (fst (step cfg w (OStart s bt evs)))) /\ d_ev d = e /\ d_conn d = c_name cfg /\ d_err d = ErrOpen.
Proof.
  intros cfg w s bt evs e Hd Ha I. cbn [step]. destruct (allow_request cfg (w_now w) (w_br w)) as [b' ok]. cbn in Ha. subst ok. cbn.
  apply dlq_write_named; auto.
Qed.

(* ================= the world's breaker is a breaker-level history ================= *)

Definition bops_of_step (cfg : config) (w : world) (o : op) : list bop :=
  match o with
  | OTime t => [BTime t]
  | OStart _ _ _ => [BAllow]
  | OFinish s k _ =>
    match take_sender s (w_inflight w) with
    | None => []
    | Some (evs, _) => if (k <? 0) || (Z.of_nat (length evs) <=? k) then [BSucc] else [BFail]
    end
  | OAllow => [BAllow] | OSucc => [BSucc] | OFail => [BFail]
  end.

Fixpoint bops_of (cfg : config) (w : world) (ops : list op) : list bop :=
  match ops with [] => [] | o :: r => (bops_of_step cfg w o ++ bops_of cfg (fst (step cfg w o)) r)%list end.

Lemma step_breaker : forall cfg w o,
  brun cfg (w_now w, w_br w) (bops_of_step cfg w o) = (w_now (fst (step cfg w o)), w_br (fst (step cfg w o))).
Proof.
  intros cfg w o. destruct o; cbn [step bops_of_step].
  - reflexivity.
  - cbn. destruct (allow_request cfg (w_now w) (w_br w)) as [b' ok]. destruct ok; reflexivity.
  - destruct (take_sender sender (w_inflight w)) as [[evs rest]|]; [|reflexivity].
    destruct ((k <? 0) || (Z.of_nat (length evs) <=? k)); reflexivity.
  - cbn. destruct (allow_request cfg (w_now w) (w_br w)) as [b' ok]. reflexivity.
  - reflexivity.
  - reflexivity.
Qed.

Lemma run_breaker : forall cfg ops w,
  brun cfg (w_now w, w_br w) (bops_of cfg w ops) = (w_now (run cfg w ops), w_br (run cfg w ops)).
Proof.
  induction ops as [|o r IH]; intros w; cbn [run bops_of brun]; auto.
  rewrite brun_app, step_breaker. apply IH.
Qed.
