(* C45 — property theorems only.  Model: Breaker/Model.v (the definitions evaluated in the
   correspondence check); lemmas: Breaker/Proofs.v.

   Histories.  [run cfg world0 ops] executes any sequence of operations of any number of
   concurrent senders (start of a send / send_batch up to the await of the inner sink, completion
   with any downstream outcome, clock changes, direct breaker calls) — i.e. every interleaving at
   the granularity of the breaker's mutex.  [brun cfg binit bops] is the breaker alone under any
   history of allow_request / record_success / record_failure calls and clock changes;
   C45_world_breaker says the sink's breaker always is in such a state. *)
From VP Require Import Base.Tactics Breaker.Model Breaker.Proofs.
Open Scope Z_scope.

(* Every event handed to the sink is delivered, or in the DLQ in an entry naming this sink,
   or its call has not completed yet — after any history, any outcomes, any interleaving. *)
Theorem C45_no_loss : forall cfg ops e,
  c_dlq cfg = true -> In e (started ops) ->
  In e (w_delivered (run cfg world0 ops)) \/
  (exists d, In d (w_dlq (run cfg world0 ops)) /\ d_ev d = e /\ d_conn d = c_name cfg) \/
  In e (inflight_events (run cfg world0 ops)).
Proof. intros cfg ops e Hd I. apply (run_accounted_gen cfg ops world0 e Hd). right. exact I. Qed.

(* Every DLQ entry names the sink and an error: the breaker's rejection, or the error text of a completed downstream call. *)
Theorem C45_dlq_entries_named : forall cfg ops d,
  In d (w_dlq (run cfg world0 ops)) ->
  d_conn d = c_name cfg /\ (d_err d = ErrOpen \/ exists c, d_err d = ErrInner c /\ In c (finish_codes ops)).
Proof. intros cfg ops d I. apply (run_dlq_ok_gen cfg ops world0 [] (fun d0 (F : In d0 []) => match F with end) d I). Qed.

(* ... and the error is the right one: a failed downstream call puts each of its events in the DLQ with
   that call's error, a rejected call puts each of its events there as "circuit breaker open". *)
Theorem C45_failed_call_to_dlq : forall cfg w s k code evs rest e,
  c_dlq cfg = true -> take_sender s (w_inflight w) = Some (evs, rest) ->
  0 <= k < Z.of_nat (length evs) -> In e evs ->
  exists d, In d (w_dlq (fst (step cfg w (OFinish s k code)))) /\ d_ev d = e /\ d_conn d = c_name cfg /\ d_err d = ErrInner code.
Proof. exact finish_failure_dlq. Qed.

Theorem C45_rejected_call_to_dlq : forall cfg w s bt evs e,
  c_dlq cfg = true -> snd (allow_request cfg (w_now w) (w_br w)) = false -> In e evs ->
  exists d, In d (w_dlq (fst (step cfg w (OStart s bt evs)))) /\ d_ev d = e /\ d_conn d = c_name cfg /\ d_err d = ErrOpen.
Proof. exact start_rejected_dlq. Qed.

(* The sink's breaker is always the breaker after some history of breaker calls. *)
Theorem C45_world_breaker : forall cfg ops,
  brun cfg binit (bops_of cfg world0 ops) = (w_now (run cfg world0 ops), w_br (run cfg world0 ops)).
Proof. intros. apply (run_breaker cfg ops world0). Qed.

(* Opens after exactly the configured number of consecutive failures: while closed the count of
   failures since the last success is below the threshold, and the next failure opens the breaker
   iff it is the threshold-th. *)
Theorem C45_opens_exactly : forall cfg ops now b,
  1 <= c_threshold cfg -> brun cfg binit ops = (now, b) -> b_state b = Closed ->
  consec ops < c_threshold cfg /\
  b_state (snd (brun cfg binit (ops ++ [BFail]))) = (if consec ops + 1 =? c_threshold cfg then Open else Closed).
Proof. exact opens_exactly. Qed.

(* While open: a request at time t is admitted iff the reset timeout has passed since the last
   recorded failure; until then it is rejected and the breaker stays open; the first admitted one
   moves it to half-open. *)
Theorem C45_rejects_until_timeout : forall cfg ops now b,
  1 <= c_threshold cfg -> brun cfg binit ops = (now, b) -> b_state b = Open ->
  exists tf, last_fail_time ops = Some tf /\
    forall t, snd (allow_request cfg t b) = (c_timeout cfg <=? Z.max 0 (t - tf)) /\
              b_state (fst (allow_request cfg t b)) = (if c_timeout cfg <=? Z.max 0 (t - tf) then HalfOpen else Open).
Proof. exact rejects_until_timeout. Qed.

(* While half-open: exactly one request has been admitted since the last recorded result (the probe),
   every further request is rejected and leaves the state half-open, and the next recorded result
   closes the breaker on success and reopens it on failure. *)
Theorem C45_single_probe : forall cfg ops now b adm,
  1 <= c_threshold cfg -> grun cfg (0, breaker0, 0) ops = (now, b, adm) -> b_state b = HalfOpen ->
  adm = 1 /\
  (forall t, snd (allow_request cfg t b) = false /\ b_state (fst (allow_request cfg t b)) = HalfOpen) /\
  b_state (record_success b) = Closed /\
  (forall t, b_state (record_failure cfg t b) = Open).
Proof. exact single_probe. Qed.

(* Outside the closed state at most one request is admitted between two recorded results. *)
Theorem C45_at_most_one_probe : forall cfg ops now b adm,
  1 <= c_threshold cfg -> grun cfg (0, breaker0, 0) ops = (now, b, adm) -> b_state b <> Closed -> adm <= 1.
Proof. exact never_two_admitted. Qed.

(* the ghost counter does not change the run *)
Theorem C45_ghost_run_is_run : forall cfg ops, fst (grun cfg (0, breaker0, 0) ops) = brun cfg binit ops.
Proof. intros. apply grun_brun. Qed.

(* ---- the hypotheses are reachable ---- *)
Definition cfg_ex : config := {| c_threshold := 2; c_timeout := 10; c_dlq := true; c_name := 7; c_atomic := false |}.

Example C45_open_reachable : b_state (snd (brun cfg_ex binit [BAllow; BFail; BAllow; BFail])) = Open.
Proof. vm_compute. reflexivity. Qed.
Example C45_half_open_reachable :
  grun cfg_ex (0, breaker0, 0) [BAllow; BFail; BAllow; BFail; BAllow; BTime 10; BAllow; BAllow] =
  (10, {| b_state := HalfOpen; b_fails := 2; b_last := Some 0; n_fail := 2; n_succ := 0; n_rej := 2 |}, 1).
Proof. vm_compute. reflexivity. Qed.
(* three senders: 1 fails twice in a batch -> open; 2 is rejected to the DLQ; after the timeout 3 probes, 2 is rejected again *)
Example C45_world_example :
  let w := run cfg_ex world0 [OStart 1 false [1]; OFinish 1 0 5; OStart 1 true [2;3]; OFinish 1 1 6; OStart 2 false [4];
                              OTime 10; OStart 3 false [5]; OStart 2 false [6]] in
  w_delivered w = [2] /\ map d_ev (w_dlq w) = [1;2;3;4;6] /\ inflight_events w = [5] /\ b_state (w_br w) = HalfOpen.
Proof. vm_compute. repeat split; reflexivity. Qed.
