(* Store/TenantProofs.v — the snapshot + index protocol recovers the acknowledged state (C22). *)
From Coq Require Import Permutation.
From VP Require Import Base.Tactics Store.Tenant.
Open Scope N_scope.

(* ---------------- key-value store ---------------- *)
Lemma skey_eqb_eq : forall a b, skey_eqb a b = true <-> a = b.
Proof.
  intros [|x] [|y]; cbn [skey_eqb]; split; intro H; try discriminate; try reflexivity.
  - apply N.eqb_eq in H. subst. reflexivity.
  - inversion H. apply N.eqb_refl.
Qed.

Lemma skey_eqb_refl : forall a, skey_eqb a a = true.
Proof. intro. apply skey_eqb_eq. reflexivity. Qed.

Lemma skey_eqb_neq : forall a b, a <> b -> skey_eqb a b = false.
Proof. intros a b H. destruct (skey_eqb a b) eqn:E; [|reflexivity]. apply skey_eqb_eq in E. contradiction. Qed.

Lemma kv_get_del : forall s k q, kv_get (kv_del s k) q = if skey_eqb k q then None else kv_get s q.
Proof.
  induction s as [|[k' v] s IH]; intros k q; cbn [kv_del kv_get].
  - destruct (skey_eqb k q); reflexivity.
  - destruct (skey_eqb k' k) eqn:E1.
    + apply skey_eqb_eq in E1. subst k'. rewrite IH. destruct (skey_eqb k q); reflexivity.
    + cbn [kv_get]. rewrite IH. destruct (skey_eqb k' q) eqn:E2; [|reflexivity].
      apply skey_eqb_eq in E2. subst k'. destruct (skey_eqb k q) eqn:E3; [|reflexivity].
      apply skey_eqb_eq in E3. subst k. rewrite skey_eqb_refl in E1. discriminate.
Qed.

Lemma kv_get_put : forall s k v q, kv_get (kv_put s k v) q = if skey_eqb k q then Some v else kv_get s q.
Proof.
  intros s k v q. unfold kv_put. cbn [kv_get]. destruct (skey_eqb k q) eqn:E; [reflexivity|].
  rewrite kv_get_del, E. reflexivity.
Qed.

Lemma mem_N_In : forall x l, mem_N x l = true <-> In x l.
Proof.
  intros x l. induction l as [|y r IH]; cbn [mem_N In]; [split; [discriminate|tauto]|].
  rewrite orb_true_iff, IH, N.eqb_eq. tauto.
Qed.

Lemma NoDup_app_snoc : forall {A} (l : list A) x, NoDup l -> ~ In x l -> NoDup (l ++ [x]).
Proof.
  intros A l x Hn Hx. induction Hn as [|y l Hy Hn IH]; cbn [app]; [constructor; [intros []|constructor]|].
  constructor.
  - intro Hin. apply in_app_or in Hin. destruct Hin as [Hin|[Hin|[]]]; [contradiction|]. subst. apply Hx. left. reflexivity.
  - apply IH. intro Hin. apply Hx. right. exact Hin.
Qed.

(* ---------------- the in-memory manager ---------------- *)
Lemma find_tenant_some : forall m id t, find_tenant m id = Some t -> In t m /\ t_id t = id.
Proof.
  induction m as [|x m IH]; intros id t H; cbn [find_tenant] in H; [discriminate|].
  destruct (N.eqb (t_id x) id) eqn:E.
  - inversion H; subst. apply N.eqb_eq in E. split; [left; reflexivity|exact E].
  - destruct (IH _ _ H). split; [right; assumption|assumption].
Qed.

Lemma in_set_tenant : forall m t x, NoDup (map t_id m) -> In (t_id t) (map t_id m) ->
  (In x (set_tenant m t) <-> (x = t \/ (In x m /\ t_id x <> t_id t))).
Proof.
  induction m as [|y m IH]; intros t x Hn Hin; cbn [set_tenant map] in *; [contradiction|].
  inversion Hn as [|? ? Hny Hn']; subst.
  destruct (N.eqb (t_id y) (t_id t)) eqn:E.
  - apply N.eqb_eq in E. cbn [In]. split.
    + intros [H|H]; [left; symmetry; exact H|]. right. split; [right; exact H|].
      intro Ex. apply Hny. rewrite E, <- Ex. apply in_map. exact H.
    + intros [H|[[H|H] Hne]]; [left; symmetry; exact H| |right; exact H]. subst x. congruence.
  - apply N.eqb_neq in E. destruct Hin as [Hin|Hin]; [congruence|]. cbn [In]. rewrite (IH t x Hn' Hin). split.
    + intros [H|[H|[H Hne]]]; [right; split; [left; exact H|subst; exact E]|left; exact H|right; split; [right; exact H|exact Hne]].
    + intros [H|[[H|H] Hne]]; [right; left; exact H|left; exact H|right; right; split; assumption].
Qed.

Lemma map_id_set_tenant : forall m t, map t_id (set_tenant m t) = map t_id m.
Proof.
  induction m as [|y m IH]; intro t; cbn [set_tenant map]; [reflexivity|].
  destruct (N.eqb (t_id y) (t_id t)) eqn:E; cbn [map]; [apply N.eqb_eq in E; congruence|rewrite IH; reflexivity].
Qed.

Lemma in_remove_tenant : forall m id x, In x (remove_tenant m id) <-> (In x m /\ t_id x <> id).
Proof.
  intros m id x. unfold remove_tenant. rewrite filter_In, negb_true_iff, N.eqb_neq. tauto.
Qed.

Lemma NoDup_ids_remove : forall m id, NoDup (map t_id m) -> NoDup (map t_id (remove_tenant m id)).
Proof.
  induction m as [|y m IH]; intros id H; [constructor|]. cbn [map] in H. inversion H as [|? ? Hny Hn]; subst.
  unfold remove_tenant. cbn [filter]. destruct (negb (t_id y =? id)); [|apply IH; exact Hn].
  cbn [map]. constructor; [|apply IH; exact Hn]. intro Hin. apply Hny.
  apply in_map_iff in Hin. destruct Hin as [z [E Hz]]. apply in_remove_tenant in Hz. destruct Hz as [Hz _].
  rewrite <- E. apply in_map. exact Hz.
Qed.

(* ---------------- the invariant between store and manager ---------------- *)
Record Inv (s : kvs) (m : mgr) : Prop := {
  i_ids : NoDup (map t_id m);
  i_snap : forall t, In t m -> kv_get s (KTenant (t_id t)) = Some (VSnap t) /\ In (t_id t) (load_index s);
  i_index : forall id, In id (load_index s) -> (exists t, In t m /\ t_id t = id) \/ kv_get s (KTenant id) = None;
  i_nodup : NoDup (load_index s);
  i_typed : forall id v, kv_get s (KTenant id) = Some v -> exists t, v = VSnap t /\ t_id t = id;
  i_typed_index : forall v, kv_get s KIndex = Some v -> exists ids, v = VIndex ids
}.

Lemma recover_in : forall s m, Inv s m -> forall t, In t (recover s) <-> In t m.
Proof.
  intros s m HI t. unfold recover. split.
  - intro H. destruct (kv_get s KIndex) as [[ids|x]|] eqn:EI; try contradiction.
    apply in_flat_map in H. destruct H as [id [Hid Ht]].
    destruct (kv_get s (KTenant id)) as [[ids'|t']|] eqn:ES; try contradiction.
    destruct Ht as [Ht|[]]. subst t'.
    assert (In id (load_index s)) as Hin by (unfold load_index; rewrite EI; exact Hid).
    destruct (i_index s m HI id Hin) as [[t0 [Ht0 E0]]|Hn]; [|congruence].
    destruct (i_snap s m HI t0 Ht0) as [Hs _]. rewrite E0, ES in Hs. inversion Hs; subst. exact Ht0.
  - intro H. destruct (i_snap s m HI t H) as [Hs Hin]. unfold load_index in Hin.
    destruct (kv_get s KIndex) as [[ids|x]|] eqn:EI; try contradiction.
    apply in_flat_map. exists (t_id t). split; [exact Hin|]. rewrite Hs. left. reflexivity.
Qed.

Lemma NoDup_flat_snaps : forall s ids, NoDup ids ->
  (forall id v, kv_get s (KTenant id) = Some v -> exists t, v = VSnap t /\ t_id t = id) ->
  NoDup (flat_map (fun id => match kv_get s (KTenant id) with Some (VSnap t) => [t] | _ => [] end) ids).
Proof.
  intros s ids Hn Ht. induction Hn as [|id ids Hni Hn IH]; cbn [flat_map]; [constructor|].
  destruct (kv_get s (KTenant id)) as [[x|t]|] eqn:E; cbn [app]; try exact IH.
  constructor; [|exact IH]. intro Hin. apply in_flat_map in Hin. destruct Hin as [id' [Hid' Hx]].
  destruct (kv_get s (KTenant id')) as [[x|t']|] eqn:E'; try contradiction. destruct Hx as [Hx|[]]. subst t'.
  destruct (Ht _ _ E) as [t1 [E1 I1]]. destruct (Ht _ _ E') as [t2 [E2 I2]].
  inversion E1; inversion E2; subst. congruence.
Qed.

Lemma recover_nodup : forall s m, Inv s m -> NoDup (recover s).
Proof.
  intros s m HI. unfold recover. destruct (kv_get s KIndex) as [[ids|x]|] eqn:EI; try constructor.
  apply NoDup_flat_snaps; [|exact (i_typed s m HI)].
  pose proof (i_nodup s m HI) as Hn. unfold load_index in Hn. rewrite EI in Hn. exact Hn.
Qed.

Lemma NoDup_of_ids : forall m, NoDup (map t_id m) -> NoDup m.
Proof.
  induction m as [|t m IH]; intro H; [constructor|]. cbn [map] in H. inversion H; subst.
  constructor; [|auto]. intro Hin. apply H2. apply in_map. exact Hin.
Qed.

Lemma recover_perm : forall s m, Inv s m -> Permutation (recover s) m.
Proof.
  intros s m HI. apply NoDup_Permutation; [eapply recover_nodup; exact HI|apply NoDup_of_ids, (i_ids s m HI)|].
  apply recover_in. exact HI.
Qed.

(* the invariant only depends on the manager as a set *)
Lemma inv_perm : forall s m m', Inv s m -> NoDup (map t_id m') -> (forall t, In t m' <-> In t m) -> Inv s m'.
Proof.
  intros s m m' HI Hn Heq. constructor.
  - exact Hn.
  - intros t Ht. apply (i_snap s m HI). apply Heq. exact Ht.
  - intros id Hid. destruct (i_index s m HI id Hid) as [[t [Ht E]]|H]; [left; exists t; split; [apply Heq; exact Ht|exact E]|right; exact H].
  - exact (i_nodup s m HI).
  - exact (i_typed s m HI).
  - exact (i_typed_index s m HI).
Qed.

Lemma inv_recover : forall s m, Inv s m -> Inv s (recover s).
Proof.
  intros s m HI. apply (inv_perm s m); [exact HI| |apply recover_in; exact HI].
  eapply Permutation_NoDup; [apply Permutation_map, Permutation_sym, recover_perm; exact HI|exact (i_ids s m HI)].
Qed.

Lemma inv_empty : Inv [] [].
Proof.
  constructor; cbn; try constructor; try contradiction; intros; discriminate.
Qed.

(* ---------------- the writes ---------------- *)
Lemma load_index_put_snap : forall s id v, load_index (kv_put s (KTenant id) v) = load_index s.
Proof. intros. unfold load_index. rewrite kv_get_put. reflexivity. Qed.

Lemma load_index_del_snap : forall s id, load_index (kv_del s (KTenant id)) = load_index s.
Proof. intros. unfold load_index. rewrite kv_get_del. reflexivity. Qed.

Lemma load_index_put_index : forall s ids, load_index (kv_put s KIndex (VIndex ids)) = ids.
Proof. intros. unfold load_index. rewrite kv_get_put. reflexivity. Qed.

(* create, first write: the snapshot of a fresh id is invisible *)
Lemma inv_put_fresh_snap : forall s m t, Inv s m -> ~ In (t_id t) (load_index s) ->
  Inv (kv_put s (KTenant (t_id t)) (VSnap t)) m.
Proof.
  intros s m t HI Hf. constructor.
  - exact (i_ids s m HI).
  - intros x Hx. destruct (i_snap s m HI x Hx) as [H1 H2]. rewrite load_index_put_snap. split; [|exact H2].
    rewrite kv_get_put. cbn [skey_eqb]. destruct (N.eqb (t_id t) (t_id x)) eqn:E; [|exact H1].
    apply N.eqb_eq in E. exfalso. apply Hf. rewrite E. exact H2.
  - intros id Hid. rewrite load_index_put_snap in Hid. destruct (i_index s m HI id Hid) as [H|H]; [left; exact H|].
    right. rewrite kv_get_put. cbn [skey_eqb]. destruct (N.eqb (t_id t) id) eqn:E; [|exact H].
    apply N.eqb_eq in E. subst id. contradiction.
  - rewrite load_index_put_snap. exact (i_nodup s m HI).
  - intros id v G. rewrite kv_get_put in G. cbn [skey_eqb] in G. destruct (N.eqb (t_id t) id) eqn:E.
    + apply N.eqb_eq in E. inversion G; subst. exists t. split; reflexivity.
    + exact (i_typed s m HI id v G).
  - intros v G. rewrite kv_get_put in G. cbn [skey_eqb] in G. exact (i_typed_index s m HI v G).
Qed.

(* create, second write: the id enters the index *)
Lemma inv_index_add_new : forall s m t, Inv s m -> ~ In (t_id t) (load_index s) -> ~ In (t_id t) (map t_id m) ->
  kv_get s (KTenant (t_id t)) = Some (VSnap t) ->
  Inv (apply_write s (WIndexAdd (t_id t))) (m ++ [t]).
Proof.
  intros s m t HI Hf Hm Hs. cbn [apply_write].
  assert (mem_N (t_id t) (load_index s) = false) as E.
  { destruct (mem_N (t_id t) (load_index s)) eqn:E; [|reflexivity]. apply mem_N_In in E. contradiction. }
  rewrite E. constructor.
  - rewrite map_app. cbn [map]. apply NoDup_app_snoc; [exact (i_ids s m HI)|exact Hm].
  - intros x Hx. rewrite load_index_put_index, kv_get_put. cbn [skey_eqb]. apply in_app_or in Hx. destruct Hx as [Hx|[Hx|[]]].
    + destruct (i_snap s m HI x Hx) as [H1 H2]. split; [exact H1|apply in_or_app; left; exact H2].
    + subst x. split; [exact Hs|apply in_or_app; right; left; reflexivity].
  - intros id Hid. rewrite load_index_put_index in Hid. rewrite kv_get_put. cbn [skey_eqb]. apply in_app_or in Hid.
    destruct Hid as [Hid|[Hid|[]]].
    + destruct (i_index s m HI id Hid) as [[x [Hx Ex]]|H]; [left; exists x; split; [apply in_or_app; left; exact Hx|exact Ex]|right; exact H].
    + subst id. left. exists t. split; [apply in_or_app; right; left; reflexivity|reflexivity].
  - rewrite load_index_put_index. apply NoDup_app_snoc; [exact (i_nodup s m HI)|exact Hf].
  - intros id v G. rewrite kv_get_put in G. cbn [skey_eqb] in G. exact (i_typed s m HI id v G).
  - intros v G. rewrite kv_get_put in G. cbn [skey_eqb] in G. inversion G. eexists. reflexivity.
Qed.

(* update of an existing tenant, first write *)
Lemma inv_put_existing_snap : forall s m t', Inv s m -> In (t_id t') (map t_id m) ->
  Inv (kv_put s (KTenant (t_id t')) (VSnap t')) (set_tenant m t').
Proof.
  intros s m t' HI Hin.
  assert (In (t_id t') (load_index s)) as Hidx.
  { apply in_map_iff in Hin. destruct Hin as [x [Ex Hx]]. rewrite <- Ex. apply (i_snap s m HI x Hx). }
  constructor.
  - rewrite map_id_set_tenant. exact (i_ids s m HI).
  - intros x Hx. apply (in_set_tenant m t' x (i_ids s m HI) Hin) in Hx. rewrite load_index_put_snap, kv_get_put. cbn [skey_eqb].
    destruct Hx as [Hx|[Hx Hne]].
    + subst x. rewrite N.eqb_refl. split; [reflexivity|exact Hidx].
    + destruct (N.eqb (t_id t') (t_id x)) eqn:E; [apply N.eqb_eq in E; congruence|]. exact (i_snap s m HI x Hx).
  - intros id Hid. rewrite load_index_put_snap in Hid. rewrite kv_get_put. cbn [skey_eqb].
    destruct (N.eqb (t_id t') id) eqn:E.
    + apply N.eqb_eq in E. left. exists t'. split; [|exact E]. apply (in_set_tenant m t' t' (i_ids s m HI) Hin). left. reflexivity.
    + apply N.eqb_neq in E. destruct (i_index s m HI id Hid) as [[x [Hx Ex]]|H]; [|right; exact H].
      left. exists x. split; [|exact Ex]. apply (in_set_tenant m t' x (i_ids s m HI) Hin). right. split; [exact Hx|congruence].
  - rewrite load_index_put_snap. exact (i_nodup s m HI).
  - intros id v G. rewrite kv_get_put in G. cbn [skey_eqb] in G. destruct (N.eqb (t_id t') id) eqn:E.
    + apply N.eqb_eq in E. inversion G; subst. exists t'. split; reflexivity.
    + exact (i_typed s m HI id v G).
  - intros v G. rewrite kv_get_put in G. cbn [skey_eqb] in G. exact (i_typed_index s m HI v G).
Qed.

(* re-adding an id that is already in the index leaves every lookup as it was *)
Lemma inv_index_add_present : forall s m id, Inv s m -> In id (load_index s) -> Inv (apply_write s (WIndexAdd id)) m.
Proof.
  intros s m id HI Hin. cbn [apply_write]. assert (mem_N id (load_index s) = true) as E by (apply mem_N_In; exact Hin).
  rewrite E. constructor.
  - exact (i_ids s m HI).
  - intros x Hx. rewrite load_index_put_index, kv_get_put. cbn [skey_eqb]. exact (i_snap s m HI x Hx).
  - intros i Hi. rewrite load_index_put_index in Hi. rewrite kv_get_put. cbn [skey_eqb]. exact (i_index s m HI i Hi).
  - rewrite load_index_put_index. exact (i_nodup s m HI).
  - intros i v G. rewrite kv_get_put in G. cbn [skey_eqb] in G. exact (i_typed s m HI i v G).
  - intros v G. rewrite kv_get_put in G. cbn [skey_eqb] in G. inversion G. eexists. reflexivity.
Qed.

(* delete, first write *)
Lemma inv_del_snap : forall s m id, Inv s m -> Inv (kv_del s (KTenant id)) (remove_tenant m id).
Proof.
  intros s m id HI. constructor.
  - apply NoDup_ids_remove, (i_ids s m HI).
  - intros x Hx. apply in_remove_tenant in Hx. destruct Hx as [Hx Hne]. rewrite load_index_del_snap, kv_get_del. cbn [skey_eqb].
    destruct (N.eqb id (t_id x)) eqn:E; [apply N.eqb_eq in E; congruence|]. exact (i_snap s m HI x Hx).
  - intros i Hi. rewrite load_index_del_snap in Hi. rewrite kv_get_del. cbn [skey_eqb].
    destruct (N.eqb id i) eqn:E; [right; reflexivity|]. apply N.eqb_neq in E.
    destruct (i_index s m HI i Hi) as [[x [Hx Ex]]|H]; [|right; exact H].
    left. exists x. split; [|exact Ex]. apply in_remove_tenant. split; [exact Hx|congruence].
  - rewrite load_index_del_snap. exact (i_nodup s m HI).
  - intros i v G. rewrite kv_get_del in G. cbn [skey_eqb] in G. destruct (N.eqb id i); [discriminate|]. exact (i_typed s m HI i v G).
  - intros v G. rewrite kv_get_del in G. cbn [skey_eqb] in G. exact (i_typed_index s m HI v G).
Qed.

(* delete, second write *)
Lemma inv_index_remove : forall s m id, Inv s m -> ~ In id (map t_id m) -> Inv (apply_write s (WIndexRemove id)) m.
Proof.
  intros s m id HI Hni. cbn [apply_write]. constructor.
  - exact (i_ids s m HI).
  - intros x Hx. rewrite load_index_put_index, kv_get_put. cbn [skey_eqb]. destruct (i_snap s m HI x Hx) as [H1 H2].
    split; [exact H1|]. apply filter_In. split; [exact H2|]. apply negb_true_iff, N.eqb_neq. intro E. apply Hni. rewrite <- E. apply in_map. exact Hx.
  - intros i Hi. rewrite load_index_put_index in Hi. apply filter_In in Hi. destruct Hi as [Hi _]. rewrite kv_get_put. cbn [skey_eqb].
    exact (i_index s m HI i Hi).
  - rewrite load_index_put_index. apply NoDup_filter, (i_nodup s m HI).
  - intros i v G. rewrite kv_get_put in G. cbn [skey_eqb] in G. exact (i_typed s m HI i v G).
  - intros v G. rewrite kv_get_put in G. cbn [skey_eqb] in G. inversion G. eexists. reflexivity.
Qed.

(* ---------------- operations and crash points ---------------- *)
Lemma do_writes_two : forall s w1 w2 b,
  do_writes s [w1; w2] b =
  match b with
  | Some O => (s, Some O, true, O)
  | Some (S O) => (apply_write s w1, Some O, true, 1%nat)
  | Some (S (S n)) => (apply_write (apply_write s w1) w2, Some n, false, 2%nat)
  | None => (apply_write (apply_write s w1) w2, None, false, 2%nat)
  end.
Proof. intros s w1 w2 [[|[|n]]|]; reflexivity. Qed.

(* the store after the first write of an accepted operation satisfies the invariant with the manager before or
   after the operation; after both writes, with the manager after it *)
Definition fresh_for (s : kvs) (m : mgr) (o : op) : Prop :=
  match o with OCreate id _ _ => fresh_id s m id = true | _ => True end.

Lemma fresh_id_spec : forall s m id, fresh_id s m id = true ->
  ~ In id (load_index s) /\ kv_get s (KTenant id) = None /\ ~ In id (map t_id m).
Proof.
  intros s m id H. unfold fresh_id in H. apply andb_true_iff in H. destruct H as [H H3].
  apply andb_true_iff in H. destruct H as [H1 H2]. split; [|split].
  - intro Hin. apply mem_N_In in Hin. rewrite Hin in H1. discriminate.
  - destruct (kv_get s (KTenant id)); [discriminate|reflexivity].
  - intro Hin. apply mem_N_In in Hin. rewrite Hin in H3. discriminate.
Qed.

Lemma effect_writes : forall s m o m' ws, Inv s m -> fresh_for s m o -> op_effect m o = Some (m', ws) ->
  exists w1 w2, ws = [w1; w2] /\
    (Inv (apply_write s w1) m \/ Inv (apply_write s w1) m') /\
    Inv (apply_write (apply_write s w1) w2) m'.
Proof.
  intros s m o m' ws HI Hf He.
  assert (forall t t', find_tenant m (t_id t') = Some t -> t_id t' = t_id t ->
            exists w1 w2, persist_writes t' = [w1; w2] /\
              (Inv (apply_write s w1) m \/ Inv (apply_write s w1) (set_tenant m t')) /\
              Inv (apply_write (apply_write s w1) w2) (set_tenant m t')) as Hupd.
  { intros t t' Hfind Eid. apply find_tenant_some in Hfind. destruct Hfind as [Hin _].
    assert (In (t_id t') (map t_id m)) as Hinid by (rewrite Eid; apply in_map; exact Hin).
    exists (WPutSnap t'), (WIndexAdd (t_id t')). split; [reflexivity|].
    pose proof (inv_put_existing_snap s m t' HI Hinid) as H1. cbn [apply_write]. split; [right; exact H1|].
    apply (inv_index_add_present _ _ (t_id t') H1).
    rewrite load_index_put_snap. apply in_map_iff in Hinid. destruct Hinid as [x [Ex Hx]]. rewrite <- Ex. apply (i_snap s m HI x Hx). }
  destruct o as [id name key|id|tid pid name src|tid pid|tid pid src|]; cbn [op_effect] in He.
  - inversion He; subst. cbn [fresh_for] in Hf. apply fresh_id_spec in Hf. destruct Hf as [F1 [F2 F3]].
    exists (WPutSnap (mkT id name key [])), (WIndexAdd id). split; [reflexivity|].
    pose proof (inv_put_fresh_snap s m (mkT id name key []) HI F1) as H1. cbn [t_id] in H1.
    split; [left; exact H1|].
    apply (inv_index_add_new _ m (mkT id name key []) H1); cbn [t_id].
    + rewrite load_index_put_snap. exact F1.
    + exact F3.
    + rewrite kv_get_put, skey_eqb_refl. reflexivity.
  - destruct (find_tenant m id) as [t|] eqn:Ef; [|discriminate]. inversion He; subst.
    exists (WDelSnap id), (WIndexRemove id). split; [reflexivity|].
    pose proof (inv_del_snap s m id HI) as H1. cbn [apply_write]. split; [right; exact H1|].
    apply (inv_index_remove _ _ id H1). intro Hin. apply in_map_iff in Hin. destruct Hin as [x [Ex Hx]].
    apply in_remove_tenant in Hx. destruct Hx as [_ Hne]. contradiction.
  - destruct (find_tenant m tid) as [t|] eqn:Ef; [|discriminate]. inversion He; subst.
    pose proof (find_tenant_some _ _ _ Ef) as [_ Et]. subst tid.
    apply (Hupd t); [exact Ef|reflexivity].
  - destruct (find_tenant m tid) as [t|] eqn:Ef; [|discriminate]. destruct (has_pipe t pid); [|discriminate]. inversion He; subst.
    pose proof (find_tenant_some _ _ _ Ef) as [_ Et]. subst tid.
    apply (Hupd t); [exact Ef|reflexivity].
  - destruct (find_tenant m tid) as [t|] eqn:Ef; [|discriminate]. destruct (has_pipe t pid); [|discriminate]. inversion He; subst.
    pose proof (find_tenant_some _ _ _ Ef) as [_ Et]. subst tid.
    apply (Hupd t); [exact Ef|reflexivity].
  - discriminate.
Qed.

(* ---------------- the world invariant ---------------- *)
Definition Good (w : world) : Prop :=
  if w_frozen w
  then Permutation (recover (w_store w)) (w_acked w) \/ Permutation (recover (w_store w)) (w_mem w)
  else Inv (w_store w) (w_mem w) /\ w_acked w = w_mem w.

Lemma step_fresh_mono : forall w o, w_fresh (step_op w o) = true -> w_fresh w = true.
Proof.
  intros w o H. unfold step_op in H. destruct (w_frozen w); [exact H|].
  destruct o; cbn [w_fresh] in H; try exact H;
  match type of H with
  | context [op_effect ?m ?o] => destruct (op_effect m o) as [[m' ws]|]; cbn [w_fresh] in H; try exact H;
      destruct (do_writes (w_store w) ws (w_budget w)) as [[[s' b'] fr] n]; cbn [w_fresh] in H;
      apply andb_true_iff in H; destruct H as [H _]; exact H
  end.
Qed.

Lemma step_good : forall w o, Good w -> w_fresh (step_op w o) = true -> Good (step_op w o).
Proof.
  intros w o HG Hfr. unfold step_op in *. unfold Good in HG. destruct (w_frozen w) eqn:Efz.
  - unfold Good. rewrite Efz. exact HG.
  - destruct HG as [HI Hack].
    assert (forall (fr_ok : bool),
      (fr_ok = true -> fresh_for (w_store w) (w_mem w) o) ->
      w_fresh (match op_effect (w_mem w) o with
               | None => mkW (w_store w) (w_mem w) (w_acked w) (w_budget w) false (w_trace w ++ [(false, O, false)]) (w_fresh w)
               | Some (m', ws) =>
                   let '(s', b', fr, n) := do_writes (w_store w) ws (w_budget w) in
                   mkW s' m' (if fr then w_acked w else m') b' fr (w_trace w ++ [(true, n, fr)]) (w_fresh w && fr_ok)
               end) = true ->
      Good (match op_effect (w_mem w) o with
            | None => mkW (w_store w) (w_mem w) (w_acked w) (w_budget w) false (w_trace w ++ [(false, O, false)]) (w_fresh w)
            | Some (m', ws) =>
                let '(s', b', fr, n) := do_writes (w_store w) ws (w_budget w) in
                mkW s' m' (if fr then w_acked w else m') b' fr (w_trace w ++ [(true, n, fr)]) (w_fresh w && fr_ok)
            end)) as Hgen.
    { intros fr_ok Hok Hf. destruct (op_effect (w_mem w) o) as [[m' ws]|] eqn:Ee.
      - assert (fr_ok = true) as Eok.
        { destruct (do_writes (w_store w) ws (w_budget w)) as [[[s' b'] fr] n]. cbn [w_fresh] in Hf.
          apply andb_true_iff in Hf. destruct Hf as [_ Hf]. exact Hf. }
        destruct (effect_writes _ _ _ _ _ HI (Hok Eok) Ee) as [w1 [w2 [Ews [H1 H2]]]]. subst ws.
        rewrite do_writes_two. destruct (w_budget w) as [[|[|n]]|]; unfold Good; cbn [w_frozen w_store w_acked w_mem].
        + left. rewrite Hack. apply recover_perm. exact HI.
        + destruct H1 as [H1|H1]; [left; rewrite Hack|right]; apply recover_perm; exact H1.
        + split; [exact H2|reflexivity].
        + split; [exact H2|reflexivity].
      - unfold Good. cbn [w_frozen w_store w_acked w_mem]. split; [exact HI|exact Hack]. }
    destruct o as [id name key|id|tid pid name src|tid pid|tid pid src|].
    + apply (Hgen (fresh_id (w_store w) (w_mem w) id)); [intro E; exact E|exact Hfr].
    + apply (Hgen true); [intros _; exact I|exact Hfr].
    + apply (Hgen true); [intros _; exact I|exact Hfr].
    + apply (Hgen true); [intros _; exact I|exact Hfr].
    + apply (Hgen true); [intros _; exact I|exact Hfr].
    + unfold Good. cbn [w_frozen w_store w_acked w_mem]. split; [|reflexivity]. eapply inv_recover. exact HI.
Qed.

Lemma run_snoc : forall ops o b, run_ops (ops ++ [o]) b = step_op (run_ops ops b) o.
Proof. intros. unfold run_ops. rewrite fold_left_app. reflexivity. Qed.

Lemma run_good : forall ops b, w_fresh (run_ops ops b) = true -> Good (run_ops ops b).
Proof.
  intros ops b. induction ops as [|o ops IH] using rev_ind; intro Hf.
  - unfold Good. cbn. split; [exact inv_empty|reflexivity].
  - rewrite run_snoc in *. apply step_good; [|exact Hf]. apply IH. eapply step_fresh_mono. exact Hf.
Qed.

(* the statement of C22 on the model *)
Lemma recover_acknowledged : forall ops b, w_fresh (run_ops ops b) = true ->
  let w := run_ops ops b in
  if w_frozen w
  then Permutation (recover (w_store w)) (w_acked w) \/ Permutation (recover (w_store w)) (w_mem w)
  else Permutation (recover (w_store w)) (w_acked w).
Proof.
  intros ops b Hf w. pose proof (run_good ops b Hf) as HG. unfold Good in HG. fold w in HG.
  destruct (w_frozen w); [exact HG|]. destruct HG as [HI E]. rewrite E. apply recover_perm. exact HI.
Qed.

Lemma restart_keeps_state : forall ops b, w_fresh (run_ops ops b) = true -> w_frozen (run_ops ops b) = false ->
  Permutation (w_mem (run_ops (ops ++ [ORestart]) b)) (w_mem (run_ops ops b)).
Proof.
  intros ops b Hf Hz. rewrite run_snoc. unfold step_op. rewrite Hz. cbn [w_mem].
  pose proof (run_good ops b Hf) as HG. unfold Good in HG. rewrite Hz in HG. destruct HG as [HI _].
  apply recover_perm. exact HI.
Qed.
