(* Store/TenantProps.v — the C22 property theorems (statements only; proofs in TenantProofs.v).

   Reading of the property text on the model (Store/Tenant.v):
   * a history is a list of operations (create/delete tenant, deploy/delete/reload pipeline, restart) run by
     run_ops with a write budget: [Some n] = the process dies when it attempts its (n+1)-th store write, the
     operation during which that happens is the in-flight one and nothing after it runs; [None] = no crash.
   * w_acked = the manager after the last operation that completed (what had been acknowledged),
     w_mem   = the manager including the in-flight operation; without a crash they coincide.
   * recover (w_store w) = what a restarted server's TenantManager::recover builds.
   * w_fresh = every create used an id that was neither in the manager nor in the store (uuid v4).
   Managers are compared as sets of tenant snapshots (Permutation): id, name, API key, and the pipelines
   with id, name, source and status. *)
From Coq Require Import Permutation.
From VP Require Import Base.Tactics Store.Tenant Store.TenantRun Store.TenantProofs.
Open Scope N_scope.

Theorem C22_recover : forall ops budget, w_fresh (run_ops ops budget) = true ->
  let w := run_ops ops budget in
  if w_frozen w
  then Permutation (recover (w_store w)) (w_acked w) \/ Permutation (recover (w_store w)) (w_mem w)
  else Permutation (recover (w_store w)) (w_acked w).
Proof. exact recover_acknowledged. Qed.

Theorem C22_restart_keeps_state : forall ops budget,
  w_fresh (run_ops ops budget) = true -> w_frozen (run_ops ops budget) = false ->
  Permutation (w_mem (run_ops (ops ++ [ORestart]) budget)) (w_mem (run_ops ops budget)).
Proof. exact restart_keeps_state. Qed.

Example C22_hypotheses_satisfiable :
  let ops := [OCreate 1 1 1; ODeploy 1 1 1 0; OCreate 2 2 2; OReload 1 1 1; ORestart; ODeploy 2 2 2 2; ODelPipe 1 1; ODelTenant 2] in
  (* crash inside the reload (its snapshot written, its index write lost): the reload is visible *)
  let w := run_ops ops (Some 7%nat) in
  w_fresh w = true /\ w_frozen w = true /\ w_acked w <> w_mem w /\
  recover (w_store w) = [mkT 1 1 1 [mkP 1 1 1 0]; mkT 2 2 2 []] /\
  (* crash inside the final delete-tenant (snapshot deleted, index still lists it): the tenant is gone *)
  let w' := run_ops ops (Some 13%nat) in
  w_fresh w' = true /\ w_frozen w' = true /\ recover (w_store w') = [mkT 1 1 1 []] /\
  (* a second create with a used id is what the hypothesis excludes *)
  w_fresh (run_ops [OCreate 1 1 1; ODelTenant 1; OCreate 1 2 2] None) = true /\
  w_fresh (run_ops [OCreate 1 1 1; OCreate 1 2 2] None) = false.
Proof. vm_compute. repeat split; try discriminate. Qed.
