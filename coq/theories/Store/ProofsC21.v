(* Store/ProofsC21.v — corollaries of the manager invariant in the shape of the C21 statements,
   and the proof that the evaluation codec of Run.v satisfies the codec contract. *)
From Coq Require Import Sorting.Sorted.
From VP Require Import Base.Tactics Store.Model Store.Run Store.ProofsFs Store.ProofsMgr.
Open Scope N_scope.

Definition codec_roundtrip (encode : ckpt -> bytes) (decode : bytes -> option ckpt) : Prop :=
  forall c, decode (encode c) = Some c.
Definition codec_prefix_free (encode : ckpt -> bytes) (decode : bytes -> option ckpt) : Prop :=
  forall c k, (k < length (encode c))%nat -> decode (firstn k (encode c)) = None.

Lemma toy_roundtrip : codec_roundtrip toy_encode toy_decode.
Proof. intros [i d]. reflexivity. Qed.

Lemma toy_prefix_free : codec_prefix_free toy_encode toy_decode.
Proof.
  intros [i d] k Hk. cbn [toy_encode length cid cdata] in *.
  destruct k as [|[|[|[|k]]]]; try reflexivity; lia.
Qed.

Section C21.
  Variable encode : ckpt -> bytes.
  Variable decode : bytes -> option ckpt.
  Hypothesis Hrt : codec_roundtrip encode decode.

  Lemma recover_newest_complete : forall max evs, (1 <= max)%nat -> Forall ev_clean evs ->
    recover decode (sfs (run encode max evs)) = Ok (hd_error (sdone (run encode max evs))).
  Proof.
    intros max evs Hm Hc. apply (recover_clean encode decode Hrt).
    - apply run_inv; [exact Hrt|exact Hm|]. apply clean_ok, Hc.
    - apply run_clean, Hc.
  Qed.

  Lemma recover_newest_readable : forall max evs, (1 <= max)%nat -> Forall (ev_ok decode) evs ->
    let s := run encode max evs in
    exists r, recover decode (sfs s) = Ok r /\
      (forall c, r = Some c ->
         In c (sdone s) /\ fs_get (sfs s) (FCk (cid c)) = Some (encode c) /\
         (forall id b, cid c < id -> fs_get (sfs s) (FCk id) = Some b -> decode b = None)) /\
      (r = None -> forall id b, fs_get (sfs s) (FCk id) = Some b -> decode b = None).
  Proof.
    intros max evs Hm Hok s. apply (recover_general encode decode Hrt).
    apply run_inv; assumption.
  Qed.

  Lemma acknowledged_recovered : forall max evs d n, (1 <= max)%nat -> Forall ev_clean evs ->
    smgr (run encode max evs) = Some n ->
    recover decode (sfs (run encode max (evs ++ [ESave d]))) = Ok (Some (mkCk n d)).
  Proof.
    intros max evs d n Hm Hc Hmgr.
    rewrite recover_newest_complete; [|exact Hm|].
    - rewrite run_snoc. cbn [step]. rewrite Hmgr. reflexivity.
    - apply Forall_app. split; [exact Hc|]. constructor; [exact I|constructor].
  Qed.

  Lemma ids_increase : forall max evs, (1 <= max)%nat -> Forall (ev_ok decode) evs ->
    ids_desc (sdone (run encode max evs)).
  Proof. intros max evs Hm Hok. eapply i_desc. apply run_inv; eassumption. Qed.

  Lemma bound_all_states : forall max evs,
    (length (list_ckpts (sfs (run encode max evs))) <= max + spend (run encode max evs))%nat.
  Proof. intros. apply run_wf_bound. Qed.

  Lemma bound_after_completed : forall max evs d, smgr (run encode max evs) <> None ->
    (length (list_ckpts (sfs (run encode max (evs ++ [ESave d])))) <= max)%nat.
  Proof.
    intros max evs d Hmgr. pose proof (bound_all_states max (evs ++ [ESave d])) as Hb.
    rewrite run_snoc in *. cbn [step] in *. destruct (smgr (run encode max evs)); [|congruence].
    cbn [spend] in Hb. lia.
  Qed.

  (* the newest file made unreadable, an older complete one still stored: recovery returns the older one *)
  Lemma older_recovered : forall max evs b c1 c2 D, (1 <= max)%nat -> Forall ev_clean evs ->
    decode b = None ->
    sdone (run encode max evs) = c1 :: c2 :: D ->
    fs_get (sfs (run encode max evs)) (FCk (cid c2)) <> None ->
    recover decode (sfs (run encode max (evs ++ [ECorrupt b]))) = Ok (Some c2).
  Proof.
    intros max evs b c1 c2 D Hm Hc Hb ED Hc2.
    set (s := run encode max evs) in *.
    assert (Inv encode decode s) as HI by (apply run_inv; [exact Hrt|exact Hm|apply clean_ok, Hc]).
    assert (Clean encode s) as HC by (apply run_clean, Hc).
    pose proof (i_desc _ _ _ HI) as Hd. rewrite ED in Hd.
    inversion Hd as [|? ? Hd2 Hf1]; subst. rewrite Forall_forall in Hf1.
    assert (cid c2 < cid c1) as H21 by (apply Hf1; left; reflexivity).
    (* the newest listed id is c1's *)
    pose proof (i_head _ _ _ HI c1 (c2 :: D) ED) as Hh1.
    destruct (rev (list_ckpts (sfs s))) as [|id l] eqn:EL.
    { exfalso. apply Hh1. eapply desc_nil. exact EL. }
    destruct (desc_head_max (sfs s) id l (i_wf _ _ _ HI) EL) as [Hex Hmax].
    assert (id = cid c1) as Eid.
    { pose proof (Hmax _ Hh1) as Hle.
      destruct (fs_get (sfs s) (FCk id)) as [b0|] eqn:G0; [|congruence].
      destruct (HC _ _ G0) as [d0 [Hin0 _]].
      assert (cid (mkCk id d0) <= cid c1) as Hge.
      { eapply (desc_head_ge encode decode Hrt); [exact (i_desc _ _ _ HI)|exact ED|exact Hin0]. }
      cbn [cid] in Hge. lia. }
    subst id.
    (* c2's file is its complete serialisation *)
    destruct (fs_get (sfs s) (FCk (cid c2))) as [b2|] eqn:G2; [|congruence].
    destruct (HC _ _ G2) as [d2 [Hin2 Hb2]].
    assert (mkCk (cid c2) d2 = c2) as E2.
    { destruct c2 as [i2 x2]. cbn [cid] in *. f_equal.
      eapply in_done_unique; [exact (i_desc _ _ _ HI)|exact Hin2|rewrite ED; right; left; reflexivity]. }
    rewrite E2 in Hb2. subst b2.
    (* the state after the fault *)
    assert (run encode max (evs ++ [ECorrupt b]) =
            mkSt (fs_write (sfs s) (FCk (cid c1)) b) (smgr s) (sdone s) (spend s)) as Es'.
    { rewrite run_snoc. fold s. cbn [step]. rewrite EL. reflexivity. }
    assert (Inv encode decode (run encode max (evs ++ [ECorrupt b]))) as HI'.
    { rewrite run_snoc. apply step_inv; [exact Hrt|exact Hm|exact Hb|exact HI]. }
    destruct (recover_general encode decode Hrt _ HI') as [r [Hr [Hsome Hnone]]].
    rewrite Hr. f_equal. rewrite Es' in Hsome, Hnone. cbn [sfs sdone] in Hsome, Hnone.
    assert (fs_get (fs_write (sfs s) (FCk (cid c1)) b) (FCk (cid c2)) = Some (encode c2)) as G2'.
    { rewrite fs_get_write. cbn [fname_eqb]. destruct (N.eqb (cid c1) (cid c2)) eqn:E; [|exact G2].
      apply N.eqb_eq in E. lia. }
    destruct r as [c|].
    - destruct (Hsome c eq_refl) as [Hin [G Hab]]. f_equal.
      assert (~ cid c < cid c2) as Hnlt.
      { intro Hlt. specialize (Hab _ _ Hlt G2'). rewrite Hrt in Hab. discriminate. }
      rewrite ED in Hin. destruct Hin as [E|[E|Hin]].
      + subst c. rewrite fs_get_write, fname_eqb_refl in G. inversion G as [Eb]. rewrite Eb, Hrt in Hb. discriminate.
      + symmetry. exact E.
      + exfalso. inversion Hd2 as [|? ? _ Hf2]; subst. rewrite Forall_forall in Hf2.
        specialize (Hf2 c Hin). lia.
    - specialize (Hnone eq_refl _ _ G2'). rewrite Hrt in Hnone. discriminate.
  Qed.

  Hypothesis Hpf : codec_prefix_free encode decode.

  Lemma readable_files_complete : forall max evs p b c, Forall (ev_ok decode) evs ->
    fs_get (sfs (run encode max evs)) p = Some b -> decode b = Some c -> b = encode c.
  Proof.
    intros max evs p b c Hok G Dc.
    destruct (run_whole encode decode Hrt Hpf max evs Hok p b G) as [[c' E]|E]; [|congruence].
    subst b. rewrite Hrt in Dc. inversion Dc. reflexivity.
  Qed.
End C21.
