(* Store/TenantRun.v — rendering of the C22 model observables (same format as checks/store_common.py impl_str22). *)
From Coq Require Import String List NArith Bool.
From VP Require Import Base.Render Store.Tenant.
Import ListNotations.
Open Scope string_scope.

Fixpoint ins_by {A} (key : A -> N) (x : A) (l : list A) : list A :=
  match l with
  | [] => [x]
  | y :: r => if N.leb (key x) (key y) then x :: l else y :: ins_by key x r
  end.
Definition sort_by {A} (key : A -> N) (l : list A) : list A := fold_right (ins_by key) [] l.

Definition r_pipe (p : psnap) : string :=
  "p" ++ str_of_N (p_id p) ++ ":" ++ str_of_N (p_name p) ++ ":s" ++ str_of_N (p_src p) ++ ":" ++ str_of_N (p_status p).
Definition r_tenant (t : tsnap) : string :=
  "t" ++ str_of_N (t_id t) ++ "(" ++ str_of_N (t_name t) ++ "," ++ str_of_N (t_key t) ++ ",[" ++
  join "," (map r_pipe (sort_by p_id (t_pipes t))) ++ "])".
Definition r_mgr (m : mgr) : string := join ";" (map r_tenant (sort_by t_id m)).

Definition r_index (s : kvs) : string :=
  match kv_get s KIndex with
  | Some (VIndex ids) => "[" ++ join "," (map (fun i => "t" ++ str_of_N i) ids) ++ "]"
  | _ => "none"
  end.

Fixpoint snaps_of (s : kvs) : list tsnap :=
  match s with
  | [] => []
  | (KTenant _, VSnap t) :: r => t :: snaps_of r
  | _ :: r => snaps_of r
  end.

Definition r_step (x : bool * nat * bool) : string :=
  let '(acc, n, fr) := x in (if acc then "a" else "r") ++ str_of_nat n ++ (if fr then "F" else "").

Definition c22_case (ops : list op) (budget : option nat) : string :=
  let w := run_ops ops budget in
  "steps=" ++ join "," (map r_step (w_trace w)) ++
  "|index=" ++ r_index (w_store w) ++
  "|snaps=" ++ r_mgr (snaps_of (w_store w)) ++
  "|rec=" ++ r_mgr (recover (w_store w)).
