(* Store/ProofsKeep.v — with max_checkpoints >= 2 the previous completely written checkpoint is always still
   stored, so an unreadable newest file always leaves an older readable one to recover (C21). *)
From Coq Require Import Sorting.Sorted.
From VP Require Import Base.Tactics Store.Model Store.ProofsFs Store.ProofsMgr Store.ProofsC21.
Open Scope N_scope.

Section Keep.
  Variable encode : ckpt -> bytes.
  Variable decode : bytes -> option ckpt.
  Hypothesis Hrt : codec_roundtrip encode decode.

  Definition Keep2 (s : st) : Prop :=
    forall c1 c2 D, sdone s = c1 :: c2 :: D -> fs_get (sfs s) (FCk (cid c2)) <> None.

  (* prune with max >= 2 removes neither the id just written nor the largest id stored before it *)
  Lemma pruned_not_second : forall f n d max j x, wf f -> (2 <= max)%nat ->
    (forall y, fs_get f (FCk y) <> None -> y < n) ->
    fs_get f (FCk x) <> None -> (forall y, fs_get f (FCk y) <> None -> y <= x) ->
    ~ In x (firstn j (pruned encode f n d max)).
  Proof.
    intros f n d max j x Hw Hm Hlt Hx Hmax Hin.
    apply in_firstn in Hin. unfold pruned in Hin.
    set (f2 := after_put f n (encode (mkCk n d))) in *.
    assert (wf f2) as Hw2 by (apply wf_after_put, Hw).
    apply firstn_below_two in Hin; [|apply list_sorted|apply NoDup_list_ckpts, Hw2|exact Hm].
    destruct Hin as [y [z [Hy [Hz [Hyz [Hxy Hxz]]]]]].
    apply in_list_ckpts in Hy. apply in_list_ckpts in Hz. unfold f2 in Hy, Hz.
    rewrite get_after_put_ck in Hy, Hz.
    destruct (N.eqb n y) eqn:Ey; destruct (N.eqb n z) eqn:Ez.
    - apply N.eqb_eq in Ey. apply N.eqb_eq in Ez. congruence.
    - apply Hmax in Hz. lia.
    - apply Hmax in Hy. lia.
    - apply Hmax in Hy. lia.
  Qed.

  Lemma keep2_after_put_prunes : forall max s n d j mgr' pend, (2 <= max)%nat ->
    Inv encode decode s -> smgr s = Some n ->
    Keep2 (mkSt (apply_ops (after_put (sfs s) n (encode (mkCk n d))) (removes (firstn j (pruned encode (sfs s) n d max))))
                mgr' (mkCk n d :: sdone s) pend).
  Proof.
    intros max s n d j mgr' pend Hmax HI Hm c1 c2 D E. cbn [sdone sfs] in *. inversion E; subst. clear E.
    pose proof (files_below_mgr encode decode s n HI Hm) as Hlt.
    pose proof (i_head encode decode s HI c2 D H1) as Hh.
    rewrite get_removes_ck. destruct (in_dec N.eq_dec (cid c2) _) as [Hin|_].
    - exfalso. eapply (pruned_not_second (sfs s) n d max j (cid c2)); try eassumption.
      + exact (i_wf encode decode s HI).
      + intros y Hy. destruct (fs_get (sfs s) (FCk y)) as [b|] eqn:G; [|congruence].
        destruct (i_files encode decode s HI y b G) as [d0 [Hd0 _]].
        pose proof (desc_head_ge encode decode Hrt (sdone s) c2 D (mkCk y d0) (i_desc encode decode s HI) H1 Hd0) as Hle.
        cbn [cid] in Hle. exact Hle.
    - rewrite get_after_put_ck. destruct (N.eqb n (cid c2)); [discriminate|exact Hh].
  Qed.

  Lemma keep2_same_view : forall s f' mgr' pend, Keep2 s ->
    (forall id, fs_get f' (FCk id) = fs_get (sfs s) (FCk id)) -> Keep2 (mkSt f' mgr' (sdone s) pend).
  Proof. intros s f' mgr' pend HK Hv c1 c2 D E. cbn [sdone sfs] in *. rewrite Hv. eapply HK. exact E. Qed.

  Lemma step_keep2 : forall max s e, (2 <= max)%nat -> ev_clean e -> Inv encode decode s -> Keep2 s ->
    Keep2 (step encode max s e).
  Proof.
    intros max s e Hmax Hc HI HK. destruct e as [|d|d k torn|b]; cbn [step]; [| | |contradiction].
    - apply (keep2_same_view s (sfs s)); [exact HK|reflexivity].
    - destruct (smgr s) as [n|] eqn:Em; [|exact HK].
      rewrite apply_checkpoint_ops. rewrite <- (firstn_all (pruned encode (sfs s) n d max)).
      apply keep2_after_put_prunes; assumption.
    - destruct (smgr s) as [n|] eqn:Em; [|exact HK].
      destruct (Nat.leb (length (checkpoint_ops encode (sfs s) n d max)) k).
      + rewrite apply_checkpoint_ops. rewrite <- (firstn_all (pruned encode (sfs s) n d max)).
        apply keep2_after_put_prunes; assumption.
      + destruct (Nat.leb 2 k) eqn:E2.
        * apply Nat.leb_le in E2. rewrite exec_crash_late by exact E2.
          apply keep2_after_put_prunes; assumption.
        * apply Nat.leb_gt in E2.
          assert (k = 0 \/ k = 1)%nat as [Hk|Hk] by lia; subst k.
          -- rewrite exec_crash_0. destruct torn as [t|].
             ++ apply keep2_same_view; [exact HK|]. intro id. apply get_write_tmp_ck.
             ++ apply keep2_same_view; [exact HK|reflexivity].
          -- rewrite exec_crash_1. apply keep2_same_view; [exact HK|]. intro id. apply get_write_tmp_ck.
  Qed.

  Lemma run_keep2 : forall max evs, (2 <= max)%nat -> Forall ev_clean evs -> Keep2 (run encode max evs).
  Proof.
    intros max evs Hmax. induction evs as [|e evs IH] using rev_ind; intro Hf.
    - intros c1 c2 D E. discriminate.
    - rewrite run_snoc. apply Forall_app in Hf. destruct Hf as [Hf He]. inversion He; subst.
      apply step_keep2; [exact Hmax|assumption| |apply IH; exact Hf].
      apply run_inv; [exact Hrt|lia|apply clean_ok, Hf].
  Qed.

  Lemma older_always_recovered : forall max evs b c1 c2 D, (2 <= max)%nat -> Forall ev_clean evs ->
    decode b = None -> sdone (run encode max evs) = c1 :: c2 :: D ->
    recover decode (sfs (run encode max (evs ++ [ECorrupt b]))) = Ok (Some c2).
  Proof.
    intros max evs b c1 c2 D Hmax Hc Hb ED.
    eapply (older_recovered encode decode Hrt); [lia|exact Hc|exact Hb|exact ED|].
    eapply run_keep2; [exact Hmax|exact Hc|exact ED].
  Qed.
End Keep.
