(* Store/Model.v — executable model of the checkpoint file store and its manager
   (crates/varpulis-runtime/src/persistence.rs). Definitions only.

   Rust                                        model
   ------------------------------------------  -----------------------------------------
   the directory <dir>/checkpoint/              fs  = assoc list  file name -> bytes
   std::fs::write / rename / remove_file        fs_write / fs_rename / fs_remove  (fsop, apply_op)
   FileStore::put (temp file + rename)          put_ops
   FileStore::delete                            Remove
   FileStore::list_checkpoints (read_dir+sort)  list_ckpts
   FileStore::prune_checkpoints                 prune_ops
   FileStore::save_checkpoint                   put_ops id (encode c)
   FileStore::load_checkpoint                   load_ckpt
   load_newest_readable / load_latest_checkpoint  load_latest
   CheckpointManager::new                       mgr_new
   CheckpointManager::checkpoint                checkpoint_ops (save; prune)
   CheckpointManager::recover                   recover
   codec::serialize / codec::deserialize        Section variables encode / decode (contract in Proofs.v)

   A process crash stops a checkpoint() call between two file-system mutations, or inside the
   temp-file write (any proper prefix of the bytes may be on disk): exec_crash.
   The serialised form of a checkpoint is abstract: the model is parametric in encode/decode;
   Run.v instantiates it with a small concrete codec for evaluation. *)
From Coq Require Import List NArith Bool Sorting.Mergesort Orders.
Import ListNotations.
Open Scope N_scope.

Definition bytes := list N.

(* what a checkpoint carries as far as the store is concerned: its id and an opaque payload *)
Record ckpt := mkCk { cid : N; cdata : N }.

Inductive fname := FCk (id : N) | FTmp (id : N).   (* "<id>" and "<id>.tmp" *)

Definition fname_eqb (a b : fname) : bool :=
  match a, b with
  | FCk x, FCk y => N.eqb x y
  | FTmp x, FTmp y => N.eqb x y
  | _, _ => false
  end.

Definition fs := list (fname * bytes).

Fixpoint fs_get (f : fs) (p : fname) : option bytes :=
  match f with
  | [] => None
  | (q, b) :: r => if fname_eqb q p then Some b else fs_get r p
  end.

Fixpoint fs_remove (f : fs) (p : fname) : fs :=
  match f with
  | [] => []
  | (q, b) :: r => if fname_eqb q p then fs_remove r p else (q, b) :: fs_remove r p
  end.

Definition fs_write (f : fs) (p : fname) (b : bytes) : fs := (p, b) :: fs_remove f p.

(* rename(2): atomically replaces the target *)
Definition fs_rename (f : fs) (p q : fname) : fs :=
  match fs_get f p with
  | Some b => (q, b) :: fs_remove (fs_remove f p) q
  | None => f
  end.

Inductive fsop := Write (p : fname) (b : bytes) | Rename (p q : fname) | Remove (p : fname).

Definition apply_op (f : fs) (o : fsop) : fs :=
  match o with
  | Write p b => fs_write f p b
  | Rename p q => fs_rename f p q
  | Remove p => fs_remove f p
  end.

Definition apply_ops (f : fs) (ops : list fsop) : fs := fold_left apply_op ops f.

(* ---- sorting of ids (list_checkpoints sorts what read_dir returns) ---- *)
Module NOrder <: TotalLeBool.
  Definition t := N.
  Definition leb := N.leb.
  Lemma leb_total : forall a b, leb a b = true \/ leb b a = true.
  Proof.
    intros a b. unfold leb. destruct (N.leb a b) eqn:E; [now left|right].
    apply N.leb_le. apply N.leb_gt in E. apply N.lt_le_incl. exact E.
  Qed.
End NOrder.
Module NSort := Sort NOrder.

Fixpoint ck_ids (f : fs) : list N :=
  match f with
  | [] => []
  | (FCk id, _) :: r => id :: ck_ids r
  | (FTmp _, _) :: r => ck_ids r
  end.

(* FileStore::list_checkpoints: names that parse as u64, sorted ascending *)
Definition list_ckpts (f : fs) : list N := NSort.sort (ck_ids f).

(* FileStore::put: write the temp file, then rename it over the final name *)
Definition put_ops (id : N) (b : bytes) : list fsop :=
  [Write (FTmp id) b; Rename (FTmp id) (FCk id)].

(* FileStore::prune_checkpoints: delete the oldest len - keep listed checkpoints *)
Definition prune_ops (f : fs) (keep : nat) : list fsop :=
  let ids := list_ckpts f in
  map (fun id => Remove (FCk id)) (firstn (length ids - keep) ids).

Inductive res (A : Type) := Ok (a : A) | Err.
Arguments Ok {A} a.
Arguments Err {A}.

Section Codec.
  Variable encode : ckpt -> bytes.
  Variable decode : bytes -> option ckpt.

  (* FileStore::load_checkpoint: Ok(None) if the file is absent, Err if it does not deserialize *)
  Definition load_ckpt (f : fs) (id : N) : res (option ckpt) :=
    match fs_get f (FCk id) with
    | None => Ok None
    | Some b => match decode b with Some c => Ok (Some c) | None => Err end
    end.

  (* load_newest_readable: walk the ids downwards, skip what is absent or unreadable *)
  Fixpoint first_readable (f : fs) (ids_desc : list N) : option ckpt :=
    match ids_desc with
    | [] => None
    | id :: r =>
        match load_ckpt f id with
        | Ok (Some c) => Some c
        | _ => first_readable f r
        end
    end.

  Definition load_latest (f : fs) : res (option ckpt) :=
    Ok (first_readable f (rev (list_ckpts f))).

  (* CheckpointManager::recover *)
  Definition recover (f : fs) : res (option ckpt) := load_latest f.

  (* CheckpointManager::new: the next id continues after the highest stored id *)
  Definition mgr_new (f : fs) : N :=
    match rev (list_ckpts f) with
    | [] => 1
    | id :: _ => id + 1
    end.

  (* CheckpointManager::checkpoint with next id n and payload d: save, then prune *)
  Definition checkpoint_ops (f : fs) (n d : N) (max : nat) : list fsop :=
    let ops1 := put_ops n (encode (mkCk n d)) in
    ops1 ++ prune_ops (apply_ops f ops1) max.

  (* a crash after k completed mutations; [torn = Some t]: if the next mutation is a write,
     the first min(t, len-1) bytes reach the file before the process dies *)
  Definition torn_bytes (b : bytes) (t : nat) : bytes := firstn (Nat.min t (length b - 1)) b.

  Definition exec_crash (f : fs) (ops : list fsop) (k : nat) (torn : option nat) : fs :=
    let f1 := apply_ops f (firstn k ops) in
    match torn, nth_error ops k with
    | Some t, Some (Write p b) => fs_write f1 p (torn_bytes b t)
    | _, _ => f1
    end.

  (* ---- histories ---- *)
  Inductive ev :=
  | ENew                                             (* (re)start: CheckpointManager::new *)
  | ESave (d : N)                                    (* checkpoint() runs to completion *)
  | ECrash (d : N) (k : nat) (torn : option nat)     (* checkpoint() with a crash armed after k mutations *)
  | ECorrupt (b : bytes).                            (* fault: the newest checkpoint file now holds b *)

  Record st := mkSt {
    sfs : fs;
    smgr : option N;          (* next_checkpoint_id of the live manager, None = no process *)
    sdone : list ckpt;        (* ghost: checkpoints whose rename completed, newest first *)
    spend : nat               (* ghost: crashed saves since the last completed one *)
  }.

  Definition st0 : st := mkSt [] None [] 0.

  Definition step (max : nat) (s : st) (e : ev) : st :=
    match e with
    | ENew => mkSt (sfs s) (Some (mgr_new (sfs s))) (sdone s) (spend s)
    | ESave d =>
        match smgr s with
        | None => s
        | Some n =>
            mkSt (apply_ops (sfs s) (checkpoint_ops (sfs s) n d max)) (Some (n + 1))
                 (mkCk n d :: sdone s) 0
        end
    | ECrash d k torn =>
        match smgr s with
        | None => s
        | Some n =>
            let ops := checkpoint_ops (sfs s) n d max in
            if Nat.leb (length ops) k
            then mkSt (apply_ops (sfs s) ops) (Some (n + 1)) (mkCk n d :: sdone s) 0
            else mkSt (exec_crash (sfs s) ops k torn) None
                      (if Nat.leb 2 k then mkCk n d :: sdone s else sdone s) (S (spend s))
        end
    | ECorrupt b =>
        match rev (list_ckpts (sfs s)) with
        | [] => s
        | id :: _ => mkSt (fs_write (sfs s) (FCk id) b) (smgr s) (sdone s) (spend s)
        end
    end.

  Definition run (max : nat) (evs : list ev) : st := fold_left (step max) evs st0.
End Codec.
