(* Store/ProofsMgr.v — invariant of the checkpoint manager over all histories (C21). *)
From Coq Require Import Sorting.Sorted Permutation.
From VP Require Import Base.Tactics Store.Model Store.ProofsFs.
Open Scope N_scope.

Lemma apply_ops_app : forall f a b, apply_ops f (a ++ b) = apply_ops (apply_ops f a) b.
Proof. intros. unfold apply_ops. apply fold_left_app. Qed.

Lemma in_firstn : forall {A} (l : list A) j x, In x (firstn j l) -> In x l.
Proof.
  intros A l. induction l as [|a l IH]; intros [|j] x H; cbn [firstn] in H; try contradiction.
  destruct H as [H|H]; [left; exact H|right; eapply IH; exact H].
Qed.

Definition removes (R : list N) : list fsop := map (fun id => Remove (FCk id)) R.

Lemma get_removes : forall R f p,
  fs_get (apply_ops f (removes R)) p =
    if existsb (fun id => fname_eqb (FCk id) p) R then None else fs_get f p.
Proof.
  induction R as [|x R IH]; intros f p; [reflexivity|].
  unfold removes, apply_ops in *. cbn [map fold_left apply_op existsb].
  rewrite IH, fs_get_remove.
  destruct (fname_eqb (FCk x) p); destruct (existsb (fun id => fname_eqb (FCk id) p) R); reflexivity.
Qed.

Lemma existsb_ck : forall R id, existsb (fun x => fname_eqb (FCk x) (FCk id)) R = true <-> In id R.
Proof.
  intros R id. rewrite existsb_exists. split.
  - intros [x [Hin E]]. cbn [fname_eqb] in E. apply N.eqb_eq in E. subst. exact Hin.
  - intro Hin. exists id. split; [exact Hin|]. cbn [fname_eqb]. apply N.eqb_refl.
Qed.

Lemma get_removes_ck : forall R f id,
  fs_get (apply_ops f (removes R)) (FCk id) = if in_dec N.eq_dec id R then None else fs_get f (FCk id).
Proof.
  intros R f id. rewrite get_removes. destruct (in_dec N.eq_dec id R) as [Hi|Hi].
  - apply existsb_ck in Hi. rewrite Hi. reflexivity.
  - destruct (existsb _ R) eqn:E; [|reflexivity]. apply existsb_ck in E. contradiction.
Qed.

Lemma get_removes_tmp : forall R f id, fs_get (apply_ops f (removes R)) (FTmp id) = fs_get f (FTmp id).
Proof.
  intros R f id. rewrite get_removes.
  destruct (existsb _ R) eqn:E; [|reflexivity].
  apply existsb_exists in E. destruct E as [x [_ E]]. cbn [fname_eqb] in E. discriminate.
Qed.

Lemma wf_removes : forall R f, wf f -> wf (apply_ops f (removes R)).
Proof. intros. apply wf_apply_ops. assumption. Qed.

Section Proofs.
  Variable encode : ckpt -> bytes.
  Variable decode : bytes -> option ckpt.
  Hypothesis dec_enc : forall c, decode (encode c) = Some c.

  (* ---------------- the two mutations of FileStore::put ---------------- *)
  Definition after_put (f : fs) (n : N) (e : bytes) : fs :=
    fs_rename (fs_write f (FTmp n) e) (FTmp n) (FCk n).

  Lemma put_ops_after : forall f n e, apply_ops f (put_ops n e) = after_put f n e.
  Proof. reflexivity. Qed.

  Lemma get_after_put_ck : forall f n e id,
    fs_get (after_put f n e) (FCk id) = if N.eqb n id then Some e else fs_get f (FCk id).
  Proof.
    intros f n e id. unfold after_put.
    rewrite (fs_get_rename _ _ _ e) by (rewrite fs_get_write, fname_eqb_refl; reflexivity).
    cbn [fname_eqb]. destruct (N.eqb n id); [reflexivity|]. rewrite fs_get_write. reflexivity.
  Qed.

  Lemma get_write_tmp_ck : forall f n b id, fs_get (fs_write f (FTmp n) b) (FCk id) = fs_get f (FCk id).
  Proof. intros. rewrite fs_get_write. reflexivity. Qed.

  Lemma wf_after_put : forall f n e, wf f -> wf (after_put f n e).
  Proof. intros. unfold after_put. apply wf_rename, wf_write. assumption. Qed.

  (* ---------------- shape of a checkpoint() call ---------------- *)
  Definition pruned (f : fs) (n : N) (d : N) (max : nat) : list N :=
    let f2 := after_put f n (encode (mkCk n d)) in
    firstn (length (list_ckpts f2) - max) (list_ckpts f2).

  Lemma checkpoint_ops_shape : forall f n d max,
    checkpoint_ops encode f n d max = put_ops n (encode (mkCk n d)) ++ removes (pruned f n d max).
  Proof. reflexivity. Qed.

  Lemma length_checkpoint_ops : forall f n d max,
    length (checkpoint_ops encode f n d max) = (2 + length (pruned f n d max))%nat.
  Proof. intros. rewrite checkpoint_ops_shape, app_length. unfold removes. rewrite map_length. reflexivity. Qed.

  Lemma firstn_removes : forall j R, firstn j (removes R) = removes (firstn j R).
  Proof. intros. unfold removes. apply firstn_map. Qed.

  (* the state left by a crash after k >= 2 mutations: put done, a prefix of the prunes done *)
  Lemma exec_crash_late : forall f n d max k torn, (2 <= k)%nat ->
    exec_crash f (checkpoint_ops encode f n d max) k torn =
    apply_ops (after_put f n (encode (mkCk n d))) (removes (firstn (k - 2) (pruned f n d max))).
  Proof.
    intros f n d max k torn Hk. unfold exec_crash. rewrite checkpoint_ops_shape.
    assert (firstn k (put_ops n (encode (mkCk n d)) ++ removes (pruned f n d max)) =
            put_ops n (encode (mkCk n d)) ++ removes (firstn (k - 2) (pruned f n d max))) as E.
    { rewrite firstn_app. cbn [put_ops length].
      rewrite firstn_all2 by (cbn [put_ops length]; lia). rewrite firstn_removes. reflexivity. }
    rewrite E, apply_ops_app, put_ops_after.
    destruct torn as [t|]; [|reflexivity].
    destruct (nth_error _ k) as [[p b|p q|p]|] eqn:En; try reflexivity.
    exfalso. rewrite nth_error_app2 in En by (cbn [put_ops length]; lia).
    apply nth_error_In in En. unfold removes in En. apply in_map_iff in En.
    destruct En as [x [Hx _]]. discriminate.
  Qed.

  Lemma exec_crash_0 : forall f n d max torn,
    exec_crash f (checkpoint_ops encode f n d max) 0 torn =
    match torn with
    | Some t => fs_write f (FTmp n) (torn_bytes (encode (mkCk n d)) t)
    | None => f
    end.
  Proof. intros. unfold exec_crash. rewrite checkpoint_ops_shape. destruct torn; reflexivity. Qed.

  Lemma exec_crash_1 : forall f n d max torn,
    exec_crash f (checkpoint_ops encode f n d max) 1 torn = fs_write f (FTmp n) (encode (mkCk n d)).
  Proof. intros. unfold exec_crash. rewrite checkpoint_ops_shape. destruct torn; reflexivity. Qed.

  Lemma apply_checkpoint_ops : forall f n d max,
    apply_ops f (checkpoint_ops encode f n d max) =
    apply_ops (after_put f n (encode (mkCk n d))) (removes (pruned f n d max)).
  Proof. intros. rewrite checkpoint_ops_shape, apply_ops_app, put_ops_after. reflexivity. Qed.

  (* prune never removes the id just written, provided it is the largest and max >= 1 *)
  Lemma pruned_not_newest : forall f n d max j, wf f -> (1 <= max)%nat ->
    (forall x, fs_get f (FCk x) <> None -> x < n) ->
    ~ In n (firstn j (pruned f n d max)).
  Proof.
    intros f n d max j Hw Hm Hlt Hin.
    assert (In n (pruned f n d max)) as Hin2.
    { clear - Hin. revert Hin. generalize (pruned f n d max). intro l. revert j.
      induction l as [|a l IH]; intros [|j] H; cbn [firstn] in H; try contradiction.
      destruct H as [H|H]; [left; exact H|right; eapply IH; exact H]. }
    unfold pruned in Hin2.
    set (f2 := after_put f n (encode (mkCk n d))) in *.
    assert (wf f2) as Hw2 by (apply wf_after_put, Hw).
    apply firstn_below_some in Hin2; [|apply list_sorted|apply NoDup_list_ckpts, Hw2|exact Hm].
    destruct Hin2 as [y [Hy Hny]]. apply in_list_ckpts in Hy. unfold f2 in Hy.
    rewrite get_after_put_ck in Hy. destruct (N.eqb n y) eqn:E.
    - apply N.eqb_eq in E. lia.
    - apply Hlt in Hy. lia.
  Qed.

  (* ---------------- the invariant ---------------- *)
  Definition ids_desc (D : list ckpt) : Prop := StronglySorted (fun a b => cid b < cid a) D.

  Definition ev_ok (e : ev) : Prop :=
    match e with ECorrupt b => decode b = None | _ => True end.
  Definition ev_clean (e : ev) : Prop :=
    match e with ECorrupt _ => False | _ => True end.

  Record Inv (s : st) : Prop := {
    i_wf : wf (sfs s);
    i_files : forall id b, fs_get (sfs s) (FCk id) = Some b ->
      exists d, In (mkCk id d) (sdone s) /\ (b = encode (mkCk id d) \/ decode b = None);
    i_desc : ids_desc (sdone s);
    i_head : forall c r, sdone s = c :: r -> fs_get (sfs s) (FCk (cid c)) <> None;
    i_mgr : forall n, smgr s = Some n -> forall c, In c (sdone s) -> cid c < n
  }.

  Definition Clean (s : st) : Prop :=
    forall id b, fs_get (sfs s) (FCk id) = Some b ->
      exists d, In (mkCk id d) (sdone s) /\ b = encode (mkCk id d).

  Lemma inv0 : Inv st0.
  Proof.
    constructor; cbn [st0 sfs sdone smgr].
    - constructor.
    - intros id b H. discriminate.
    - constructor.
    - intros c r H. discriminate.
    - intros n H. discriminate.
  Qed.

  Lemma clean0 : Clean st0.
  Proof. intros id b H. discriminate. Qed.

  Lemma files_below_mgr : forall s n, Inv s -> smgr s = Some n ->
    forall x, fs_get (sfs s) (FCk x) <> None -> x < n.
  Proof.
    intros s n HI Hm x Hx. destruct (fs_get (sfs s) (FCk x)) as [b|] eqn:G; [|congruence].
    destruct (i_files s HI x b G) as [d [Hin _]].
    exact (i_mgr s HI n Hm (mkCk x d) Hin).
  Qed.

  Lemma desc_head_ge : forall D c r x, ids_desc D -> D = c :: r -> In x D -> cid x <= cid c.
  Proof.
    intros D c r x Hd E Hin. subst D. destruct Hin as [Hin|Hin]; [subst; lia|].
    inversion Hd as [|? ? _ Hf]; subst. rewrite Forall_forall in Hf. specialize (Hf x Hin). lia.
  Qed.

  (* the invariant after the put and a prefix of the prunes (covers crashes after >= 2 mutations
     and the completed call) *)
  Lemma inv_after_put_prunes : forall max s n d j mgr' pend, (1 <= max)%nat -> Inv s -> smgr s = Some n ->
    (forall m, mgr' = Some m -> n < m) ->
    Inv (mkSt (apply_ops (after_put (sfs s) n (encode (mkCk n d))) (removes (firstn j (pruned (sfs s) n d max))))
              mgr' (mkCk n d :: sdone s) pend).
  Proof.
    intros max s n d j mgr' pend Hmax HI Hm Hmgr'.
    pose proof (files_below_mgr s n HI Hm) as Hlt.
    assert (forall id b,
      fs_get (apply_ops (after_put (sfs s) n (encode (mkCk n d))) (removes (firstn j (pruned (sfs s) n d max)))) (FCk id) = Some b ->
      (id = n /\ b = encode (mkCk n d)) \/ (id <> n /\ fs_get (sfs s) (FCk id) = Some b)) as Hview.
    { intros id b G. rewrite get_removes_ck in G. destruct (in_dec N.eq_dec id _); [discriminate|].
      rewrite get_after_put_ck in G. destruct (N.eqb n id) eqn:E.
      - apply N.eqb_eq in E. left. split; [congruence|congruence].
      - apply N.eqb_neq in E. right. split; [congruence|exact G]. }
    constructor; cbn [sfs sdone smgr].
    - apply wf_removes, wf_after_put, (i_wf s HI).
    - intros id b G. apply Hview in G. destruct G as [[E1 E2]|[E1 G]].
      + subst. exists d. split; [left; reflexivity|left; reflexivity].
      + destruct (i_files s HI id b G) as [d0 [Hin Hb]]. exists d0. split; [right; exact Hin|exact Hb].
    - constructor; [exact (i_desc s HI)|]. apply Forall_forall. intros c Hc. cbn [cid].
      exact (i_mgr s HI n Hm c Hc).
    - intros c r E. inversion E; subst. cbn [cid]. rewrite get_removes_ck.
      destruct (in_dec N.eq_dec n _) as [Hin|_].
      + exfalso. eapply pruned_not_newest; [exact (i_wf s HI)|exact Hmax|exact Hlt|exact Hin].
      + rewrite get_after_put_ck, N.eqb_refl. discriminate.
    - intros m Em c [Hc|Hc].
      + subst c. cbn [cid]. apply Hmgr'. exact Em.
      + pose proof (i_mgr s HI n Hm c Hc). specialize (Hmgr' m Em). lia.
  Qed.

  Lemma clean_after_put_prunes : forall max s n d j mgr' pend, Clean s ->
    Clean (mkSt (apply_ops (after_put (sfs s) n (encode (mkCk n d))) (removes (firstn j (pruned (sfs s) n d max))))
                mgr' (mkCk n d :: sdone s) pend).
  Proof.
    intros max s n d j mgr' pend HC id b G. cbn [sfs sdone] in *.
    rewrite get_removes_ck in G. destruct (in_dec N.eq_dec id _); [discriminate|].
    rewrite get_after_put_ck in G. destruct (N.eqb n id) eqn:E.
    - apply N.eqb_eq in E. subst id. exists d. split; [left; reflexivity|congruence].
    - destruct (HC id b G) as [d0 [Hin Hb]]. exists d0. split; [right; exact Hin|exact Hb].
  Qed.

  (* a state whose checkpoint files and ghost history are unchanged keeps the invariant *)
  Lemma inv_same_view : forall s f' mgr' pend, Inv s -> wf f' ->
    (forall id, fs_get f' (FCk id) = fs_get (sfs s) (FCk id)) ->
    (forall n, mgr' = Some n -> forall c, In c (sdone s) -> cid c < n) ->
    Inv (mkSt f' mgr' (sdone s) pend).
  Proof.
    intros s f' mgr' pend HI Hw Hv Hm. constructor; cbn [sfs sdone smgr].
    - exact Hw.
    - intros id b G. rewrite Hv in G. exact (i_files s HI id b G).
    - exact (i_desc s HI).
    - intros c r E. rewrite Hv. exact (i_head s HI c r E).
    - exact Hm.
  Qed.

  Lemma clean_same_view : forall s f' mgr' pend, Clean s ->
    (forall id, fs_get f' (FCk id) = fs_get (sfs s) (FCk id)) ->
    Clean (mkSt f' mgr' (sdone s) pend).
  Proof. intros s f' mgr' pend HC Hv id b G. cbn [sfs sdone] in *. rewrite Hv in G. exact (HC id b G). Qed.

  Lemma mgr_new_above : forall s, Inv s -> forall c, In c (sdone s) -> cid c < mgr_new (sfs s).
  Proof.
    intros s HI c Hc. unfold mgr_new.
    destruct (sdone s) as [|c0 r] eqn:ED; [contradiction|].
    pose proof (i_head s HI c0 r ED) as Hh.
    assert (cid c <= cid c0) as Hle.
    { eapply desc_head_ge; [exact (i_desc s HI)|exact ED|rewrite ED; exact Hc]. }
    destruct (rev (list_ckpts (sfs s))) as [|id l] eqn:EL.
    - exfalso. apply Hh. eapply desc_nil. exact EL.
    - destruct (desc_head_max (sfs s) id l (i_wf s HI) EL) as [_ Hmax].
      specialize (Hmax (cid c0) Hh). lia.
  Qed.

  Lemma step_inv : forall max s e, (1 <= max)%nat -> ev_ok e -> Inv s -> Inv (step encode max s e).
  Proof.
    intros max s e Hmax Hok HI. destruct e as [|d|d k torn|b]; cbn [step].
    - (* ENew *)
      apply (inv_same_view s (sfs s) _ (spend s) HI (i_wf s HI)); [reflexivity|].
      intros n E c Hc. inversion E; subst. apply mgr_new_above; assumption.
    - (* ESave *)
      destruct (smgr s) as [n|] eqn:Em; [|exact HI].
      rewrite apply_checkpoint_ops.
      rewrite <- (firstn_all (pruned (sfs s) n d max)).
      apply inv_after_put_prunes; try assumption. intros m E. inversion E. lia.
    - (* ECrash *)
      destruct (smgr s) as [n|] eqn:Em; [|exact HI].
      destruct (Nat.leb (length (checkpoint_ops encode (sfs s) n d max)) k) eqn:Ek.
      + rewrite apply_checkpoint_ops.
        rewrite <- (firstn_all (pruned (sfs s) n d max)).
        apply inv_after_put_prunes; try assumption. intros m E. inversion E. lia.
      + destruct (Nat.leb 2 k) eqn:E2.
        * apply Nat.leb_le in E2. rewrite exec_crash_late by exact E2.
          apply inv_after_put_prunes; try assumption. intros m E. discriminate.
        * apply Nat.leb_gt in E2.
          assert (k = 0 \/ k = 1)%nat as [Hk|Hk] by lia; subst k.
          -- rewrite exec_crash_0. destruct torn as [t|].
             ++ apply inv_same_view; [exact HI|apply wf_write, (i_wf s HI)| |discriminate].
                intro id. apply get_write_tmp_ck.
             ++ apply inv_same_view; [exact HI|exact (i_wf s HI)|reflexivity|discriminate].
          -- rewrite exec_crash_1.
             apply inv_same_view; [exact HI|apply wf_write, (i_wf s HI)| |discriminate].
             intro id. apply get_write_tmp_ck.
    - (* ECorrupt *)
      cbn [ev_ok] in Hok.
      destruct (rev (list_ckpts (sfs s))) as [|id l] eqn:EL; [exact HI|].
      destruct (desc_head_max (sfs s) id l (i_wf s HI) EL) as [Hex _].
      destruct (fs_get (sfs s) (FCk id)) as [b0|] eqn:G0; [|congruence].
      destruct (i_files s HI id b0 G0) as [d0 [Hin0 _]].
      constructor; cbn [sfs sdone smgr].
      + apply wf_write, (i_wf s HI).
      + intros id' b' G. rewrite fs_get_write in G. cbn [fname_eqb] in G.
        destruct (N.eqb id id') eqn:E.
        * apply N.eqb_eq in E. subst id'. inversion G; subst b'. exists d0. split; [exact Hin0|right; exact Hok].
        * exact (i_files s HI id' b' G).
      + exact (i_desc s HI).
      + intros c r E. rewrite fs_get_write. cbn [fname_eqb].
        destruct (N.eqb id (cid c)); [discriminate|]. exact (i_head s HI c r E).
      + exact (i_mgr s HI).
  Qed.

  Lemma step_clean : forall max s e, ev_clean e -> Clean s -> Clean (step encode max s e).
  Proof.
    intros max s e Hok HC. destruct e as [|d|d k torn|b]; cbn [step]; [| | |contradiction].
    - apply (clean_same_view s (sfs s)); [exact HC|reflexivity].
    - destruct (smgr s) as [n|]; [|exact HC].
      rewrite apply_checkpoint_ops. rewrite <- (firstn_all (pruned (sfs s) n d max)).
      apply clean_after_put_prunes, HC.
    - destruct (smgr s) as [n|]; [|exact HC].
      destruct (Nat.leb (length (checkpoint_ops encode (sfs s) n d max)) k).
      + rewrite apply_checkpoint_ops. rewrite <- (firstn_all (pruned (sfs s) n d max)).
        apply clean_after_put_prunes, HC.
      + destruct (Nat.leb 2 k) eqn:E2.
        * apply Nat.leb_le in E2. rewrite exec_crash_late by exact E2.
          apply clean_after_put_prunes, HC.
        * apply Nat.leb_gt in E2.
          assert (k = 0 \/ k = 1)%nat as [Hk|Hk] by lia; subst k.
          -- rewrite exec_crash_0. destruct torn as [t|].
             ++ apply clean_same_view; [exact HC|]. intro id. apply get_write_tmp_ck.
             ++ apply clean_same_view; [exact HC|reflexivity].
          -- rewrite exec_crash_1. apply clean_same_view; [exact HC|]. intro id. apply get_write_tmp_ck.
  Qed.

  Lemma run_snoc : forall max evs e, run encode max (evs ++ [e]) = step encode max (run encode max evs) e.
  Proof. intros. unfold run. rewrite fold_left_app. reflexivity. Qed.

  Lemma run_inv : forall max evs, (1 <= max)%nat -> Forall ev_ok evs -> Inv (run encode max evs).
  Proof.
    intros max evs Hmax. induction evs as [|e evs IH] using rev_ind; intro Hf; [exact inv0|].
    rewrite run_snoc. apply Forall_app in Hf. destruct Hf as [Hf He]. inversion He; subst.
    apply step_inv; auto.
  Qed.

  Lemma run_clean : forall max evs, Forall ev_clean evs -> Clean (run encode max evs).
  Proof.
    intros max evs. induction evs as [|e evs IH] using rev_ind; intro Hf; [exact clean0|].
    rewrite run_snoc. apply Forall_app in Hf. destruct Hf as [Hf He]. inversion He; subst.
    apply step_clean; auto.
  Qed.

  Lemma clean_ok : forall evs, Forall ev_clean evs -> Forall ev_ok evs.
  Proof. intros evs H. eapply Forall_impl; [|exact H]. intros [| | |]; cbn; tauto. Qed.

  (* ---------------- recovery ---------------- *)
  Lemma first_readable_spec : forall f L, StronglySorted (fun a b => b < a) L ->
    match first_readable decode f L with
    | Some c => exists id b, In id L /\ fs_get f (FCk id) = Some b /\ decode b = Some c /\
                  (forall id' b', In id' L -> id < id' -> fs_get f (FCk id') = Some b' -> decode b' = None)
    | None => forall id b, In id L -> fs_get f (FCk id) = Some b -> decode b = None
    end.
  Proof.
    intros f L. induction L as [|x L IH]; intro Hs; cbn [first_readable].
    - intros id b [].
    - inversion Hs as [|? ? Hs' Hf]; subst. rewrite Forall_forall in Hf.
      specialize (IH Hs'). unfold load_ckpt.
      destruct (fs_get f (FCk x)) as [bx|] eqn:Gx.
      + destruct (decode bx) as [cx|] eqn:Dx.
        * exists x, bx. split; [left; reflexivity|]. split; [exact Gx|]. split; [exact Dx|].
          intros id' b' [E|Hin] Hlt _; [subst; lia|]. specialize (Hf id' Hin). lia.
        * destruct (first_readable decode f L) as [c|].
          -- destruct IH as [id [b [Hin [G [D Hab]]]]]. exists id, b.
             split; [right; exact Hin|]. split; [exact G|]. split; [exact D|].
             intros id' b' [E|Hin'] Hlt G'; [subst id'; congruence|eapply Hab; eauto].
          -- intros id b [E|Hin] G; [subst id; congruence|eapply IH; eauto].
      + destruct (first_readable decode f L) as [c|].
        * destruct IH as [id [b [Hin [G [D Hab]]]]]. exists id, b.
          split; [right; exact Hin|]. split; [exact G|]. split; [exact D|].
          intros id' b' [E|Hin'] Hlt G'; [subst id'; congruence|eapply Hab; eauto].
        * intros id b [E|Hin] G; [subst id; congruence|eapply IH; eauto].
  Qed.

  Lemma in_done_unique : forall D id d1 d2, ids_desc D -> In (mkCk id d1) D -> In (mkCk id d2) D -> d1 = d2.
  Proof.
    induction D as [|c D IH]; intros id d1 d2 Hs H1 H2; [contradiction|].
    inversion Hs as [|? ? Hs' Hf]; subst. rewrite Forall_forall in Hf.
    destruct H1 as [H1|H1]; destruct H2 as [H2|H2].
    - congruence.
    - subst c. specialize (Hf _ H2). cbn [cid] in Hf. lia.
    - subst c. specialize (Hf _ H1). cbn [cid] in Hf. lia.
    - eapply IH; eauto.
  Qed.

  (* recovery in any state satisfying the invariant: the newest readable stored checkpoint,
     which is a completely written one *)
  Lemma recover_general : forall s, Inv s ->
    exists r, recover decode (sfs s) = Ok r /\
      (forall c, r = Some c ->
         In c (sdone s) /\ fs_get (sfs s) (FCk (cid c)) = Some (encode c) /\
         (forall id b, cid c < id -> fs_get (sfs s) (FCk id) = Some b -> decode b = None)) /\
      (r = None -> forall id b, fs_get (sfs s) (FCk id) = Some b -> decode b = None).
  Proof.
    intros s HI. unfold recover, load_latest. eexists. split; [reflexivity|].
    pose proof (first_readable_spec (sfs s) _ (desc_sorted (sfs s) (i_wf s HI))) as Hspec.
    destruct (first_readable decode (sfs s) (rev (list_ckpts (sfs s)))) as [c|].
    - split; [|discriminate]. intros c' E. inversion E; subst c'.
      destruct Hspec as [id [b [Hin [G [D Hab]]]]].
      destruct (i_files s HI id b G) as [d0 [Hd Hb]].
      destruct Hb as [Hb|Hb]; [|congruence]. subst b. rewrite dec_enc in D. inversion D; subst c.
      cbn [cid]. split; [exact Hd|]. split; [exact G|].
      intros id' b' Hlt G'. eapply Hab; [|exact Hlt|exact G']. apply in_desc. congruence.
    - split; [discriminate|]. intros _ id b G. eapply Hspec; [|exact G]. apply in_desc. congruence.
  Qed.

  Lemma recover_clean : forall s, Inv s -> Clean s -> recover decode (sfs s) = Ok (hd_error (sdone s)).
  Proof.
    intros s HI HC. destruct (recover_general s HI) as [r [Hr [Hsome Hnone]]]. rewrite Hr. f_equal.
    destruct (sdone s) as [|c0 D] eqn:ED; cbn [hd_error].
    - destruct r as [c|]; [|reflexivity]. destruct (Hsome c eq_refl) as [Hin _]. contradiction.
    - pose proof (i_head s HI c0 D ED) as Hh.
      destruct (fs_get (sfs s) (FCk (cid c0))) as [b0|] eqn:G0; [|congruence].
      destruct (HC _ _ G0) as [d0 [Hin0 Hb0]].
      assert (mkCk (cid c0) d0 = c0) as Ec0.
      { destruct c0 as [i0 x0]. cbn [cid] in *. f_equal.
        eapply in_done_unique; [exact (i_desc s HI)|exact Hin0|rewrite ED; left; reflexivity]. }
      rewrite Ec0 in Hb0. subst b0.
      destruct r as [c|].
      + destruct (Hsome c eq_refl) as [Hin [G Hab]]. f_equal.
        assert (cid c <= cid c0) as Hle.
        { eapply desc_head_ge; [exact (i_desc s HI)|exact ED|rewrite ED; exact Hin]. }
        destruct (N.eq_dec (cid c) (cid c0)) as [E|E].
        * destruct c as [i x], c0 as [i0 x0]. cbn [cid] in *. subst i0. f_equal.
          eapply in_done_unique; [exact (i_desc s HI)|rewrite ED; exact Hin|rewrite ED; left; reflexivity].
        * assert (cid c < cid c0) as Hlt by lia.
          specialize (Hab _ _ Hlt G0). rewrite dec_enc in Hab. discriminate.
      + specialize (Hnone eq_refl _ _ G0). rewrite dec_enc in Hnone. discriminate.
  Qed.

  (* ---------------- bound on the number of kept checkpoints ---------------- *)
  Lemma ck_count_le : forall f g extra, wf f -> (forall id, In id (ck_ids f) -> In id (extra ++ ck_ids g)) ->
    (length (ck_ids f) <= length extra + length (ck_ids g))%nat.
  Proof.
    intros f g extra Hw Hincl. rewrite <- app_length. apply NoDup_incl_length; [apply NoDup_ck_ids, Hw|exact Hincl].
  Qed.

  Lemma count_after_put_prunes : forall f n e R, wf f ->
    (length (list_ckpts (apply_ops (after_put f n e) (removes R))) <= 1 + length (list_ckpts f))%nat.
  Proof.
    intros f n e R Hw. rewrite !length_list_ckpts.
    apply (ck_count_le _ f [n]); [apply wf_removes, wf_after_put, Hw|].
    intros id Hin. apply in_ck_ids_get in Hin. rewrite get_removes_ck in Hin.
    destruct (in_dec N.eq_dec id R); [congruence|]. rewrite get_after_put_ck in Hin.
    destruct (N.eqb n id) eqn:E.
    - apply N.eqb_eq in E. left. exact E.
    - right. apply in_ck_ids_get. exact Hin.
  Qed.

  Lemma count_after_full_prune : forall f n d max, wf f ->
    (length (list_ckpts (apply_ops (after_put f n (encode (mkCk n d))) (removes (pruned f n d max)))) <= max)%nat.
  Proof.
    intros f n d max Hw. unfold pruned.
    set (f2 := after_put f n (encode (mkCk n d))).
    assert (wf f2) as Hw2 by (apply wf_after_put, Hw).
    set (l := list_ckpts f2). set (m := (length l - max)%nat).
    rewrite length_list_ckpts.
    assert (length (skipn m l) <= max)%nat as Hsk by (rewrite skipn_length; unfold m; lia).
    eapply Nat.le_trans; [|exact Hsk].
    apply NoDup_incl_length; [apply NoDup_ck_ids, wf_removes, Hw2|].
    intros id Hin. apply in_ck_ids_get in Hin. rewrite get_removes_ck in Hin.
    destruct (in_dec N.eq_dec id (firstn m l)) as [Hi|Hi]; [congruence|].
    apply in_list_ckpts in Hin. fold l in Hin.
    rewrite <- (firstn_skipn m l) in Hin. apply in_app_or in Hin. destruct Hin; [contradiction|assumption].
  Qed.

  Lemma step_bound : forall max s e, wf (sfs s) ->
    (length (list_ckpts (sfs s)) <= max + spend s)%nat ->
    (length (list_ckpts (sfs (step encode max s e))) <= max + spend (step encode max s e))%nat.
  Proof.
    intros max s e Hw Hb. destruct e as [|d|d k torn|b]; cbn [step].
    - exact Hb.
    - destruct (smgr s) as [n|]; [|exact Hb]. cbn [sfs spend].
      rewrite apply_checkpoint_ops. pose proof (count_after_full_prune (sfs s) n d max Hw). lia.
    - destruct (smgr s) as [n|]; [|exact Hb].
      destruct (Nat.leb (length (checkpoint_ops encode (sfs s) n d max)) k).
      + cbn [sfs spend]. rewrite apply_checkpoint_ops.
        pose proof (count_after_full_prune (sfs s) n d max Hw). lia.
      + cbn [sfs spend]. destruct (Nat.leb 2 k) eqn:E2.
        * apply Nat.leb_le in E2. rewrite exec_crash_late by exact E2.
          pose proof (count_after_put_prunes (sfs s) n (encode (mkCk n d)) (firstn (k - 2) (pruned (sfs s) n d max)) Hw). lia.
        * apply Nat.leb_gt in E2.
          assert (length (list_ckpts (exec_crash (sfs s) (checkpoint_ops encode (sfs s) n d max) k torn)) =
                  length (list_ckpts (sfs s))) as El.
          { rewrite !length_list_ckpts.
            assert (k = 0 \/ k = 1)%nat as [Hk|Hk] by lia; subst k.
            - rewrite exec_crash_0. destruct torn; [|reflexivity].
              unfold fs_write. cbn [ck_ids]. clear. induction (sfs s) as [|[[x|x] b] f IH]; cbn [fs_remove ck_ids fname_eqb].
              + reflexivity.
              + cbn [length]. rewrite IH. reflexivity.
              + destruct (N.eqb x n); cbn [ck_ids]; exact IH.
            - rewrite exec_crash_1. unfold fs_write. cbn [ck_ids]. clear. induction (sfs s) as [|[[x|x] b] f IH]; cbn [fs_remove ck_ids fname_eqb].
              + reflexivity.
              + cbn [length]. rewrite IH. reflexivity.
              + destruct (N.eqb x n); cbn [ck_ids]; exact IH. }
          lia.
    - destruct (rev (list_ckpts (sfs s))) as [|id l] eqn:EL; [exact Hb|]. cbn [sfs spend].
      destruct (desc_head_max (sfs s) id l Hw EL) as [Hex _].
      assert (length (list_ckpts (fs_write (sfs s) (FCk id) b)) <= length (list_ckpts (sfs s)))%nat; [|lia].
      rewrite !length_list_ckpts. apply NoDup_incl_length; [apply NoDup_ck_ids, wf_write, Hw|].
      intros x Hx. apply in_ck_ids_get in Hx. apply in_ck_ids_get. rewrite fs_get_write in Hx. cbn [fname_eqb] in Hx.
      destruct (N.eqb id x) eqn:E; [apply N.eqb_eq in E; subst; exact Hex|exact Hx].
  Qed.

  Lemma step_wf : forall max s e, wf (sfs s) -> wf (sfs (step encode max s e)).
  Proof.
    intros max s e Hw. destruct e as [|d|d k torn|b]; cbn [step].
    - exact Hw.
    - destruct (smgr s); [|exact Hw]. cbn [sfs]. apply wf_apply_ops, Hw.
    - destruct (smgr s); [|exact Hw]. destruct (Nat.leb _ k); cbn [sfs].
      + apply wf_apply_ops, Hw.
      + unfold exec_crash. destruct torn as [t|]; [|apply wf_apply_ops, Hw].
        destruct (nth_error _ k) as [[p b|p q|p]|]; try apply wf_apply_ops, Hw.
        apply wf_write, wf_apply_ops, Hw.
    - destruct (rev (list_ckpts (sfs s))); [exact Hw|]. cbn [sfs]. apply wf_write, Hw.
  Qed.

  Lemma run_wf_bound : forall max evs,
    wf (sfs (run encode max evs)) /\
    (length (list_ckpts (sfs (run encode max evs))) <= max + spend (run encode max evs))%nat.
  Proof.
    intros max evs. induction evs as [|e evs IH] using rev_ind.
    - split; [constructor|cbn; lia].
    - rewrite run_snoc. destruct IH as [Hw Hb]. split; [apply step_wf, Hw|apply step_bound; assumption].
  Qed.

  (* ---------------- no readable file is partial (final or temporary) ---------------- *)
  Hypothesis dec_prefix : forall c k, (k < length (encode c))%nat -> decode (firstn k (encode c)) = None.

  Definition whole (b : bytes) : Prop := (exists c, b = encode c) \/ decode b = None.
  Definition AllWhole (f : fs) : Prop := forall p b, fs_get f p = Some b -> whole b.

  Lemma torn_whole : forall c t, whole (torn_bytes (encode c) t).
  Proof.
    intros c t. unfold torn_bytes. destruct (encode c) as [|x l] eqn:E.
    - left. exists c. rewrite E. destruct (Nat.min t (length (@nil N) - 1)); reflexivity.
    - right. rewrite <- E. apply dec_prefix. rewrite E. cbn [length]. lia.
  Qed.

  Lemma whole_apply_op : forall f o, AllWhole f ->
    (forall p b, o = Write p b -> whole b) -> AllWhole (apply_op f o).
  Proof.
    intros f [p b|p q|p] HA Hw r br G; cbn [apply_op] in G.
    - rewrite fs_get_write in G. destruct (fname_eqb p r); [inversion G; subst; eapply Hw; reflexivity|eapply HA; exact G].
    - unfold fs_rename in G. destruct (fs_get f p) as [bp|] eqn:Gp; [|eapply HA; exact G].
      cbn [fs_get] in G. destruct (fname_eqb q r).
      + inversion G; subst. eapply HA; exact Gp.
      + rewrite !fs_get_remove in G. destruct (fname_eqb q r); [discriminate|].
        destruct (fname_eqb p r); [discriminate|]. eapply HA; exact G.
    - rewrite fs_get_remove in G. destruct (fname_eqb p r); [discriminate|]. eapply HA; exact G.
  Qed.

  Lemma whole_apply_ops : forall ops f, AllWhole f ->
    (forall p b, In (Write p b) ops -> whole b) -> AllWhole (apply_ops f ops).
  Proof.
    unfold apply_ops. induction ops as [|o ops IH]; intros f HA Hw; cbn [fold_left]; [exact HA|].
    apply IH.
    - apply whole_apply_op; [exact HA|]. intros p b E. apply (Hw p b). left. exact E.
    - intros p b Hin. apply (Hw p b). right. exact Hin.
  Qed.

  Lemma checkpoint_writes_whole : forall f n d max p b,
    In (Write p b) (checkpoint_ops encode f n d max) -> whole b.
  Proof.
    intros f n d max p b Hin. rewrite checkpoint_ops_shape in Hin. apply in_app_or in Hin.
    destruct Hin as [Hin|Hin].
    - cbn [put_ops In] in Hin. destruct Hin as [E|[E|[]]]; [|discriminate].
      inversion E; subst. left. eexists. reflexivity.
    - unfold removes in Hin. apply in_map_iff in Hin. destruct Hin as [x [E _]]. discriminate.
  Qed.

  Lemma step_whole : forall max s e, ev_ok e -> AllWhole (sfs s) -> AllWhole (sfs (step encode max s e)).
  Proof.
    intros max s e Hok HA. destruct e as [|d|d k torn|b]; cbn [step].
    - exact HA.
    - destruct (smgr s) as [n|]; [|exact HA]. cbn [sfs].
      apply whole_apply_ops; [exact HA|]. intros p b. apply checkpoint_writes_whole.
    - destruct (smgr s) as [n|]; [|exact HA]. destruct (Nat.leb _ k); cbn [sfs].
      + apply whole_apply_ops; [exact HA|]. intros p b. apply checkpoint_writes_whole.
      + unfold exec_crash.
        assert (AllWhole (apply_ops (sfs s) (firstn k (checkpoint_ops encode (sfs s) n d max)))) as H1.
        { apply whole_apply_ops; [exact HA|]. intros p b Hin. apply in_firstn in Hin.
          eapply checkpoint_writes_whole. exact Hin. }
        destruct torn as [t|]; [|exact H1].
        destruct (nth_error _ k) as [[p b|p q|p]|] eqn:En; try exact H1.
        intros r br G. rewrite fs_get_write in G. destruct (fname_eqb p r); [|eapply H1; exact G].
        inversion G; subst br. apply nth_error_In in En. rewrite checkpoint_ops_shape in En.
        apply in_app_or in En. destruct En as [En|En].
        * cbn [put_ops In] in En. destruct En as [E|[E|[]]]; [|discriminate].
          inversion E; subst. apply torn_whole.
        * unfold removes in En. apply in_map_iff in En. destruct En as [x [E _]]. discriminate.
    - cbn [ev_ok] in Hok. destruct (rev (list_ckpts (sfs s))); [exact HA|]. cbn [sfs].
      intros r br G. rewrite fs_get_write in G. destruct (fname_eqb _ r); [|eapply HA; exact G].
      inversion G; subst. right. exact Hok.
  Qed.

  Lemma run_whole : forall max evs, Forall ev_ok evs -> AllWhole (sfs (run encode max evs)).
  Proof.
    intros max evs. induction evs as [|e evs IH] using rev_ind; intro Hf.
    - intros p b G. discriminate.
    - rewrite run_snoc. apply Forall_app in Hf. destruct Hf as [Hf He]. inversion He; subst.
      apply step_whole; auto.
  Qed.
End Proofs.
