(* Store/ProofsFs.v — lemmas about the file-system model and the sorted id listing. *)
From Coq Require Import Sorting.Sorted Permutation.
From VP Require Import Base.Tactics Store.Model.
Open Scope N_scope.

Lemma fname_eqb_eq : forall a b, fname_eqb a b = true <-> a = b.
Proof.
  intros [x|x] [y|y]; cbn [fname_eqb]; split; intro H; try discriminate;
    try (apply N.eqb_eq in H; subst; reflexivity); inversion H; subst; apply N.eqb_refl.
Qed.

Lemma fname_eqb_refl : forall a, fname_eqb a a = true.
Proof. intro a. apply fname_eqb_eq. reflexivity. Qed.

Lemma fname_eqb_neq : forall a b, fname_eqb a b = false <-> a <> b.
Proof.
  intros a b. split.
  - intros H E. apply fname_eqb_eq in E. congruence.
  - intro H. destruct (fname_eqb a b) eqn:E; [|reflexivity]. apply fname_eqb_eq in E. contradiction.
Qed.

Lemma fname_eqb_sym : forall a b, fname_eqb a b = fname_eqb b a.
Proof.
  intros a b. destruct (fname_eqb a b) eqn:E.
  - apply fname_eqb_eq in E. subst. symmetry. apply fname_eqb_refl.
  - symmetry. apply fname_eqb_neq. apply fname_eqb_neq in E. congruence.
Qed.

(* ---- lookups after each mutation ---- *)
Lemma fs_get_remove : forall f p q,
  fs_get (fs_remove f p) q = if fname_eqb p q then None else fs_get f q.
Proof.
  induction f as [|[r b] f IH]; intros p q; cbn [fs_remove fs_get].
  - destruct (fname_eqb p q); reflexivity.
  - destruct (fname_eqb r p) eqn:Erp.
    + apply fname_eqb_eq in Erp. subst r. rewrite IH.
      destruct (fname_eqb p q) eqn:Epq; reflexivity.
    + cbn [fs_get]. rewrite IH. destruct (fname_eqb r q) eqn:Erq; [|reflexivity].
      apply fname_eqb_eq in Erq. subst r. rewrite fname_eqb_sym, Erp. reflexivity.
Qed.

Lemma fs_get_write : forall f p b q,
  fs_get (fs_write f p b) q = if fname_eqb p q then Some b else fs_get f q.
Proof.
  intros f p b q. unfold fs_write. cbn [fs_get]. destruct (fname_eqb p q) eqn:E; [reflexivity|].
  rewrite fs_get_remove, E. reflexivity.
Qed.

Lemma fs_get_rename : forall f p q b r,
  fs_get f p = Some b ->
  fs_get (fs_rename f p q) r =
    if fname_eqb q r then Some b else if fname_eqb p r then None else fs_get f r.
Proof.
  intros f p q b r Hp. unfold fs_rename. rewrite Hp. cbn [fs_get].
  destruct (fname_eqb q r) eqn:E; [reflexivity|]. rewrite !fs_get_remove, E. reflexivity.
Qed.

(* ---- well-formedness: every name at most once ---- *)
Definition wf (f : fs) : Prop := NoDup (map fst f).

Lemma in_remove_keys : forall f p x, In x (map fst (fs_remove f p)) -> In x (map fst f) /\ x <> p.
Proof.
  induction f as [|[r b] f IH]; intros p x H; cbn [fs_remove] in H.
  - contradiction.
  - destruct (fname_eqb r p) eqn:E.
    + apply IH in H. destruct H as [H1 H2]. split; [right; exact H1|exact H2].
    + cbn [map fst In] in H. destruct H as [H|H].
      * subst x. split; [left; reflexivity|]. apply fname_eqb_neq. exact E.
      * apply IH in H. destruct H as [H1 H2]. split; [right; exact H1|exact H2].
Qed.

Lemma wf_remove : forall f p, wf f -> wf (fs_remove f p).
Proof.
  unfold wf. induction f as [|[r b] f IH]; intros p H; cbn [fs_remove].
  - exact H.
  - cbn [map fst] in H. inversion H as [|? ? Hn Hd]; subst.
    destruct (fname_eqb r p); [apply IH; exact Hd|].
    cbn [map fst]. constructor; [|apply IH; exact Hd].
    intro Hin. apply in_remove_keys in Hin. destruct Hin as [Hin _]. contradiction.
Qed.

Lemma wf_write : forall f p b, wf f -> wf (fs_write f p b).
Proof.
  intros f p b H. unfold wf, fs_write. cbn [map fst]. constructor.
  - intro Hin. apply in_remove_keys in Hin. destruct Hin as [_ Hne]. congruence.
  - apply wf_remove. exact H.
Qed.

Lemma wf_rename : forall f p q, wf f -> wf (fs_rename f p q).
Proof.
  intros f p q H. unfold fs_rename. destruct (fs_get f p); [|exact H].
  unfold wf. cbn [map fst]. constructor.
  - intro Hin. apply in_remove_keys in Hin. destruct Hin as [_ Hne]. congruence.
  - apply wf_remove, wf_remove. exact H.
Qed.

Lemma wf_apply_op : forall f o, wf f -> wf (apply_op f o).
Proof. intros f [p b|p q|p] H; cbn [apply_op]; auto using wf_write, wf_rename, wf_remove. Qed.

Lemma wf_apply_ops : forall ops f, wf f -> wf (apply_ops f ops).
Proof.
  unfold apply_ops. induction ops as [|o ops IH]; intros f H; cbn [fold_left]; [exact H|].
  apply IH, wf_apply_op, H.
Qed.

(* ---- the checkpoint ids of a directory ---- *)
Lemma in_ck_ids : forall f id, In id (ck_ids f) <-> In (FCk id) (map fst f).
Proof.
  induction f as [|[[x|x] b] f IH]; intro id; cbn [ck_ids map fst In].
  - tauto.
  - rewrite IH. split; intros [H|H]; auto; left; congruence.
  - rewrite IH. split; [auto|]. intros [H|H]; [discriminate|exact H].
Qed.

Lemma fs_get_in : forall f p, fs_get f p <> None <-> In p (map fst f).
Proof.
  induction f as [|[r b] f IH]; intro p; cbn [fs_get map fst In].
  - tauto.
  - destruct (fname_eqb r p) eqn:E.
    + apply fname_eqb_eq in E. subst. split; [auto|discriminate].
    + rewrite IH. apply fname_eqb_neq in E. tauto.
Qed.

Lemma in_ck_ids_get : forall f id, In id (ck_ids f) <-> fs_get f (FCk id) <> None.
Proof. intros. rewrite in_ck_ids, fs_get_in. tauto. Qed.

Lemma NoDup_ck_ids : forall f, wf f -> NoDup (ck_ids f).
Proof.
  unfold wf. induction f as [|[[x|x] b] f IH]; intro H; cbn [ck_ids]; cbn [map fst] in H.
  - constructor.
  - inversion H; subst. constructor; [|auto]. rewrite in_ck_ids. assumption.
  - inversion H; subst. auto.
Qed.

(* ---- sorted listing ---- *)
Definition leN (a b : N) : Prop := is_true (N.leb a b).

Lemma leN_le : forall a b, leN a b <-> a <= b.
Proof. intros. unfold leN, is_true. apply N.leb_le. Qed.

Lemma list_sorted : forall f, StronglySorted leN (list_ckpts f).
Proof.
  intro f. apply NSort.StronglySorted_sort.
  intros a b c H1 H2. unfold is_true in *. apply N.leb_le in H1. apply N.leb_le in H2.
  apply N.leb_le. lia.
Qed.

Lemma list_perm : forall f, Permutation (ck_ids f) (list_ckpts f).
Proof. intro f. apply NSort.Permuted_sort. Qed.

Lemma in_list_ckpts : forall f id, In id (list_ckpts f) <-> fs_get f (FCk id) <> None.
Proof.
  intros f id. rewrite <- in_ck_ids_get. split; intro H.
  - eapply Permutation_in; [apply Permutation_sym, list_perm|exact H].
  - eapply Permutation_in; [apply list_perm|exact H].
Qed.

Lemma NoDup_list_ckpts : forall f, wf f -> NoDup (list_ckpts f).
Proof. intros f H. eapply Permutation_NoDup; [apply list_perm|]. apply NoDup_ck_ids, H. Qed.

Lemma length_list_ckpts : forall f, length (list_ckpts f) = length (ck_ids f).
Proof. intro f. symmetry. apply Permutation_length, list_perm. Qed.

(* generic facts about sorted lists *)
Lemma ss_app_cross : forall (l1 l2 : list N), StronglySorted leN (l1 ++ l2) ->
  forall x y, In x l1 -> In y l2 -> x <= y.
Proof.
  induction l1 as [|a l1 IH]; intros l2 H x y Hx Hy; [contradiction|].
  cbn [app] in H. inversion H as [|? ? Hs Hf]; subst. destruct Hx as [Hx|Hx].
  - subst a. rewrite Forall_forall in Hf. apply leN_le, Hf, in_or_app. right. exact Hy.
  - eapply IH; eauto.
Qed.

Lemma ss_snoc : forall (R : N -> N -> Prop) l a,
  StronglySorted R l -> (forall x, In x l -> R x a) -> StronglySorted R (l ++ [a]).
Proof.
  intros R. induction l as [|b l IH]; intros a Hs Ha; cbn [app].
  - constructor; constructor.
  - inversion Hs as [|? ? Hs' Hf]; subst. constructor.
    + apply IH; [exact Hs'|]. intros x Hx. apply Ha. right. exact Hx.
    + apply Forall_forall. intros x Hx. apply in_app_or in Hx. destruct Hx as [Hx|[Hx|[]]].
      * rewrite Forall_forall in Hf. apply Hf, Hx.
      * subst x. apply Ha. left. reflexivity.
Qed.

Lemma ss_rev : forall (R : N -> N -> Prop) l,
  StronglySorted R l -> StronglySorted (fun a b => R b a) (rev l).
Proof.
  intros R. induction l as [|a l IH]; intro H; cbn [rev]; [constructor|].
  inversion H as [|? ? Hs Hf]; subst. apply ss_snoc; [apply IH, Hs|].
  intros x Hx. apply in_rev in Hx. rewrite Forall_forall in Hf. apply Hf, Hx.
Qed.

Lemma ss_strict : forall l, StronglySorted (fun a b => leN b a) l -> NoDup l ->
  StronglySorted (fun a b => b < a) l.
Proof.
  induction l as [|a l IH]; intros Hs Hn; [constructor|].
  inversion Hs as [|? ? Hs' Hf]; subst. inversion Hn as [|? ? Hni Hn']; subst.
  constructor; [apply IH; assumption|]. apply Forall_forall. intros x Hx.
  rewrite Forall_forall in Hf. specialize (Hf x Hx). apply leN_le in Hf.
  assert (x <> a) by (intro; subst; contradiction). lia.
Qed.

(* the listing in descending order, as walked by load_newest_readable *)
Lemma desc_sorted : forall f, wf f -> StronglySorted (fun a b => b < a) (rev (list_ckpts f)).
Proof.
  intros f H. apply ss_strict.
  - apply (ss_rev leN). apply list_sorted.
  - apply NoDup_rev, NoDup_list_ckpts, H.
Qed.

Lemma in_desc : forall f id, In id (rev (list_ckpts f)) <-> fs_get f (FCk id) <> None.
Proof. intros. rewrite <- in_rev. apply in_list_ckpts. Qed.

(* the head of the descending listing is the largest stored id *)
Lemma desc_head_max : forall f id r, wf f -> rev (list_ckpts f) = id :: r ->
  fs_get f (FCk id) <> None /\ forall x, fs_get f (FCk x) <> None -> x <= id.
Proof.
  intros f id r Hw E. split.
  - apply in_desc. rewrite E. left. reflexivity.
  - intros x Hx. apply in_desc in Hx. rewrite E in Hx. destruct Hx as [Hx|Hx]; [subst; lia|].
    pose proof (desc_sorted f Hw) as Hs. rewrite E in Hs. inversion Hs as [|? ? _ Hf]; subst.
    rewrite Forall_forall in Hf. specialize (Hf x Hx). lia.
Qed.

Lemma desc_nil : forall f, rev (list_ckpts f) = [] -> forall x, fs_get f (FCk x) = None.
Proof.
  intros f E x. destruct (fs_get f (FCk x)) eqn:G; [|reflexivity].
  assert (In x (rev (list_ckpts f))) as Hin by (apply in_desc; congruence).
  rewrite E in Hin. contradiction.
Qed.

(* what prune removes: never the largest id when keep >= 1 *)
Lemma firstn_below_some : forall l keep x, StronglySorted leN l -> NoDup l -> (1 <= keep)%nat ->
  In x (firstn (length l - keep) l) -> exists y, In y l /\ x < y.
Proof.
  intros l keep x Hs Hn Hk Hx.
  set (m := (length l - keep)%nat) in *.
  assert (l = firstn m l ++ skipn m l) as E by (symmetry; apply firstn_skipn).
  destruct (skipn m l) as [|y r] eqn:Es.
  - exfalso. assert (length (skipn m l) = 0%nat) as Hl by (rewrite Es; reflexivity).
    rewrite skipn_length in Hl. destruct l as [|a l']; [destruct m; cbn in Hx; contradiction|].
    cbn [length] in *. lia.
  - exists y. rewrite E in Hs, Hn. split.
    + rewrite E. apply in_or_app. right. left. reflexivity.
    + assert (x <= y) by (eapply ss_app_cross; [exact Hs|exact Hx|left; reflexivity]).
      assert (x <> y).
      { intro; subst y. apply NoDup_remove_2 in Hn. apply Hn. apply in_or_app. left. exact Hx. }
      lia.
Qed.

(* with keep >= 2 prune leaves the two largest ids *)
Lemma firstn_below_two : forall l keep x, StronglySorted leN l -> NoDup l -> (2 <= keep)%nat ->
  In x (firstn (length l - keep) l) -> exists y z, In y l /\ In z l /\ y <> z /\ x < y /\ x < z.
Proof.
  intros l keep x Hs Hn Hk Hx.
  set (m := (length l - keep)%nat) in *.
  assert (l = firstn m l ++ skipn m l) as E by (symmetry; apply firstn_skipn).
  assert (m <> 0)%nat as Hm0 by (intro E0; rewrite E0 in Hx; cbn in Hx; contradiction).
  assert (length (skipn m l) = keep) as Hlen by (rewrite skipn_length; unfold m in *; lia).
  destruct (skipn m l) as [|y [|z r]] eqn:Es; cbn [length] in Hlen; try lia.
  rewrite E in Hs, Hn. exists y, z.
  assert (In y l) as Hy by (rewrite E; apply in_or_app; right; left; reflexivity).
  assert (In z l) as Hz by (rewrite E; apply in_or_app; right; right; left; reflexivity).
  assert (x <= y) by (eapply ss_app_cross; [exact Hs|exact Hx|left; reflexivity]).
  assert (x <= z) by (eapply ss_app_cross; [exact Hs|exact Hx|right; left; reflexivity]).
  assert (NoDup (y :: z :: r)) as Hn2.
  { clear - Hn. induction (firstn m l) as [|a t IHt]; [exact Hn|]. cbn [app] in Hn. inversion Hn; subst. apply IHt. assumption. }
  assert (y <> z) by (inversion Hn2 as [|? ? Hni _]; intro; subst; apply Hni; left; reflexivity).
  assert (x <> y).
  { intro; subst y. apply NoDup_remove_2 in Hn. apply Hn. apply in_or_app. left. exact Hx. }
  assert (x <> z).
  { intro; subst z. assert (NoDup (firstn m l ++ [y] ++ x :: r)) as Hn3 by exact Hn.
    rewrite app_assoc in Hn3. apply NoDup_remove_2 in Hn3. apply Hn3. apply in_or_app. left. apply in_or_app. left. exact Hx. }
  repeat split; try assumption; lia.
Qed.
