(* Store/Props.v — the C21 property theorems (statements only; proofs in ProofsMgr.v / ProofsC21.v).

   Reading of the property text:
   * a history is a list of events (Model.ev): ENew = (re)start of the process (CheckpointManager::new),
     ESave d = checkpoint() running to completion, ECrash d k torn = checkpoint() cut by a process crash
     after k file-system mutations (torn = Some t: t bytes of the temp-file write reached the disk),
     ECorrupt b = fault: the newest checkpoint file now holds b.
   * "completely written" = the rename onto the final name completed; the ghost field sdone lists these
     checkpoints, newest first (a checkpoint() call that crashed before its rename is the in-flight one).
   * all theorems hold for every codec with decode (encode c) = Some c (and, where stated, with no proper
     prefix of an encoding decoding); Run.v's evaluation codec is one (toy_roundtrip, toy_prefix_free). *)
From Coq Require Import Sorting.Sorted.
From VP Require Import Base.Tactics Store.Model Store.Run Store.ProofsFs Store.ProofsMgr Store.ProofsC21 Store.ProofsKeep.
Open Scope N_scope.

(* After any history of saves, restarts and crashes at any point (any length, any max >= 1), recovery
   returns the newest completely written checkpoint (None iff none was ever completely written). *)
Theorem C21_recover_newest_complete :
  forall encode decode, codec_roundtrip encode decode ->
  forall max evs, (1 <= max)%nat -> Forall ev_clean evs ->
    recover decode (sfs (run encode max evs)) = Ok (hd_error (sdone (run encode max evs))).
Proof. exact recover_newest_complete. Qed.

(* A checkpoint() that returned is what recovery returns right afterwards. *)
Theorem C21_acknowledged_recovered :
  forall encode decode, codec_roundtrip encode decode ->
  forall max evs d n, (1 <= max)%nat -> Forall ev_clean evs ->
    smgr (run encode max evs) = Some n ->
    recover decode (sfs (run encode max (evs ++ [ESave d]))) = Ok (Some (mkCk n d)).
Proof. exact acknowledged_recovered. Qed.

(* With unreadable bytes put in place of newest files at any points of the history as well: recovery
   never fails, and what it returns was completely written, is stored in full, and is the newest
   readable stored checkpoint (never a partial one). *)
Theorem C21_never_partial :
  forall encode decode, codec_roundtrip encode decode ->
  forall max evs, (1 <= max)%nat -> Forall (ev_ok decode) evs ->
    let s := run encode max evs in
    exists r, recover decode (sfs s) = Ok r /\
      (forall c, r = Some c ->
         In c (sdone s) /\ fs_get (sfs s) (FCk (cid c)) = Some (encode c) /\
         (forall id b, cid c < id -> fs_get (sfs s) (FCk id) = Some b -> decode b = None)) /\
      (r = None -> forall id b, fs_get (sfs s) (FCk id) = Some b -> decode b = None).
Proof. exact recover_newest_readable. Qed.

(* The newest stored checkpoint is unreadable and the previous one is still stored: recovery returns
   the previous one. *)
Theorem C21_older_recovered_when_newest_unreadable :
  forall encode decode, codec_roundtrip encode decode ->
  forall max evs b c1 c2 D, (1 <= max)%nat -> Forall ev_clean evs ->
    decode b = None ->
    sdone (run encode max evs) = c1 :: c2 :: D ->
    fs_get (sfs (run encode max evs)) (FCk (cid c2)) <> None ->
    recover decode (sfs (run encode max (evs ++ [ECorrupt b]))) = Ok (Some c2).
Proof. exact older_recovered. Qed.

(* With max_checkpoints >= 2 the previous checkpoint is always still stored: whenever at least two
   checkpoints were completely written and the newest file becomes unreadable, recovery returns the
   previous one. *)
Theorem C21_older_always_recovered_max2 :
  forall encode decode, codec_roundtrip encode decode ->
  forall max evs b c1 c2 D, (2 <= max)%nat -> Forall ev_clean evs ->
    decode b = None -> sdone (run encode max evs) = c1 :: c2 :: D ->
    recover decode (sfs (run encode max (evs ++ [ECorrupt b]))) = Ok (Some c2).
Proof. exact older_always_recovered. Qed.

Example C21_older_hypotheses_satisfiable :
  let evs := [ENew; ESave 5; ECrash 6 1 None; ENew; ECrash 7 2 (Some 3%nat); ENew; ESave 8] in
  Forall ev_clean evs /\ toy_decode [9] = None /\
  sdone (run toy_encode 2 evs) = [mkCk 3 8; mkCk 2 7; mkCk 1 5] /\
  fs_get (sfs (run toy_encode 2 evs)) (FCk 2) <> None /\
  recover toy_decode (sfs (run toy_encode 2 (evs ++ [ECorrupt [9]]))) = Ok (Some (mkCk 2 7)).
Proof. vm_compute. repeat split; try discriminate; repeat constructor. Qed.

(* At most max checkpoints are kept after every completed checkpoint(); in every state, including
   crash states, at most max + (number of crashed checkpoint() calls since the last completed one). *)
Theorem C21_bound_after_completed :
  forall encode max evs d, smgr (run encode max evs) <> None ->
    (length (list_ckpts (sfs (run encode max (evs ++ [ESave d])))) <= max)%nat.
Proof. exact bound_after_completed. Qed.

Theorem C21_bound_all_states :
  forall encode max evs,
    (length (list_ckpts (sfs (run encode max evs))) <= max + spend (run encode max evs))%nat.
Proof. exact bound_all_states. Qed.

(* Ids of completely written checkpoints strictly increase over the whole history, across restarts,
   crashes and faults (sdone is newest first). *)
Theorem C21_ids_increase :
  forall encode decode, codec_roundtrip encode decode ->
  forall max evs, (1 <= max)%nat -> Forall (ev_ok decode) evs ->
    StronglySorted (fun a b => cid b < cid a) (sdone (run encode max evs)).
Proof. exact ids_increase. Qed.

(* No file in the directory (final or temporary) that can be read is a partial write. *)
Theorem C21_readable_files_complete :
  forall encode decode, codec_roundtrip encode decode -> codec_prefix_free encode decode ->
  forall max evs p b c, Forall (ev_ok decode) evs ->
    fs_get (sfs (run encode max evs)) p = Some b -> decode b = Some c -> b = encode c.
Proof. exact readable_files_complete. Qed.

(* The codec used for evaluation satisfies the contract, so the theorems are not vacuous. *)
Theorem C21_eval_codec_contract : codec_roundtrip toy_encode toy_decode /\ codec_prefix_free toy_encode toy_decode.
Proof. exact (conj toy_roundtrip toy_prefix_free). Qed.
