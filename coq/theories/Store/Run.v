(* Store/Run.v — concrete codec instance + rendering of the C21 model observables.
   One [Eval vm_compute in (c21_case max evs)] per case gives the same line the driver builds
   from the harness answer (checks/store_common.py impl_str). *)
From Coq Require Import String List NArith Bool.
From VP Require Import Base.Render Store.Model.
Import ListNotations.
Open Scope string_scope.

(* A small self-delimiting codec: [1; id; payload; 2]. It satisfies the codec contract
   (Proofs.v toy_contract): what was encoded decodes to itself, no proper prefix decodes. *)
Definition toy_encode (c : ckpt) : bytes := [1%N; cid c; cdata c; 2%N].
Definition toy_decode (b : bytes) : option ckpt :=
  match b with
  | [1%N; i; d; 2%N] => Some (mkCk i d)
  | _ => None
  end.

Definition r_content (b : bytes) : string :=
  match toy_decode b with
  | Some c => "full(" ++ str_of_N (cid c) ++ "," ++ str_of_N (cdata c) ++ ")"
  | None => "bad"
  end.

(* files sorted by (id, tmp?) like the harness listing *)
Fixpoint ins_file (x : N * bool * string) (l : list (N * bool * string)) :=
  match l with
  | [] => [x]
  | y :: r =>
      let '(xi, xt, _) := x in
      let '(yi, yt, _) := y in
      if orb (N.ltb xi yi) (andb (N.eqb xi yi) (andb (negb xt) yt)) then x :: l else y :: ins_file x r
  end.
Definition sort_files l := fold_right ins_file [] l.

Definition r_files (f : fs) : string :=
  join ";" (map (fun x => snd x)
    (sort_files (map (fun pb : fname * bytes =>
       match fst pb with
       | FCk i => (i, false, str_of_N i ++ "=" ++ r_content (snd pb))
       | FTmp i => (i, true, str_of_N i ++ ".tmp=" ++ r_content (snd pb))
       end) f))).

Definition r_recover (f : fs) : string :=
  match recover toy_decode f with
  | Ok None => "none"
  | Ok (Some c) => "ck(" ++ str_of_N (cid c) ++ "," ++ str_of_N (cdata c) ++ ")"
  | Err => "err"
  end.

Definition r_res (max : nat) (s : st) (e : ev) : string :=
  match e with
  | ENew => "ok"
  | ESave d =>
      match smgr s with
      | None => "nomgr"
      | Some n => "ok:" ++ str_of_nat (length (checkpoint_ops toy_encode (sfs s) n d max))
      end
  | ECrash d k _ =>
      match smgr s with
      | None => "nomgr"
      | Some n =>
          let ops := checkpoint_ops toy_encode (sfs s) n d max in
          if Nat.leb (length ops) k then "ok:" ++ str_of_nat (length ops) else "crash"
      end
  | ECorrupt _ => match list_ckpts (sfs s) with [] => "nofile" | _ => "ok" end
  end.

Fixpoint r_steps (max : nat) (s : st) (evs : list ev) : list string :=
  match evs with
  | [] => []
  | e :: r =>
      let s' := step toy_encode max s e in
      (r_res max s e ++ "|" ++ r_files (sfs s') ++ "|" ++ r_recover (sfs s')) :: r_steps max s' r
  end.

Definition c21_case (max : nat) (evs : list ev) : string := join "#" (r_steps max st0 evs).
