(* Store/Tenant.v — executable model of tenant / pipeline metadata persistence (C22). Definitions only.

   Rust (crates/varpulis-runtime/src/tenant.rs, crates/varpulis-cli/src/api.rs)     model
   ------------------------------------------------------------------------------  ------------------------------
   StateStore put/get/delete on keys "tenant:<id>" and "tenants:index"              kvs, kv_get, apply_write
   Tenant::snapshot / TenantSnapshot / PipelineSnapshot                             tsnap / psnap
   TenantManager::persist_tenant_to_store  (put snapshot; update_tenant_index_add)  persist_writes
   TenantManager::delete_tenant_state      (delete snapshot; update_tenant_index_remove)  delete_writes
   update_tenant_index_add / _remove (read index from the store, rewrite it)        WIndexAdd / WIndexRemove
   TenantManager::recover                                                           recover
   handle_create_tenant / handle_delete_tenant / handle_deploy / handle_delete /
   handle_reload (state change, then persist_if_needed)                              op_effect
   a process crash after n store writes                                              run_ops with a write budget

   Tenant and pipeline ids (uuids in the code) are numbers chosen by the history; names, API keys and
   sources are interned numbers. The in-memory manager is a list of tenant snapshots (HashMap order is not
   modelled; the driver sorts). *)
From Coq Require Import List NArith Bool.
Import ListNotations.
Open Scope N_scope.

Record psnap := mkP { p_id : N; p_name : N; p_src : N; p_status : N }.
Record tsnap := mkT { t_id : N; t_name : N; t_key : N; t_pipes : list psnap }.

Inductive skey := KIndex | KTenant (id : N).
Inductive sval := VIndex (ids : list N) | VSnap (t : tsnap).
Definition kvs := list (skey * sval).

Definition skey_eqb (a b : skey) : bool :=
  match a, b with
  | KIndex, KIndex => true
  | KTenant x, KTenant y => N.eqb x y
  | _, _ => false
  end.

Fixpoint kv_get (s : kvs) (k : skey) : option sval :=
  match s with
  | [] => None
  | (k', v) :: r => if skey_eqb k' k then Some v else kv_get r k
  end.

Fixpoint kv_del (s : kvs) (k : skey) : kvs :=
  match s with
  | [] => []
  | (k', v) :: r => if skey_eqb k' k then kv_del r k else (k', v) :: kv_del r k
  end.

Definition kv_put (s : kvs) (k : skey) (v : sval) : kvs := (k, v) :: kv_del s k.

(* load_tenant_index: absent -> empty *)
Definition load_index (s : kvs) : list N :=
  match kv_get s KIndex with Some (VIndex ids) => ids | _ => [] end.

Fixpoint mem_N (x : N) (l : list N) : bool :=
  match l with [] => false | y :: r => N.eqb y x || mem_N x r end.

Inductive write := WPutSnap (t : tsnap) | WDelSnap (id : N) | WIndexAdd (id : N) | WIndexRemove (id : N).

Definition apply_write (s : kvs) (w : write) : kvs :=
  match w with
  | WPutSnap t => kv_put s (KTenant (t_id t)) (VSnap t)
  | WDelSnap id => kv_del s (KTenant id)
  | WIndexAdd id =>
      let ids := load_index s in
      kv_put s KIndex (VIndex (if mem_N id ids then ids else ids ++ [id]))
  | WIndexRemove id =>
      kv_put s KIndex (VIndex (filter (fun x => negb (N.eqb x id)) (load_index s)))
  end.

Definition persist_writes (t : tsnap) : list write := [WPutSnap t; WIndexAdd (t_id t)].
Definition delete_writes (id : N) : list write := [WDelSnap id; WIndexRemove id].

(* TenantManager::recover: tenants listed in the index whose snapshot is present *)
Definition recover (s : kvs) : list tsnap :=
  match kv_get s KIndex with
  | Some (VIndex ids) =>
      flat_map (fun id => match kv_get s (KTenant id) with Some (VSnap t) => [t] | _ => [] end) ids
  | _ => []
  end.

(* ---- the in-memory manager ---- *)
Definition mgr := list tsnap.

Fixpoint find_tenant (m : mgr) (id : N) : option tsnap :=
  match m with
  | [] => None
  | t :: r => if N.eqb (t_id t) id then Some t else find_tenant r id
  end.

Fixpoint set_tenant (m : mgr) (t : tsnap) : mgr :=
  match m with
  | [] => []
  | x :: r => if N.eqb (t_id x) (t_id t) then t :: r else x :: set_tenant r t
  end.

Definition remove_tenant (m : mgr) (id : N) : mgr := filter (fun t => negb (N.eqb (t_id t) id)) m.

Definition has_pipe (t : tsnap) (pid : N) : bool := existsb (fun p => N.eqb (p_id p) pid) (t_pipes t).

Inductive op :=
| OCreate (id name key : N)
| ODelTenant (id : N)
| ODeploy (tid pid name src : N)
| ODelPipe (tid pid : N)
| OReload (tid pid src : N)
| ORestart.

(* what an acknowledged operation does to the manager and which store writes follow;
   None = the request is rejected (unknown tenant / pipeline): no state change, no writes *)
Definition op_effect (m : mgr) (o : op) : option (mgr * list write) :=
  match o with
  | OCreate id name key =>
      let t := mkT id name key [] in Some (m ++ [t], persist_writes t)
  | ODelTenant id =>
      match find_tenant m id with
      | Some _ => Some (remove_tenant m id, delete_writes id)
      | None => None
      end
  | ODeploy tid pid name src =>
      match find_tenant m tid with
      | Some t => let t' := mkT (t_id t) (t_name t) (t_key t) (t_pipes t ++ [mkP pid name src 0]) in
                  Some (set_tenant m t', persist_writes t')
      | None => None
      end
  | ODelPipe tid pid =>
      match find_tenant m tid with
      | Some t => if has_pipe t pid
                  then let t' := mkT (t_id t) (t_name t) (t_key t) (filter (fun p => negb (N.eqb (p_id p) pid)) (t_pipes t)) in
                       Some (set_tenant m t', persist_writes t')
                  else None
      | None => None
      end
  | OReload tid pid src =>
      match find_tenant m tid with
      | Some t => if has_pipe t pid
                  then let t' := mkT (t_id t) (t_name t) (t_key t)
                                   (map (fun p => if N.eqb (p_id p) pid then mkP (p_id p) (p_name p) src (p_status p) else p) (t_pipes t)) in
                       Some (set_tenant m t', persist_writes t')
                  else None
      | None => None
      end
  | ORestart => None   (* handled by the runner *)
  end.

(* store writes with a budget: Some n = the process dies at the (n+1)-th write from now *)
Fixpoint do_writes (s : kvs) (ws : list write) (budget : option nat) : kvs * option nat * bool (* frozen *) * nat (* done *) :=
  match ws with
  | [] => (s, budget, false, O)
  | w :: r =>
      match budget with
      | Some O => (s, budget, true, O)
      | _ =>
          let b' := match budget with Some (S n) => Some n | _ => budget end in
          let '(s', b'', fr, n) := do_writes (apply_write s w) r b' in (s', b'', fr, S n)
      end
  end.

(* a tenant id handed out by TenantId::generate (uuid v4) has never been used: not in the manager, not in the store *)
Definition fresh_id (s : kvs) (m : mgr) (id : N) : bool :=
  negb (mem_N id (load_index s)) &&
  match kv_get s (KTenant id) with None => true | Some _ => false end &&
  negb (mem_N id (map t_id m)).

Record world := mkW {
  w_store : kvs;
  w_mem : mgr;                (* the running server's manager *)
  w_acked : mgr;              (* ghost: manager state after the last operation that completed *)
  w_budget : option nat;
  w_frozen : bool;
  w_trace : list (bool * nat * bool);    (* per operation: accepted, writes done, frozen during it *)
  w_fresh : bool              (* ghost: every create so far used a fresh id *)
}.

Definition step_op (w : world) (o : op) : world :=
  if w_frozen w then w
  else match o with
  | ORestart =>
      let m := recover (w_store w) in
      mkW (w_store w) m m (w_budget w) false (w_trace w ++ [(true, O, false)]) (w_fresh w)
  | _ =>
      let fr_ok := match o with OCreate id _ _ => fresh_id (w_store w) (w_mem w) id | _ => true end in
      match op_effect (w_mem w) o with
      | None => mkW (w_store w) (w_mem w) (w_acked w) (w_budget w) false (w_trace w ++ [(false, O, false)]) (w_fresh w)
      | Some (m', ws) =>
          let '(s', b', fr, n) := do_writes (w_store w) ws (w_budget w) in
          mkW s' m' (if fr then w_acked w else m') b' fr (w_trace w ++ [(true, n, fr)]) (w_fresh w && fr_ok)
      end
  end.

Definition world0 (budget : option nat) : world := mkW [] [] [] budget false [] true.

Definition run_ops (ops : list op) (budget : option nat) : world := fold_left step_op ops (world0 budget).
