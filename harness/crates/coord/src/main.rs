//! Harness for C32 / C33 / C34: drives the real `varpulis_cluster::Coordinator` in-process by
//! direct method calls (no coordinator REST API).  The execute phases of the monolithic operations
//! (migrate_pipeline inside handle_worker_failure / drain_worker / rebalance) talk to worker
//! addresses; all workers point at one in-process loopback stub that answers the deploy call with
//! the outcome scripted by the request (the same technique as the crate's own integration tests).
//!
//! Requests (one JSON per line):
//!   {"kind":"coord","timeout":T,"ops":[[name,args..],..]}
//!   {"kind":"route", ...}            (see route.rs)
//! Virtual clock: one unit = 1 s; `advance d` moves every worker's public `last_heartbeat` back by
//! d units; `heartbeat_timeout` = T units + 0.5; before and after every op the wall-clock time that
//! passed is given back to every worker and the heartbeat ages are rounded to whole units (`settle`),
//! so an operation takes zero virtual time however long it really took.
use serde_json::{json, Value as J};
use std::collections::{HashMap, VecDeque};
use std::sync::{Mutex, OnceLock};
use std::time::{Duration, Instant};
use varpulis_cluster::coordinator::{
    Coordinator, DeployGroupPlan, DeployResponse, DeployTaskResult, MigratePipelinePlan, TeardownPlan,
};
use varpulis_cluster::migration::{MigrationReason, MigrationStatus};
use varpulis_cluster::pipeline_group::{
    GroupStatus, PipelineDeploymentStatus, PipelineGroupSpec, PipelinePlacement,
};
use varpulis_cluster::worker::{HeartbeatRequest, WorkerCapacity, WorkerId, WorkerNode, WorkerStatus};
use varpulis_cluster::ClusterError;

mod api_mode;
mod route;

pub static RT: OnceLock<tokio::runtime::Runtime> = OnceLock::new();
static SCRIPT: Mutex<VecDeque<bool>> = Mutex::new(VecDeque::new());
pub static BATCHLOG: Mutex<Vec<(String, J)>> = Mutex::new(Vec::new());
pub static NEXT_ID: Mutex<u64> = Mutex::new(0);
pub static PORT: OnceLock<u16> = OnceLock::new();

pub const UNIT_MS: u64 = 1000;

fn start_stub() {
    use warp::Filter;
    let rt = RT.get().unwrap();
    let deploy = warp::path!("api" / "v1" / "pipelines")
        .and(warp::post())
        .and(warp::body::json::<J>())
        .map(|body: J| {
            let ok = SCRIPT.lock().unwrap().pop_front().unwrap_or(true);
            if ok {
                let mut n = NEXT_ID.lock().unwrap();
                *n += 1;
                warp::reply::with_status(
                    warp::reply::json(&json!({"id": format!("id{}", *n), "name": body["name"], "status": "running"})),
                    warp::http::StatusCode::OK,
                )
            } else {
                warp::reply::with_status(warp::reply::json(&json!({"error": "scripted failure"})), warp::http::StatusCode::INTERNAL_SERVER_ERROR)
            }
        });
    let batch = warp::path!("api" / "v1" / "pipelines" / String / "events-batch")
        .and(warp::post())
        .and(warp::body::json::<J>())
        .map(|pid: String, body: J| {
            let n = body["events"].as_array().map(|a| a.len()).unwrap_or(0);
            BATCHLOG.lock().unwrap().push((pid, body));
            warp::reply::with_status(warp::reply::json(&json!({"accepted": n, "output_events": []})), warp::http::StatusCode::OK)
        });
    let (addr, fut) = {
        let _g = rt.enter();
        warp::serve(deploy.or(batch)).bind_ephemeral(([127, 0, 0, 1], 0))
    };
    rt.spawn(fut);
    PORT.set(addr.port()).unwrap();
}

pub fn wname(id: u64) -> String {
    format!("w{}", id)
}
pub fn wnum(id: &WorkerId) -> u64 {
    id.0[1..].parse().unwrap()
}
/// "p<l>" -> 16*l ; "p<l>#k" -> 16*l + k + 1
pub fn pcode(name: &str) -> u64 {
    let body = &name[1..];
    match body.split_once('#') {
        Some((l, k)) => 16 * l.parse::<u64>().unwrap() + k.parse::<u64>().unwrap() + 1,
        None => 16 * body.parse::<u64>().unwrap(),
    }
}
pub fn pname(code: u64) -> String {
    if code % 16 == 0 {
        format!("p{}", code / 16)
    } else {
        format!("p{}#{}", code / 16, code % 16 - 1)
    }
}

enum Pending {
    D(DeployGroupPlan),
    T(TeardownPlan),
    M(MigratePipelinePlan),
}

struct Sys {
    c: Coordinator,
    pend: Vec<Option<Pending>>,
    gids: Vec<String>,
    gidx: HashMap<String, usize>,
    anchor: Instant,
}

impl Sys {
    fn gid(&self, g: u64) -> String {
        self.gids.get(g as usize).cloned().unwrap_or_else(|| format!("no-such-group-{}", g))
    }
    fn settle(&mut self) {
        settle(&mut self.c, &mut self.anchor)
    }
    fn word(&self) -> Vec<u64> {
        word_of(&self.c)
    }
    fn pord(&self) -> Vec<(u64, u64)> {
        pord_of(&self.c, &self.gidx)
    }
    fn state(&self) -> J {
        state_of(&self.c, &self.gidx)
    }
}

/// Virtual clock bookkeeping.  `anchor` is the instant at which every `last_heartbeat` was last a whole
/// number of units old.  Wall-clock time that passed since then (the operation's own duration: HTTP
/// round trips to the stub, scheduling delays on a loaded machine) is given back to every worker, so an
/// operation takes zero virtual time however long it really took; a heartbeat / registration made
/// during the operation ends up with age 0.  Then the ages are rounded to whole units again.
pub fn settle(c: &mut Coordinator, anchor: &mut Instant) {
    let now = Instant::now();
    let passed = now.saturating_duration_since(*anchor);
    for w in c.workers.values_mut() {
        let shifted = w.last_heartbeat.checked_add(passed).unwrap_or(now);
        let lh = if shifted > now { now } else { shifted };
        let age = now.saturating_duration_since(lh);
        let k = (age.as_millis() as u64 + UNIT_MS / 2) / UNIT_MS;
        w.last_heartbeat = now.checked_sub(Duration::from_millis(k * UNIT_MS)).expect("machine uptime too small for the virtual clock");
    }
    *anchor = now;
}

pub fn word_of(c: &Coordinator) -> Vec<u64> {
    c.workers.keys().map(wnum).collect()
}

pub fn pord_of(c: &Coordinator, gidx: &HashMap<String, usize>) -> Vec<(u64, u64)> {
    let mut v = Vec::new();
    for (gid, g) in &c.pipeline_groups {
        for (pn, _) in &g.placements {
            v.push((gidx[gid] as u64, pcode(pn)));
        }
    }
    v
}

pub fn state_of(c: &Coordinator, gidx: &HashMap<String, usize>) -> J {
    let now = Instant::now();
    let mut ws: Vec<(u64, J)> = c
        .workers
        .iter()
        .map(|(id, w)| {
            let age = (now.saturating_duration_since(w.last_heartbeat).as_millis() as u64 + UNIT_MS / 2) / UNIT_MS;
            let st = match w.status {
                WorkerStatus::Registering => "G",
                WorkerStatus::Ready => "R",
                WorkerStatus::Unhealthy => "U",
                WorkerStatus::Draining => "D",
            };
            (
                wnum(id),
                json!({"id": wnum(id), "idfield": wnum(&w.id), "st": st, "run": w.capacity.pipelines_running, "max": w.capacity.max_pipelines,
                       "cores": w.capacity.cpu_cores, "asg": w.assigned_pipelines.iter().map(|p| pcode(p)).collect::<Vec<_>>(), "age": age,
                       "available": w.is_available()}),
            )
        })
        .collect();
    ws.sort_by_key(|x| x.0);
    let mut gs: Vec<(usize, J)> = c
        .pipeline_groups
        .iter()
        .map(|(gid, g)| {
            let st = match g.status {
                GroupStatus::Deploying => "D",
                GroupStatus::Running => "R",
                GroupStatus::PartiallyRunning => "P",
                GroupStatus::Failed => "F",
                GroupStatus::TornDown => "T",
            };
            let mut pls: Vec<(u64, J)> = g
                .placements
                .iter()
                .map(|(pn, d)| {
                    let ds = match d.status {
                        PipelineDeploymentStatus::Running => "R",
                        PipelineDeploymentStatus::Failed => "F",
                        PipelineDeploymentStatus::Deploying => "D",
                        PipelineDeploymentStatus::Stopped => "S",
                    };
                    (pcode(pn), json!({"name": pcode(pn), "w": wnum(&d.worker_id), "st": ds, "hasid": !d.pipeline_id.is_empty(), "epoch": d.epoch}))
                })
                .collect();
            pls.sort_by_key(|x| x.0);
            let i = gidx[gid];
            (i, json!({"g": i, "idfield_ok": g.id == *gid, "st": st, "pl": pls.into_iter().map(|x| x.1).collect::<Vec<_>>()}))
        })
        .collect();
    gs.sort_by_key(|x| x.0);
    json!({"workers": ws.into_iter().map(|x| x.1).collect::<Vec<_>>(), "groups": gs.into_iter().map(|x| x.1).collect::<Vec<_>>()})
}

pub fn bools(v: &J) -> Vec<bool> {
    v.as_array().map(|a| a.iter().map(|b| b.as_bool().unwrap()).collect()).unwrap_or_default()
}

pub fn set_script(v: &J) {
    let mut s = SCRIPT.lock().unwrap();
    s.clear();
    s.extend(bools(v));
}

pub fn spec_of(v: &J) -> PipelineGroupSpec {
    PipelineGroupSpec {
        name: "grp".into(),
        pipelines: v
            .as_array()
            .unwrap()
            .iter()
            .map(|p| PipelinePlacement {
                name: format!("p{}", p[0].as_u64().unwrap()),
                source: "stream X = Y".into(),
                worker_affinity: p[1].as_u64().map(wname),
                replicas: p[2].as_u64().unwrap() as usize,
                partition_key: None,
            })
            .collect(),
        routes: vec![],
    }
}

fn err_str(e: &ClusterError) -> String {
    match e {
        ClusterError::NoWorkersAvailable => "err:noworkers".into(),
        ClusterError::WorkerNotFound(_) => "err:noworker".into(),
        ClusterError::GroupNotFound(_) => "err:nogroup".into(),
        ClusterError::MigrationFailed(m) if m.contains("not available") => "err:unavailable".into(),
        ClusterError::MigrationFailed(m) if m.contains("not found") => "err:migration".into(),
        ClusterError::MigrationFailed(_) => "b0".into(),
        other => format!("err:other:{}", other),
    }
}

fn run_coord(req: &J) -> J {
    let rt = RT.get().unwrap();
    let port = *PORT.get().unwrap();
    let addr = format!("http://127.0.0.1:{}", port);
    let timeout = req["timeout"].as_u64().unwrap();
    let mut c = Coordinator::new();
    c.heartbeat_timeout = Duration::from_millis(timeout * UNIT_MS + UNIT_MS / 2);
    let mut s = Sys { c, pend: Vec::new(), gids: Vec::new(), gidx: HashMap::new(), anchor: Instant::now() };
    let mut steps = Vec::new();
    for op in req["ops"].as_array().unwrap() {
        let o = op.as_array().unwrap();
        let name = o[0].as_str().unwrap();
        let n = |k: usize| o[k].as_u64().unwrap();
        s.settle();
        let word = s.word();
        let pord = s.pord();
        let mut hb_n: Option<usize> = None;
        let res: String = match name {
            "register" => {
                let node = WorkerNode {
                    id: WorkerId(wname(n(1))),
                    address: addr.clone(),
                    api_key: "k".into(),
                    status: WorkerStatus::Registering,
                    capacity: WorkerCapacity { cpu_cores: n(2) as usize, pipelines_running: n(4) as usize, max_pipelines: n(3) as usize },
                    last_heartbeat: Instant::now(),
                    assigned_pipelines: Vec::new(),
                    events_processed: 0,
                };
                s.c.register_worker(node);
                "ok".into()
            }
            "deregister" => match s.c.deregister_worker(&WorkerId(wname(n(1)))) {
                Ok(()) => "b1".into(),
                Err(ClusterError::WorkerNotFound(_)) => "b0".into(),
                Err(e) => err_str(&e),
            },
            "heartbeat" => {
                let cur = s.c.workers.get(&WorkerId(wname(n(1)))).map(|w| w.capacity.pipelines_running).unwrap_or(0);
                let cnt = o[2].as_u64().map(|x| x as usize).unwrap_or(cur);
                hb_n = Some(cnt);
                let hb = HeartbeatRequest { events_processed: 0, pipelines_running: cnt, pipeline_metrics: vec![] };
                match s.c.heartbeat(&WorkerId(wname(n(1))), &hb) {
                    Ok(()) => "b1".into(),
                    Err(ClusterError::WorkerNotFound(_)) => "b0".into(),
                    Err(e) => err_str(&e),
                }
            }
            "advance" => {
                let d = Duration::from_millis(n(1) * UNIT_MS);
                for w in s.c.workers.values_mut() {
                    w.last_heartbeat = w.last_heartbeat.checked_sub(d).expect("machine uptime too small for the virtual clock");
                }
                "ok".into()
            }
            "set_status" => {
                // a status written from outside the operations under test (sync_from_raft, k8s pod watcher): public field
                if let Some(w) = s.c.workers.get_mut(&WorkerId(wname(n(1)))) {
                    w.status = match o[2].as_str().unwrap() {
                        "G" => WorkerStatus::Registering,
                        "R" => WorkerStatus::Ready,
                        "U" => WorkerStatus::Unhealthy,
                        _ => WorkerStatus::Draining,
                    };
                }
                "ok".into()
            }
            "sweep" => {
                let r = s.c.health_sweep();
                let mut ids: Vec<u64> = r.workers_marked_unhealthy.iter().map(wnum).collect();
                ids.sort();
                format!("sweep:{}", ids.iter().map(|x| x.to_string()).collect::<Vec<_>>().join("."))
            }
            "plan_deploy" => match s.c.plan_deploy_group(&spec_of(&o[1])) {
                Ok(plan) => {
                    let k = s.pend.len();
                    let ts: Vec<String> = plan.tasks.iter().map(|t| format!("{}@{}", pcode(&t.replica_name), wnum(&t.worker_id))).collect();
                    s.pend.push(Some(Pending::D(plan)));
                    format!("plan{}:{}", k, ts.join("/"))
                }
                Err(e) => {
                    s.pend.push(None);
                    err_str(&e)
                }
            },
            "commit_deploy" => {
                let k = n(1) as usize;
                let is = matches!(s.pend.get(k), Some(Some(Pending::D(_))));
                if !is {
                    "noplan".into()
                } else {
                    let plan = match s.pend[k].take() {
                        Some(Pending::D(p)) => p,
                        _ => unreachable!(),
                    };
                    let outs = bools(&o[2]);
                    // what execute_deploy_plan returns: one result per task, in task order
                    let results: Vec<DeployTaskResult> = plan
                        .tasks
                        .iter()
                        .zip(outs.iter())
                        .map(|(t, ok)| {
                            let mut idn = NEXT_ID.lock().unwrap();
                            *idn += 1;
                            DeployTaskResult {
                                replica_name: t.replica_name.clone(),
                                pipeline_name: t.pipeline_name.clone(),
                                worker_id: t.worker_id.clone(),
                                worker_address: t.worker_address.clone(),
                                worker_api_key: t.worker_api_key.clone(),
                                replica_count: t.replica_count,
                                outcome: if *ok {
                                    Ok(DeployResponse { id: format!("id{}", *idn), name: t.replica_name.clone(), status: "running".into() })
                                } else {
                                    Err("scripted failure".into())
                                },
                            }
                        })
                        .collect();
                    match s.c.commit_deploy_group(plan, results) {
                        Ok(gid) => {
                            let i = s.gids.len();
                            s.gids.push(gid.clone());
                            s.gidx.insert(gid, i);
                            format!("g{}", i)
                        }
                        Err(e) => err_str(&e),
                    }
                }
            }
            "plan_teardown" => match s.c.plan_teardown_group(&s.gid(n(1))) {
                Ok(plan) => {
                    let k = s.pend.len();
                    let mut names: Vec<u64> = plan.tasks.iter().map(|(nm, _)| pcode(nm)).collect();
                    names.sort();
                    s.pend.push(Some(Pending::T(plan)));
                    format!("plan{}:{}", k, names.iter().map(|x| x.to_string()).collect::<Vec<_>>().join("/"))
                }
                Err(e) => {
                    s.pend.push(None);
                    err_str(&e)
                }
            },
            "commit_teardown" => {
                let k = n(1) as usize;
                if let Some(Some(Pending::T(_))) = s.pend.get(k) {
                    if let Some(Pending::T(plan)) = s.pend[k].take() {
                        s.c.commit_teardown_group(&plan);
                    }
                    "ok".into()
                } else {
                    "noplan".into()
                }
            }
            "plan_migrate" => match s.c.plan_migrate_pipeline(&pname(n(1)), &s.gid(n(2)), &WorkerId(wname(n(3))), MigrationReason::Manual) {
                Ok(plan) => {
                    let k = s.pend.len();
                    let r = format!("plan{}:{}>{}", k, wnum(&plan.source_worker_id), wnum(&plan.target_worker_id));
                    s.pend.push(Some(Pending::M(plan)));
                    r
                }
                Err(e) => {
                    s.pend.push(None);
                    err_str(&e)
                }
            },
            "commit_migrate" => {
                let k = n(1) as usize;
                if let Some(Some(Pending::M(_))) = s.pend.get(k) {
                    let plan = match s.pend[k].take() {
                        Some(Pending::M(p)) => p,
                        _ => unreachable!(),
                    };
                    let ok = o[2].as_bool().unwrap();
                    let mid = if ok {
                        let mut idn = NEXT_ID.lock().unwrap();
                        *idn += 1;
                        s.c.commit_migrate_pipeline(&plan, &format!("id{}", *idn), true, None)
                    } else {
                        s.c.commit_migrate_pipeline(&plan, "", false, Some("scripted failure".into()))
                    };
                    match s.c.active_migrations.get(&mid).map(|t| t.status.clone()) {
                        Some(MigrationStatus::Completed) => "b1".into(),
                        Some(MigrationStatus::Failed(_)) => "b0".into(),
                        other => format!("err:other:migration status {:?}", other),
                    }
                } else {
                    "noplan".into()
                }
            }
            "migrate" => {
                set_script(&json!([o[4]]));
                match rt.block_on(s.c.migrate_pipeline(&pname(n(1)), &s.gid(n(2)), &WorkerId(wname(n(3))), MigrationReason::Manual)) {
                    Ok(_) => "b1".into(),
                    Err(e) => err_str(&e),
                }
            }
            "failover" => {
                set_script(&o[2]);
                let rs = rt.block_on(s.c.handle_worker_failure(&WorkerId(wname(n(1)))));
                let mut out = String::from("evac:");
                for r in rs {
                    out.push(match r {
                        Ok(_) => '1',
                        Err(ClusterError::NoWorkersAvailable) => '-',
                        Err(_) => '0',
                    });
                }
                out
            }
            "drain" => {
                set_script(&o[2]);
                match rt.block_on(s.c.drain_worker(&WorkerId(wname(n(1))), None)) {
                    Ok(ids) => format!("drain:{}", ids.len()),
                    Err(e) => err_str(&e),
                }
            }
            "rebalance" => {
                set_script(&o[1]);
                match rt.block_on(s.c.rebalance()) {
                    Ok(ids) => format!("moves:{}", ids.len()),
                    Err(e) => err_str(&e),
                }
            }
            _ => panic!("bad op {}", name),
        };
        s.settle();
        steps.push(json!({"word": word, "pord": pord, "res": res, "hb_n": hb_n, "state": s.state()}));
    }
    json!({ "steps": steps })
}

fn main() {
    for v in ["http_proxy", "https_proxy", "HTTP_PROXY", "HTTPS_PROXY", "all_proxy", "ALL_PROXY"] {
        std::env::remove_var(v);
    }
    std::env::set_var("NO_PROXY", "127.0.0.1,localhost");
    RT.set(tokio::runtime::Builder::new_multi_thread().worker_threads(2).enable_all().build().unwrap()).ok();
    start_stub();
    vp_common::serve(|req| match req["kind"].as_str() {
        Some("coord") if req["via"].as_str() == Some("api") => api_mode::run_coord_api(req),
        Some("coord") => run_coord(req),
        Some("route") => route::run_route(req),
        Some("hash") => route::run_hash(req),
        _ => json!({"error": "bad kind"}),
    });
}
