//! The same histories as `run_coord`, but every operation that has a REST endpoint goes through
//! `varpulis_cluster::cluster_routes` (warp::test, in-process): register, heartbeat, delete worker,
//! deploy group, tear down group, manual migrate, drain, rebalance.  The handlers run their own
//! plan / execute / commit phases; the execute phase talks to the loopback worker stub whose
//! deploy outcomes are scripted per request.  Sweep, failover (health loop of the CLI), clock and
//! outside status writes act on the shared coordinator directly.
//!
//! ops: ["register",w,cores,max,run0] ["deregister",w] ["heartbeat",w,n|null] ["advance",d] ["sweep"]
//!      ["set_status",w,st] ["deploy",spec,[outs]] ["teardown",g] ["manual_migrate",p,g,t,ok]
//!      ["failover",w,[outs]] ["drain",w,[outs]] ["rebalance",[outs]]
use crate::{pname, pord_of, settle, set_script, state_of, wname, wnum, word_of, PORT, RT, UNIT_MS};
use serde_json::{json, Value as J};
use std::collections::HashMap;
use std::sync::Arc;
use std::time::Duration;
use varpulis_cluster::rbac::RbacConfig;
use varpulis_cluster::worker::{WorkerId, WorkerStatus};
use varpulis_cluster::{cluster_routes, shared_coordinator, ClusterError};

fn err_of(body: &J) -> String {
    let code = body["code"].as_str().unwrap_or("");
    let msg = body["error"].as_str().unwrap_or("");
    match code {
        "no_workers_available" => "err:noworkers".into(),
        "worker_not_found" => "err:noworker".into(),
        "group_not_found" => "err:nogroup".into(),
        "migration_failed" if msg.contains("not available") => "err:unavailable".into(),
        "migration_failed" if msg.contains("not found") => "err:migration".into(),
        "migration_failed" => "b0".into(),
        _ => format!("err:other:{}:{}", code, msg),
    }
}

pub fn run_coord_api(req: &J) -> J {
    let rt = RT.get().unwrap();
    let addr = format!("http://127.0.0.1:{}", PORT.get().unwrap());
    let timeout = req["timeout"].as_u64().unwrap();
    let shared = shared_coordinator();
    rt.block_on(async {
        shared.write().await.heartbeat_timeout = Duration::from_millis(timeout * UNIT_MS + UNIT_MS / 2);
    });
    let routes = cluster_routes(shared.clone(), Arc::new(RbacConfig::disabled()), None);
    let mut gids: Vec<String> = Vec::new();
    let mut gidx: HashMap<String, usize> = HashMap::new();
    let mut steps = Vec::new();
    let mut anchor = std::time::Instant::now();

    let call = |method: &str, path: String, body: Option<J>| -> (u16, J) {
        rt.block_on(async {
            let mut r = warp::test::request().method(method).path(&path);
            if let Some(b) = &body {
                r = r.json(b);
            }
            let resp = r.reply(&routes).await;
            let v: J = serde_json::from_slice(resp.body()).unwrap_or(J::Null);
            (resp.status().as_u16(), v)
        })
    };

    for op in req["ops"].as_array().unwrap() {
        let o = op.as_array().unwrap();
        let name = o[0].as_str().unwrap();
        let n = |k: usize| o[k].as_u64().unwrap();
        let (word, pord) = rt.block_on(async {
            let mut c = shared.write().await;
            settle(&mut c, &mut anchor);
            (word_of(&c), pord_of(&c, &gidx))
        });
        let gid_of = |g: u64| gids.get(g as usize).cloned().unwrap_or_else(|| format!("no-such-group-{}", g));
        let mut hb_n: Option<usize> = None;
        let res: String = match name {
            "register" => {
                let (st, b) = call(
                    "POST",
                    "/api/v1/cluster/workers/register".into(),
                    Some(json!({"worker_id": wname(n(1)), "address": addr, "api_key": "k",
                                "capacity": {"cpu_cores": n(2), "pipelines_running": n(4), "max_pipelines": n(3)}})),
                );
                if st == 201 {
                    "ok".into()
                } else {
                    format!("err:other:{}:{}", st, b)
                }
            }
            "deregister" => {
                let (st, b) = call("DELETE", format!("/api/v1/cluster/workers/{}", wname(n(1))), None);
                match st {
                    200 => "b1".into(),
                    404 => "b0".into(),
                    _ => format!("err:other:{}:{}", st, b),
                }
            }
            "heartbeat" => {
                let cur = rt.block_on(async { shared.read().await.workers.get(&WorkerId(wname(n(1)))).map(|w| w.capacity.pipelines_running).unwrap_or(0) });
                let cnt = o[2].as_u64().map(|x| x as usize).unwrap_or(cur);
                hb_n = Some(cnt);
                let (st, b) = call(
                    "POST",
                    format!("/api/v1/cluster/workers/{}/heartbeat", wname(n(1))),
                    Some(json!({"events_processed": 0, "pipelines_running": cnt, "pipeline_metrics": []})),
                );
                match st {
                    200 => "b1".into(),
                    404 => "b0".into(),
                    _ => format!("err:other:{}:{}", st, b),
                }
            }
            "advance" => {
                let d = Duration::from_millis(n(1) * UNIT_MS);
                rt.block_on(async {
                    for w in shared.write().await.workers.values_mut() {
                        w.last_heartbeat = w.last_heartbeat.checked_sub(d).expect("machine uptime too small for the virtual clock");
                    }
                });
                "ok".into()
            }
            "sweep" => {
                let r = rt.block_on(async { shared.write().await.health_sweep() });
                let mut ids: Vec<u64> = r.workers_marked_unhealthy.iter().map(wnum).collect();
                ids.sort();
                format!("sweep:{}", ids.iter().map(|x| x.to_string()).collect::<Vec<_>>().join("."))
            }
            "set_status" => {
                rt.block_on(async {
                    if let Some(w) = shared.write().await.workers.get_mut(&WorkerId(wname(n(1)))) {
                        w.status = match o[2].as_str().unwrap() {
                            "G" => WorkerStatus::Registering,
                            "R" => WorkerStatus::Ready,
                            "U" => WorkerStatus::Unhealthy,
                            _ => WorkerStatus::Draining,
                        };
                    }
                });
                "ok".into()
            }
            "deploy" => {
                set_script(&o[2]);
                let before: Vec<String> = rt.block_on(async { shared.read().await.pipeline_groups.keys().cloned().collect() });
                let spec = crate::spec_of(&o[1]);
                let (st, b) = call("POST", "/api/v1/cluster/pipeline-groups".into(), Some(serde_json::to_value(&spec).unwrap()));
                let after: Vec<String> = rt.block_on(async { shared.read().await.pipeline_groups.keys().cloned().collect() });
                let new: Vec<&String> = after.iter().filter(|k| !before.contains(k)).collect();
                if let Some(g) = new.first() {
                    let i = gids.len();
                    gids.push((*g).clone());
                    gidx.insert((*g).clone(), i);
                    format!("g{}", i)
                } else if st >= 400 {
                    err_of(&b)
                } else {
                    format!("err:other:{}:{}", st, b)
                }
            }
            "teardown" => {
                let (st, b) = call("DELETE", format!("/api/v1/cluster/pipeline-groups/{}", gid_of(n(1))), None);
                if st == 200 {
                    "ok".into()
                } else {
                    err_of(&b)
                }
            }
            "manual_migrate" => {
                set_script(&json!([o[4]]));
                let (st, b) = call(
                    "POST",
                    format!("/api/v1/cluster/pipelines/{}/{}/migrate", gid_of(n(2)), pname(n(1))),
                    Some(json!({"target_worker_id": wname(n(3))})),
                );
                if st == 202 {
                    "b1".into()
                } else {
                    err_of(&b)
                }
            }
            "failover" => {
                set_script(&o[2]);
                let rs = rt.block_on(async { shared.write().await.handle_worker_failure(&WorkerId(wname(n(1)))).await });
                let mut out = String::from("evac:");
                for r in rs {
                    out.push(match r {
                        Ok(_) => '1',
                        Err(ClusterError::NoWorkersAvailable) => '-',
                        Err(_) => '0',
                    });
                }
                out
            }
            "drain" => {
                set_script(&o[2]);
                let (st, b) = call("POST", format!("/api/v1/cluster/workers/{}/drain", wname(n(1))), Some(json!({"timeout_secs": null})));
                if st == 200 {
                    format!("drain:{}", b["pipelines_migrated"])
                } else {
                    err_of(&b)
                }
            }
            "rebalance" => {
                set_script(&o[1]);
                let (st, b) = call("POST", "/api/v1/cluster/rebalance".into(), None);
                if st == 200 {
                    format!("moves:{}", b["migrations_started"])
                } else {
                    err_of(&b)
                }
            }
            _ => panic!("bad op {}", name),
        };
        let state = rt.block_on(async {
            let mut c = shared.write().await;
            settle(&mut c, &mut anchor);
            state_of(&c, &gidx)
        });
        steps.push(json!({"word": word, "pord": pord, "res": res, "hb_n": hb_n, "state": state}));
    }
    json!({ "steps": steps })
}
