//! C34: routing of injected events to pipelines and replicas, single and batch path.
//!
//! Request: {"kind":"route","pipelines":[[l,replicas,key|null],..],"routes":[[to_l,[patterns..]],..],
//!           "outcomes":[bool per deploy task],
//!           "events":[{"single":{"type":T,"fields":{..}}} | {"batch":"<events text>","seqs":[..]}]}
//! Every event carries a field "seq" (unique number) so that batch deliveries can be attributed.
//! Answer: {"results":[ "t<code>" | "nd<code>" | "nt" | {"targets":{"<seq>":code,..},"errors":[codes]} ]}
//! {"kind":"hash","s":"..."} -> {"hash":"<DefaultHasher of the str>"}  (pins the SipHash model)
use crate::{pcode, wname, BATCHLOG, NEXT_ID, PORT, RT};
use serde_json::{json, Value as J};
use std::hash::{Hash, Hasher};
use std::time::Instant;
use varpulis_cluster::coordinator::{Coordinator, DeployResponse, DeployTaskResult, InjectBatchRequest, InjectEventRequest};
use varpulis_cluster::pipeline_group::{InterPipelineRoute, PipelineGroupSpec, PipelinePlacement};
use varpulis_cluster::worker::{WorkerCapacity, WorkerId, WorkerNode, WorkerStatus};
use varpulis_cluster::ClusterError;

pub fn run_hash(req: &J) -> J {
    let s = req["s"].as_str().unwrap().to_string();
    let mut h = std::collections::hash_map::DefaultHasher::new();
    s.hash(&mut h);
    json!({"hash": h.finish().to_string()})
}

fn not_deployed_name(msg: &str) -> Option<String> {
    // "Pipeline '<name>' not deployed"
    let a = msg.find("Pipeline '")? + 10;
    let b = msg[a..].find('\'')? + a;
    if msg[b..].contains("not deployed") {
        Some(msg[a..b].to_string())
    } else {
        None
    }
}

pub fn run_route(req: &J) -> J {
    let rt = RT.get().unwrap();
    let addr = format!("http://127.0.0.1:{}", PORT.get().unwrap());
    let mut c = Coordinator::new();
    for id in 1..=2u64 {
        c.register_worker(WorkerNode {
            id: WorkerId(wname(id)),
            address: addr.clone(),
            api_key: "k".into(),
            status: WorkerStatus::Registering,
            capacity: WorkerCapacity { cpu_cores: 4, pipelines_running: 0, max_pipelines: 1000 },
            last_heartbeat: Instant::now(),
            assigned_pipelines: Vec::new(),
            events_processed: 0,
        });
    }
    let spec = PipelineGroupSpec {
        name: "grp".into(),
        pipelines: req["pipelines"]
            .as_array()
            .unwrap()
            .iter()
            .map(|p| PipelinePlacement {
                name: format!("p{}", p[0].as_u64().unwrap()),
                source: "stream X = Y".into(),
                worker_affinity: None,
                replicas: p[1].as_u64().unwrap() as usize,
                partition_key: p[2].as_str().map(|s| s.to_string()),
            })
            .collect(),
        routes: req["routes"]
            .as_array()
            .unwrap()
            .iter()
            .map(|r| InterPipelineRoute {
                from_pipeline: "src".into(),
                to_pipeline: format!("p{}", r[0].as_u64().unwrap()),
                event_types: r[1].as_array().unwrap().iter().map(|s| s.as_str().unwrap().to_string()).collect(),
                nats_subject: None,
            })
            .collect(),
    };
    let plan = c.plan_deploy_group(&spec).expect("plan");
    let outs: Vec<bool> = req["outcomes"].as_array().unwrap().iter().map(|b| b.as_bool().unwrap()).collect();
    let results: Vec<DeployTaskResult> = plan
        .tasks
        .iter()
        .enumerate()
        .map(|(i, t)| {
            let ok = outs.get(i).copied().unwrap_or(true);
            let mut idn = NEXT_ID.lock().unwrap();
            *idn += 1;
            DeployTaskResult {
                replica_name: t.replica_name.clone(),
                pipeline_name: t.pipeline_name.clone(),
                worker_id: t.worker_id.clone(),
                worker_address: t.worker_address.clone(),
                worker_api_key: t.worker_api_key.clone(),
                replica_count: t.replica_count,
                outcome: if ok { Ok(DeployResponse { id: format!("id{}", *idn), name: t.replica_name.clone(), status: "running".into() }) } else { Err("scripted".into()) },
            }
        })
        .collect();
    let gid = c.commit_deploy_group(plan, results).expect("commit");
    // Observation channel only: a failed placement has an empty pipeline id, so its delivery URL
    // would be the same for all of them; give each a distinct id so the stub can attribute deliveries.
    if let Some(g) = c.pipeline_groups.get_mut(&gid) {
        for (name, d) in g.placements.iter_mut() {
            if d.pipeline_id.is_empty() {
                d.pipeline_id = format!("failed-{}", name.replace('#', "_"));
            }
        }
    }
    let mut out = Vec::new();
    for ev in req["events"].as_array().unwrap() {
        if let Some(s) = ev.get("single") {
            let reqv = InjectEventRequest {
                event_type: s["type"].as_str().unwrap().to_string(),
                fields: s["fields"].as_object().cloned().unwrap_or_default(),
            };
            out.push(match c.resolve_inject_target(&gid, &reqv) {
                Ok(t) => json!(format!("t{}", pcode(&t.target_name))),
                Err(ClusterError::RoutingFailed(m)) => match not_deployed_name(&m) {
                    Some(n) => json!(format!("nd{}", pcode(&n))),
                    None => json!("nt"),
                },
                Err(e) => json!(format!("err:{}", e)),
            });
        } else {
            BATCHLOG.lock().unwrap().clear();
            let text = ev["batch"].as_str().unwrap().to_string();
            let resp = rt.block_on(c.inject_batch(&gid, InjectBatchRequest { events_text: text }));
            match resp {
                Ok(r) => {
                    let id2name: std::collections::HashMap<String, String> =
                        c.pipeline_groups[&gid].placements.iter().map(|(n, d)| (d.pipeline_id.clone(), n.clone())).collect();
                    let mut targets = serde_json::Map::new();
                    for (pid, body) in BATCHLOG.lock().unwrap().iter() {
                        let name = id2name.get(pid).cloned().unwrap_or_else(|| format!("?{}", pid));
                        for e in body["events"].as_array().cloned().unwrap_or_default() {
                            let seq = e["fields"]["seq"].to_string();
                            targets.insert(seq, json!({"t": pcode_or(&name), "type": e["event_type"], "fields": e["fields"]}));
                        }
                    }
                    let mut errs: Vec<u64> = r.errors.iter().filter_map(|m| not_deployed_name(m)).map(|n| pcode_or(&n)).collect();
                    errs.sort();
                    out.push(json!({"targets": targets, "errors": errs, "raw_errors": r.errors, "sent": r.events_sent, "failed": r.events_failed}));
                }
                Err(e) => out.push(json!(format!("err:{}", e))),
            }
        }
    }
    json!({ "results": out })
}

fn pcode_or(name: &str) -> u64 {
    if name.starts_with('p') && name[1..].chars().all(|c| c.is_ascii_digit() || c == '#') {
        pcode(name)
    } else {
        999_999
    }
}
