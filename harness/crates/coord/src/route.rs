//! C34 (filled in below)
use serde_json::{json, Value as J};
pub fn run_route(_req: &J) -> J {
    json!({"error": "todo"})
}
