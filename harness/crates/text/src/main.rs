//! Harness for the text-processing properties C46 / C39 / C42.
//! One JSON request per stdin line, dispatched on "kind":
//!   {"kind":"eventfile","text":"..."}            both event-file readers on an in-memory file
//!   {"kind":"eventfile","bytes":[..]}            same through parse_file / from_file on a temp file (any bytes)
//!   {"kind":"eventfile","parts":[["lit","..."],["rep","x",N],..]}   text assembled from parts (huge lines)
//!   {"kind":"evline","text":"..."}               the shared event-line parser on one (trimmed) event text
//!   {"kind":"connector","connectors":[{"name","type","params":[[k,v],..]}],"source":"..."}
//!   {"kind":"expand","source":"..."}             expand_declaration_loops
//!   {"kind":"parse","source":"..."}              varpulis_parser::parse, AST without spans
use serde_json::{json, Value as J};
use std::collections::HashMap;
use std::io::Write;
use varpulis_cluster::connector_config::{
    find_missing_connectors, inject_connectors, validate_connector, ClusterConnector,
};
use varpulis_core::ast::{ConfigValue, Stmt};
use varpulis_runtime::event::Event;
use varpulis_runtime::event_file::{EventFileParser, StreamingEventReader};

fn ev_json(e: &Event) -> J {
    json!({
        "type": &*e.event_type,
        "fields": e.data.iter().map(|(k, v)| json!([&**k, vp_common::value_to_json(v)])).collect::<Vec<_>>()
    })
}

fn guard<F: FnOnce() -> J + std::panic::UnwindSafe>(f: F) -> J {
    match std::panic::catch_unwind(f) {
        Ok(v) => v,
        Err(e) => {
            let msg = e
                .downcast_ref::<String>()
                .cloned()
                .or_else(|| e.downcast_ref::<&str>().map(|s| s.to_string()))
                .unwrap_or_default();
            json!({ "panic": msg })
        }
    }
}

fn preload_str(text: &str) -> J {
    match EventFileParser::parse(text) {
        Ok(evs) => json!({"ok": evs.iter().map(|t| json!({"off": t.time_offset_ms.to_string(), "ev": ev_json(&t.event)})).collect::<Vec<_>>()}),
        Err(e) => json!({ "err": e }),
    }
}

fn stream_reader<R: std::io::BufRead>(r: StreamingEventReader<R>) -> J {
    // what `varpulis simulate --immediate` does: stop at the first Err and report it
    let mut evs = Vec::new();
    for item in r {
        match item {
            Ok(e) => evs.push(json!({"ev": ev_json(&e)})),
            Err(e) => return json!({ "err": e, "before": evs.len() }),
        }
    }
    json!({ "ok": evs })
}

fn eventfile(req: &J) -> J {
    if let Some(bytes) = req.get("bytes").and_then(|b| b.as_array()) {
        let bytes: Vec<u8> = bytes.iter().map(|b| b.as_u64().unwrap() as u8).collect();
        let path = std::env::temp_dir().join(format!("vp-text-{}.evt", std::process::id()));
        std::fs::write(&path, &bytes).unwrap();
        let p1 = path.clone();
        let pre = guard(move || match EventFileParser::parse_file(&p1) {
            Ok(f) => json!({"ok": f.events.iter().map(|t| json!({"off": t.time_offset_ms.to_string(), "ev": ev_json(&t.event)})).collect::<Vec<_>>()}),
            Err(e) => json!({ "err": e }),
        });
        let p2 = path.clone();
        let st = guard(move || match StreamingEventReader::from_file(&p2) {
            Ok(r) => stream_reader(r),
            Err(e) => json!({ "err": e }),
        });
        let _ = std::fs::remove_file(&path);
        return json!({"preload": pre, "stream": st});
    }
    let text: String = if let Some(parts) = req.get("parts").and_then(|p| p.as_array()) {
        let mut s = String::new();
        for p in parts {
            match p[0].as_str().unwrap() {
                "lit" => s.push_str(p[1].as_str().unwrap()),
                "rep" => {
                    let unit = p[1].as_str().unwrap();
                    for _ in 0..p[2].as_u64().unwrap() {
                        s.push_str(unit);
                    }
                }
                _ => panic!("bad part"),
            }
        }
        s
    } else {
        req["text"].as_str().unwrap().to_string()
    };
    let t1 = text.clone();
    let pre = guard(move || preload_str(&t1));
    let t2 = text;
    let st = guard(move || {
        stream_reader(StreamingEventReader::new(std::io::BufReader::new(std::io::Cursor::new(t2.into_bytes()))))
    });
    json!({"preload": pre, "stream": st})
}

/// The event-line parser both readers share (`{`-dispatch + parse_jsonl_line / parse_event_line),
/// reached through the public preload API with a zero timing prefix.
fn evline(req: &J) -> J {
    let text = req["text"].as_str().unwrap();
    let src = format!("@0 {}", text);
    guard(move || match EventFileParser::parse(&src) {
        Ok(evs) if evs.len() == 1 => json!({"ok": ev_json(&evs[0].event)}),
        Ok(evs) => json!({"odd": evs.len()}),
        Err(e) => json!({ "err": e }),
    })
}

fn strip_spans(v: J) -> J {
    match v {
        J::Object(m) => {
            if m.len() == 2 && m.contains_key("node") && m.contains_key("span") {
                return strip_spans(m.get("node").unwrap().clone());
            }
            J::Object(m.into_iter().map(|(k, v)| (k, strip_spans(v))).collect())
        }
        J::Array(a) => J::Array(a.into_iter().map(strip_spans).collect()),
        other => other,
    }
}

fn parse_ast(src: &str) -> J {
    match varpulis_parser::parse(src) {
        Ok(p) => {
            let stmts: Vec<J> = p
                .statements
                .iter()
                .map(|s| strip_spans(serde_json::to_value(&s.node).unwrap_or(json!("unserialisable"))))
                .collect();
            json!({ "ok": stmts })
        }
        Err(e) => json!({ "err": format!("{}", e) }),
    }
}

/// The string the runtime derives from a declared parameter
/// (mirror of varpulis-runtime engine/sink_factory.rs connector_params_to_config).
fn config_value_str(v: &ConfigValue) -> J {
    match v {
        ConfigValue::Str(s) => json!(s),
        ConfigValue::Ident(s) => json!(s),
        ConfigValue::Int(i) => json!(i.to_string()),
        ConfigValue::Float(f) => json!(f.to_string()),
        ConfigValue::Bool(b) => json!(b.to_string()),
        ConfigValue::Duration(d) => json!(format!("{}ns", d)),
        ConfigValue::Array(_) | ConfigValue::Map(_) => J::Null,
    }
}

fn config_value_tag(v: &ConfigValue) -> &'static str {
    match v {
        ConfigValue::Str(_) => "str",
        ConfigValue::Ident(_) => "ident",
        ConfigValue::Int(_) => "int",
        ConfigValue::Float(_) => "float",
        ConfigValue::Bool(_) => "bool",
        ConfigValue::Duration(_) => "duration",
        ConfigValue::Array(_) => "array",
        ConfigValue::Map(_) => "map",
    }
}

fn split_program(src: &str) -> J {
    match varpulis_parser::parse(src) {
        Ok(p) => {
            let mut ds = Vec::new();
            let mut rest = Vec::new();
            for s in &p.statements {
                match &s.node {
                    Stmt::ConnectorDecl { name, connector_type, params } => ds.push(json!({
                        "name": name, "type": connector_type,
                        "params": params.iter().map(|p| json!([p.name, config_value_tag(&p.value), config_value_str(&p.value)])).collect::<Vec<_>>()
                    })),
                    other => rest.push(strip_spans(serde_json::to_value(other).unwrap_or(json!("unserialisable")))),
                }
            }
            json!({"ok": {"decls": ds, "rest": rest}})
        }
        Err(e) => json!({ "err": format!("{}", e) }),
    }
}

fn connector(req: &J) -> J {
    let mut map: HashMap<String, ClusterConnector> = HashMap::new();
    let mut valid = Vec::new();
    let mut decls = Vec::new();
    let mut param_order = Vec::new();
    for c in req["connectors"].as_array().unwrap() {
        let mut params = HashMap::new();
        for kv in c["params"].as_array().unwrap() {
            params.insert(kv[0].as_str().unwrap().to_string(), kv[1].as_str().unwrap().to_string());
        }
        let cc = ClusterConnector {
            name: c["name"].as_str().unwrap().to_string(),
            connector_type: c["type"].as_str().unwrap().to_string(),
            params,
            description: None,
        };
        valid.push(validate_connector(&cc).is_ok());
        decls.push(cc.to_vpl_declaration());
        // iteration order of this HashMap instance (the one to_vpl_declaration walks)
        param_order.push(cc.params.keys().cloned().collect::<Vec<_>>());
        map.insert(cc.name.clone(), cc);
    }
    let conn_order: Vec<String> = map.values().map(|c| c.name.clone()).collect();
    let source = req["source"].as_str().unwrap();
    let missing = find_missing_connectors(source);
    let (injected, nlines) = inject_connectors(source, &map);
    let decl_parsed: Vec<J> = decls.iter().map(|d| split_program(d)).collect();
    json!({"valid": valid, "decls": decls, "param_order": param_order, "conn_order": conn_order, "missing": missing,
           "injected": injected, "nlines": nlines, "decl_parsed": decl_parsed,
           "parsed": split_program(&injected), "orig": split_program(source)})
}

fn main() {
    vp_common::serve(|req| match req["kind"].as_str().unwrap_or("") {
        "eventfile" => eventfile(req),
        "evline" => evline(req),
        "connector" => connector(req),
        "expand" => match varpulis_parser::expand::expand_declaration_loops(req["source"].as_str().unwrap()) {
            Ok(s) => json!({ "ok": s }),
            Err(e) => json!({ "err": e }),
        },
        "parse" => parse_ast(req["source"].as_str().unwrap()),
        k => json!({ "error": format!("unknown kind {}", k) }),
    });
    let _ = std::io::stdout().flush();
}
