//! vp-ctx — drives the real context runtime (crates/varpulis-runtime/src/context.rs) under schedules chosen by the caller.
//!
//! mode "direct": one `ContextRuntime` per declared context is built exactly like
//! `ContextOrchestrator::build_with_checkpoint` builds it inside its thread (bounded tokio mpsc inbox of the requested
//! capacity, engine loaded with `filter_program_for_context`, the routing table taken from a real
//! `ContextOrchestrator::build(..).ingress_routing()`, ack sender of a real `CheckpointCoordinator`), but the
//! `ContextRuntime::run` futures are polled by hand on one thread, so the caller decides the interleaving:
//!   {"k":"ingress","e":[type,id,v]}   try_send of an input event into the inbox its type is routed to ("full": nothing sent)
//!   {"k":"poll","c":name}             poll that context's run() future until it blocks (processes its whole inbox)
//!   {"k":"init"}                      CheckpointCoordinator::initiate (barrier try_send into every inbox)
//!   {"k":"complete"}                  CheckpointCoordinator::try_complete (drain acks, persist when all contexts acked)
//!   {"k":"restore"}                   crash: drop every runtime and channel, recover the latest persisted checkpoint,
//!                                     rebuild every context with Engine::restore_checkpoint of its part
//! After each step the answer records: what arrived on the output channel, every inbox's length, and step results.
//!
//! mode "orch": the real threaded `ContextOrchestrator` (process().await per event, wait for the expected number of outputs).
//! mode "orch_cp": the real threaded orchestrator built by `build_with_checkpoint`: checkpoint after start, events,
//!              checkpoint at rest, shutdown, rebuild from the recovered checkpoint, checkpoint, more events, checkpoint.
//! mode "ref":  the same program text without contexts in one `Engine`.
//! Events are [type, id, v] with integer fields id and v.
use rustc_hash::FxHashMap;
use serde_json::{json, Value as J};
use std::future::Future;
use std::io::{BufRead, Write};
use std::pin::Pin;
use std::sync::atomic::{AtomicBool, Ordering};
use std::sync::Arc;
use std::task::{Context, Poll, Wake, Waker};
use std::time::Duration;
use tokio::sync::{mpsc, watch};
use varpulis_core::ast::Program;
use varpulis_runtime::context::filter_program_for_context;
use varpulis_runtime::event::Event;
use varpulis_runtime::persistence::{Checkpoint, CheckpointConfig, CheckpointManager, MemoryStore, StateStore};
use varpulis_runtime::{CheckpointCoordinator, ContextMap, ContextMessage, ContextOrchestrator, ContextRuntime, Engine};

struct Flag(AtomicBool);
impl Wake for Flag {
    fn wake(self: Arc<Self>) {
        self.0.store(true, Ordering::SeqCst);
    }
    fn wake_by_ref(self: &Arc<Self>) {
        self.0.store(true, Ordering::SeqCst);
    }
}

fn ev_of(j: &J) -> Event {
    Event::new(j[0].as_str().unwrap())
        .with_field("id", j[1].as_i64().unwrap())
        .with_field("v", j[2].as_i64().unwrap())
}
fn ev_json(e: &Event) -> J {
    json!([&*e.event_type, e.get_int("id"), e.get_int("v")])
}

struct Slot {
    name: String,
    fut: Option<Pin<Box<dyn Future<Output = ()>>>>,
    flag: Arc<Flag>,
    done: bool,
}

struct World {
    slots: Vec<Slot>,
    txs: FxHashMap<String, mpsc::Sender<ContextMessage>>,
    out_rx: mpsc::Receiver<Event>,
    coord: Option<CheckpointCoordinator>,
    _shutdown: watch::Sender<bool>,
}

fn cp_config() -> CheckpointConfig {
    CheckpointConfig { interval: Duration::from_secs(3600), max_checkpoints: 100, checkpoint_on_shutdown: false, key_prefix: "vp".into() }
}

/// One poll round of a context: poll its run() future until it returns Pending without having woken itself.
fn poll_slot(s: &mut Slot) -> u32 {
    let mut n = 0;
    if s.done || s.fut.is_none() {
        return 0;
    }
    loop {
        s.flag.0.store(false, Ordering::SeqCst);
        let w = Waker::from(s.flag.clone());
        let mut cx = Context::from_waker(&w);
        n += 1;
        match s.fut.as_mut().unwrap().as_mut().poll(&mut cx) {
            Poll::Ready(()) => {
                s.done = true;
                s.fut = None;
                return n;
            }
            Poll::Pending => {
                if !s.flag.0.load(Ordering::SeqCst) || n > 64 {
                    return n;
                }
            }
        }
    }
}

async fn build_world(
    names: &[String],
    program: &Program,
    cmap: &ContextMap,
    routing: &FxHashMap<String, String>,
    cap: usize,
    store: Arc<dyn StateStore>,
    recovery: Option<&Checkpoint>,
) -> Result<World, String> {
    let (out_tx, out_rx) = mpsc::channel::<Event>(1 << 20);
    let (shutdown_tx, _) = watch::channel(false);
    let mut txs: FxHashMap<String, mpsc::Sender<ContextMessage>> = FxHashMap::default();
    let mut rxs: FxHashMap<String, mpsc::Receiver<ContextMessage>> = FxHashMap::default();
    for n in names {
        let (tx, rx) = mpsc::channel(cap);
        txs.insert(n.clone(), tx);
        rxs.insert(n.clone(), rx);
    }
    let manager = CheckpointManager::new(store, cp_config()).map_err(|e| format!("manager: {}", e))?;
    let coord = CheckpointCoordinator::new(manager, names.to_vec());
    let mut slots = Vec::new();
    for n in names {
        // mirrors the body of the per-context thread in ContextOrchestrator::build_with_checkpoint
        let (eng_tx, eng_rx) = mpsc::channel(1000);
        let mut engine = Engine::new(eng_tx);
        engine.set_context_name(n);
        let filtered = filter_program_for_context(program, n, cmap);
        engine.load(&filtered).map_err(|e| format!("load {}: {}", n, e))?;
        if let Some(cp) = recovery {
            if let Some(ecp) = cp.context_states.get(n) {
                engine.restore_checkpoint(ecp).map_err(|e| format!("restore {}: {}", n, e))?;
            }
        }
        let all: FxHashMap<String, mpsc::Sender<ContextMessage>> = txs.iter().map(|(k, v)| (k.clone(), v.clone())).collect();
        let rt = ContextRuntime::new(
            n.clone(),
            engine,
            out_tx.clone(),
            rxs.remove(n).unwrap(),
            eng_rx,
            all,
            routing.clone(),
            shutdown_tx.subscribe(),
        )
        .with_ack_sender(coord.ack_sender());
        let fut: Pin<Box<dyn Future<Output = ()>>> = Box::pin(tokio::task::unconstrained(async move {
            let mut rt = rt;
            rt.run().await;
        }));
        slots.push(Slot { name: n.clone(), fut: Some(fut), flag: Arc::new(Flag(AtomicBool::new(false))), done: false });
    }
    // warm-up: run() first awaits the immediate first tick of its sweep interval, which needs the time driver to turn
    for _ in 0..200 {
        for s in slots.iter_mut() {
            poll_slot(s);
        }
        tokio::time::sleep(Duration::from_millis(2)).await;
        if slots.iter().all(|s| !s.flag.0.load(Ordering::SeqCst)) {
            break;
        }
    }
    for s in slots.iter_mut() {
        poll_slot(s);
    }
    Ok(World { slots, txs, out_rx, coord: Some(coord), _shutdown: shutdown_tx })
}

/// ContextOrchestrator::shutdown joins the context threads; a context that is blocked for good would hang the harness,
/// so the join is given a deadline and abandoned after it.
fn shutdown_with_deadline(orch: ContextOrchestrator) -> bool {
    let (tx, rx) = std::sync::mpsc::channel();
    std::thread::spawn(move || {
        orch.shutdown();
        let _ = tx.send(());
    });
    rx.recv_timeout(Duration::from_secs(10)).is_ok()
}

fn real_routing(program: &Program, cmap: &ContextMap, cap: usize) -> Result<FxHashMap<String, String>, String> {
    let (tx, _rx) = mpsc::channel::<Event>(16);
    let orch = ContextOrchestrator::build(cmap, program, tx, cap)?;
    let r = orch.ingress_routing().clone();
    shutdown_with_deadline(orch);
    Ok(r)
}

fn load_map(program: &Program) -> Result<ContextMap, String> {
    let (tx, _rx) = mpsc::channel(16);
    let mut e = Engine::new(tx);
    e.load(program)?;
    Ok(e.context_map().clone())
}

fn routing_json(r: &FxHashMap<String, String>) -> J {
    let mut v: Vec<(String, String)> = r.iter().map(|(a, b)| (a.clone(), b.clone())).collect();
    v.sort();
    json!(v)
}

fn direct(req: &J) -> J {
    let program = match varpulis_parser::parse(req["vpl"].as_str().unwrap()) {
        Ok(p) => p,
        Err(e) => return json!({"error": format!("parse: {}", e)}),
    };
    let cmap = match load_map(&program) {
        Ok(m) => m,
        Err(e) => return json!({"error": format!("load: {}", e)}),
    };
    let names: Vec<String> = req["contexts"].as_array().unwrap().iter().map(|x| x.as_str().unwrap().to_string()).collect();
    let cap = req["cap"].as_u64().unwrap() as usize;
    let routing = match real_routing(&program, &cmap, cap) {
        Ok(r) => r,
        Err(e) => return json!({"error": format!("build: {}", e)}),
    };
    let store: Arc<dyn StateStore> = Arc::new(MemoryStore::new());
    let rt = tokio::runtime::Builder::new_current_thread().enable_all().build().unwrap();
    let steps_out = rt.block_on(async {
        let mut w = match build_world(&names, &program, &cmap, &routing, cap, store.clone(), None).await {
            Ok(w) => w,
            Err(e) => return Err(e),
        };
        let mut outs = Vec::new();
        for st in req["steps"].as_array().unwrap() {
            let mut o = serde_json::Map::new();
            match st["k"].as_str().unwrap() {
                "ingress" => {
                    let e = ev_of(&st["e"]);
                    let r = match routing.get(&*e.event_type).and_then(|c| w.txs.get(c)) {
                        None => "unrouted",
                        Some(tx) => match tx.try_send(ContextMessage::Event(Arc::new(e))) {
                            Ok(()) => "ok",
                            Err(mpsc::error::TrySendError::Full(_)) => "full",
                            Err(mpsc::error::TrySendError::Closed(_)) => "closed",
                        },
                    };
                    o.insert("r".into(), json!(r));
                }
                "poll" => {
                    let c = st["c"].as_str().unwrap();
                    match w.slots.iter_mut().find(|s| s.name == c) {
                        Some(s) => {
                            let n = poll_slot(s);
                            o.insert("polls".into(), json!(n));
                            if s.done {
                                o.insert("r".into(), json!("exited"));
                            }
                        }
                        None => {
                            o.insert("r".into(), json!("no-such-context"));
                        }
                    }
                }
                "init" => {
                    let c = w.coord.as_mut().unwrap();
                    let had = c.has_pending();
                    c.initiate(&w.txs);
                    o.insert("r".into(), json!(if had { "already-pending" } else { "ok" }));
                }
                "complete" => {
                    let c = w.coord.as_mut().unwrap();
                    let had = c.has_pending();
                    let r = c.try_complete();
                    let done = had && !c.has_pending();
                    o.insert("r".into(), json!(match r { Ok(()) => if done { "completed" } else { "pending" }, Err(_) => "store-error" }));
                    if done {
                        let m = CheckpointManager::new(store.clone(), cp_config()).unwrap();
                        if let Ok(Some(cp)) = m.recover() {
                            let snap: Vec<J> = names.iter().map(|n| json!(cp.context_states.get(n).map(|e| e.events_processed))).collect();
                            o.insert("cp".into(), json!({"id": cp.id, "consumed": snap}));
                        }
                    }
                }
                "restore" => {
                    let m = CheckpointManager::new(store.clone(), cp_config()).unwrap();
                    let cp = m.recover().ok().flatten();
                    drop(w);
                    w = match build_world(&names, &program, &cmap, &routing, cap, store.clone(), cp.as_ref()).await {
                        Ok(w) => w,
                        Err(e) => return Err(e),
                    };
                    o.insert("r".into(), json!(match &cp { Some(c) => json!({"id": c.id, "consumed": names.iter().map(|n| json!(c.context_states.get(n).map(|e| e.events_processed))).collect::<Vec<_>>() }), None => J::Null }));
                }
                k => {
                    o.insert("r".into(), json!(format!("bad step {}", k)));
                }
            }
            let mut out = Vec::new();
            while let Ok(e) = w.out_rx.try_recv() {
                out.push(ev_json(&e));
            }
            o.insert("out".into(), json!(out));
            let lens: Vec<usize> = names.iter().map(|n| { let t = &w.txs[n]; t.max_capacity() - t.capacity() }).collect();
            o.insert("inbox".into(), json!(lens));
            outs.push(J::Object(o));
        }
        Ok(outs)
    });
    match steps_out {
        Ok(s) => json!({"routing": routing_json(&routing), "steps": s}),
        Err(e) => json!({"error": e}),
    }
}

fn orch(req: &J) -> J {
    let program = match varpulis_parser::parse(req["vpl"].as_str().unwrap()) {
        Ok(p) => p,
        Err(e) => return json!({"error": format!("parse: {}", e)}),
    };
    let cmap = match load_map(&program) {
        Ok(m) => m,
        Err(e) => return json!({"error": format!("load: {}", e)}),
    };
    let cap = req["cap"].as_u64().unwrap() as usize;
    let expect = req["expect"].as_u64().unwrap_or(0) as usize;
    let timeout_ms = req["timeout_ms"].as_u64().unwrap_or(3000);
    let grace_ms = req["grace_ms"].as_u64().unwrap_or(100);
    let (out_tx, mut out_rx) = mpsc::channel::<Event>(1 << 20);
    let orch = match ContextOrchestrator::build(&cmap, &program, out_tx, cap) {
        Ok(o) => o,
        Err(e) => return json!({"error": format!("build: {}", e)}),
    };
    let routing = orch.ingress_routing().clone();
    let rt = tokio::runtime::Builder::new_current_thread().enable_all().build().unwrap();
    let mut out = Vec::new();
    let mut errs = Vec::new();
    rt.block_on(async {
        for e in req["events"].as_array().unwrap() {
            match tokio::time::timeout(Duration::from_millis(timeout_ms), orch.process(Arc::new(ev_of(e)))).await {
                Ok(Ok(())) => {}
                Ok(Err(x)) => errs.push(x),
                Err(_) => {
                    errs.push("input dispatch blocked until the timeout".to_string());
                    break;
                }
            }
        }
        let t0 = std::time::Instant::now();
        let mut reached: Option<std::time::Instant> = None;
        loop {
            while let Ok(e) = out_rx.try_recv() {
                out.push(ev_json(&e));
            }
            if out.len() >= expect && reached.is_none() {
                reached = Some(std::time::Instant::now());
            }
            if let Some(r) = reached {
                if r.elapsed() >= Duration::from_millis(grace_ms) {
                    break;
                }
            }
            if t0.elapsed() >= Duration::from_millis(timeout_ms) {
                break;
            }
            tokio::time::sleep(Duration::from_millis(5)).await;
        }
    });
    if !shutdown_with_deadline(orch) {
        errs.push("shutdown did not return within 10 s".to_string());
    }
    while let Ok(e) = out_rx.try_recv() {
        out.push(ev_json(&e));
    }
    json!({"routing": routing_json(&routing), "out": out, "errors": errs})
}

/// mode "orch_cp": the real threaded orchestrator with coordinated checkpointing: run events, checkpoint at rest,
/// shut down, rebuild with the recovered checkpoint, checkpoint again (must carry the restored counters), run more events.
fn orch_cp(req: &J) -> J {
    let program = match varpulis_parser::parse(req["vpl"].as_str().unwrap()) {
        Ok(p) => p,
        Err(e) => return json!({"error": format!("parse: {}", e)}),
    };
    let cmap = match load_map(&program) {
        Ok(m) => m,
        Err(e) => return json!({"error": format!("load: {}", e)}),
    };
    let names: Vec<String> = req["contexts"].as_array().unwrap().iter().map(|x| x.as_str().unwrap().to_string()).collect();
    let cap = req["cap"].as_u64().unwrap() as usize;
    let timeout_ms = req["timeout_ms"].as_u64().unwrap_or(10000);
    let grace_ms = req["grace_ms"].as_u64().unwrap_or(100);
    let store: Arc<dyn StateStore> = Arc::new(MemoryStore::new());
    let rt = tokio::runtime::Builder::new_current_thread().enable_all().build().unwrap();
    let mut phases = Vec::new();
    let mut recovered: Option<Checkpoint> = None;
    for (evk, exk) in [("events", "expect"), ("events2", "expect2")] {
        let (out_tx, mut out_rx) = mpsc::channel::<Event>(1 << 20);
        let mut orch = match ContextOrchestrator::build_with_checkpoint(&cmap, &program, out_tx, cap, Some((cp_config(), store.clone())), recovered.as_ref()) {
            Ok(o) => o,
            Err(e) => return json!({"error": format!("build: {}", e)}),
        };
        let expect = req[exk].as_u64().unwrap_or(0) as usize;
        let mut out = Vec::new();
        let mut cps = Vec::new();
        rt.block_on(async {
            // a checkpoint right after the (re)start shows what the contexts were restored to
            for round in 0..2 {
                if round == 1 {
                    for e in req[evk].as_array().unwrap() {
                        if tokio::time::timeout(Duration::from_millis(timeout_ms), orch.process(Arc::new(ev_of(e)))).await.is_err() {
                            break;
                        }
                    }
                    let t0 = std::time::Instant::now();
                    let mut reached: Option<std::time::Instant> = None;
                    loop {
                        while let Ok(e) = out_rx.try_recv() {
                            out.push(ev_json(&e));
                        }
                        if out.len() >= expect && reached.is_none() {
                            reached = Some(std::time::Instant::now());
                        }
                        if reached.map(|r| r.elapsed() >= Duration::from_millis(grace_ms)).unwrap_or(false) || t0.elapsed() >= Duration::from_millis(timeout_ms) {
                            break;
                        }
                        tokio::time::sleep(Duration::from_millis(5)).await;
                    }
                }
                orch.trigger_checkpoint();
                let t0 = std::time::Instant::now();
                let mut done = false;
                while t0.elapsed() < Duration::from_millis(timeout_ms) {
                    match orch.try_complete_checkpoint() {
                        Ok(true) => {
                            done = true;
                            break;
                        }
                        Ok(false) => {}
                        Err(_) => break,
                    }
                    tokio::time::sleep(Duration::from_millis(5)).await;
                }
                let m = CheckpointManager::new(store.clone(), cp_config()).unwrap();
                let cp = m.recover().ok().flatten();
                cps.push(json!({"completed": done, "id": cp.as_ref().map(|c| c.id),
                    "consumed": names.iter().map(|n| json!(cp.as_ref().and_then(|c| c.context_states.get(n)).map(|e| e.events_processed))).collect::<Vec<_>>()}));
                if done {
                    recovered = cp;
                }
            }
        });
        let clean = shutdown_with_deadline(orch);
        while let Ok(e) = out_rx.try_recv() {
            out.push(ev_json(&e));
        }
        phases.push(json!({"out": out, "checkpoints": cps, "shutdown": clean}));
    }
    json!({"phases": phases})
}

fn reference(req: &J) -> J {
    let program = match varpulis_parser::parse(req["vpl"].as_str().unwrap()) {
        Ok(p) => p,
        Err(e) => return json!({"error": format!("parse: {}", e)}),
    };
    let rt = tokio::runtime::Builder::new_current_thread().enable_all().build().unwrap();
    rt.block_on(async {
        let (tx, mut rx) = mpsc::channel::<Event>(1 << 20);
        let mut eng = Engine::new(tx);
        if let Err(e) = eng.load(&program) {
            return json!({"error": format!("load: {}", e)});
        }
        let mut per = Vec::new();
        for e in req["events"].as_array().unwrap() {
            let _ = eng.process(ev_of(e)).await;
            let mut out = Vec::new();
            while let Ok(x) = rx.try_recv() {
                out.push(ev_json(&x));
            }
            per.push(json!(out));
        }
        json!({"out": per})
    })
}

fn main() {
    std::panic::set_hook(Box::new(|_| {}));
    let stdin = std::io::stdin();
    let out = std::io::stdout();
    let mut out = out.lock();
    for line in stdin.lock().lines() {
        let line = line.unwrap();
        if line.trim().is_empty() {
            continue;
        }
        let req: J = serde_json::from_str(&line).expect("request json");
        let res = std::panic::catch_unwind(std::panic::AssertUnwindSafe(|| match req["mode"].as_str().unwrap_or("direct") {
            "direct" => direct(&req),
            "orch" => orch(&req),
            "orch_cp" => orch_cp(&req),
            "ref" => reference(&req),
            m => json!({"error": format!("bad mode {}", m)}),
        }));
        let v = match res {
            Ok(v) => v,
            Err(e) => {
                let msg = e.downcast_ref::<String>().cloned().or_else(|| e.downcast_ref::<&str>().map(|s| s.to_string())).unwrap_or_default();
                json!({ "panic": msg })
            }
        };
        writeln!(out, "{}", v).unwrap();
        out.flush().unwrap();
    }
}
