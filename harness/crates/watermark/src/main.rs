//! Harness for C24: drives PerSourceWatermarkTracker (crates/varpulis-runtime/src/watermark.rs)
//! directly and the Engine's late-data gate (engine/mod.rs process_inner) through VPL programs.
//!
//! Requests (one JSON per line):
//!   {"kind":"tracker","regs":[[name,ooo]..] (optional),"ops":[["reg",name,ooo],["obs",name,ts],["adv",name,wm],["ckr","",0]..]}
//!   {"kind":"engine","program":"<vpl>","ops":[["ev",type,ts,id],["extwm",name,t],["reg",name,ooo],["ckr"]..]}
//! "ckr" (property C19, watermark part): checkpoint, then a fresh object (tracker: created with "regs" again;
//! engine: a new Engine with the program loaded again), restore the checkpoint into it and carry on with it.
//! Times are integer ticks (1 tick = 1 s) relative to a fixed base instant.
//! Answer: {"steps":[{"eff": ticks|null, "src": [[name, wm ticks|null, max ticks|null, ooo ticks],..] sorted by name,
//!                    "out": [[stream, id],..] (engine only, channel order)} ..]}
use chrono::{DateTime, Duration, Utc};
use serde_json::{json, Value as J};
use std::sync::Arc;
use varpulis_core::Value;
use varpulis_runtime::event::Event;
use varpulis_runtime::persistence::WatermarkCheckpoint;
use varpulis_runtime::watermark::PerSourceWatermarkTracker;
use varpulis_runtime::Engine;

const BASE_S: i64 = 1_000_000;

fn t(ticks: i64) -> DateTime<Utc> {
    DateTime::<Utc>::from_timestamp(BASE_S + ticks, 0).unwrap()
}

fn ticks_of_ms(ms: i64) -> J {
    // all instants used are whole seconds; report exact ticks, or the raw ms if not on the grid
    if ms.rem_euclid(1000) == 0 {
        json!(ms / 1000 - BASE_S)
    } else {
        json!(format!("ms{}", ms))
    }
}

fn opt_ms(o: Option<i64>) -> J {
    o.map(ticks_of_ms).unwrap_or(J::Null)
}

fn cp_json(cp: &WatermarkCheckpoint) -> J {
    let mut v: Vec<(&String, J)> = cp
        .sources
        .iter()
        .map(|(k, s)| {
            (
                k,
                json!([k, opt_ms(s.watermark_ms), opt_ms(s.max_timestamp_ms), s.max_out_of_orderness_ms / 1000]),
            )
        })
        .collect();
    v.sort_by(|a, b| a.0.cmp(b.0));
    J::Array(v.into_iter().map(|x| x.1).collect())
}

fn run_tracker(req: &J) -> J {
    let fresh = || {
        let mut tr = PerSourceWatermarkTracker::new();
        if let Some(regs) = req["regs"].as_array() {
            for r in regs {
                tr.register_source(r[0].as_str().unwrap(), Duration::seconds(r[1].as_i64().unwrap()));
            }
        }
        tr
    };
    let mut tr = fresh();
    let mut steps = Vec::new();
    for op in req["ops"].as_array().unwrap() {
        let o = op.as_array().unwrap();
        let name = o[1].as_str().unwrap();
        let n = o[2].as_i64().unwrap();
        match o[0].as_str().unwrap() {
            "reg" => tr.register_source(name, Duration::seconds(n)),
            "obs" => tr.observe_event(name, t(n)),
            "adv" => tr.advance_source_watermark(name, t(n)),
            "ckr" => {
                let cp = tr.checkpoint();
                let mut t2 = fresh();
                t2.restore(&cp);
                tr = t2;
            }
            x => panic!("tracker op {}", x),
        }
        let cp = tr.checkpoint();
        let eff = tr.effective_watermark().map(|w| w.timestamp_millis());
        steps.push(json!({"eff": opt_ms(eff), "eff_cp": opt_ms(cp.effective_watermark_ms), "src": cp_json(&cp), "has": tr.has_sources()}));
    }
    json!({ "steps": steps })
}

fn run_engine(req: &J) -> J {
    let rt = tokio::runtime::Builder::new_current_thread().enable_all().build().unwrap();
    let program = match varpulis_parser::parse(req["program"].as_str().unwrap()) {
        Ok(p) => p,
        Err(e) => return json!({"error": format!("parse: {:?}", e)}),
    };
    let (tx, mut rx) = tokio::sync::mpsc::channel::<Event>(100_000);
    let mut eng = Engine::new(tx);
    if let Err(e) = eng.load(&program) {
        return json!({"error": format!("load: {}", e)});
    }
    let mut steps = Vec::new();
    for op in req["ops"].as_array().unwrap() {
        let o = op.as_array().unwrap();
        let res = match o[0].as_str().unwrap() {
            "ev" => {
                let mut e = Event::new_at(o[1].as_str().unwrap(), t(o[2].as_i64().unwrap()));
                e.data.insert(Arc::from("id"), Value::Int(o[3].as_i64().unwrap()));
                rt.block_on(eng.process(e))
            }
            "extwm" => rt.block_on(eng.advance_external_watermark(o[1].as_str().unwrap(), (BASE_S + o[2].as_i64().unwrap()) * 1000)),
            "reg" => {
                eng.enable_watermark_tracking();
                eng.register_watermark_source(o[1].as_str().unwrap(), Duration::seconds(o[2].as_i64().unwrap()));
                Ok(())
            }
            "ckr" => {
                let cp = eng.create_checkpoint();
                let (tx2, rx2) = tokio::sync::mpsc::channel::<Event>(100_000);
                let mut e2 = Engine::new(tx2);
                match e2.load(&program) {
                    Err(e) => Err(format!("reload: {}", e)),
                    Ok(()) => {
                        let r = e2.restore_checkpoint(&cp).map_err(|e| format!("restore: {:?}", e));
                        eng = e2;
                        rx = rx2;
                        r
                    }
                }
            }
            x => panic!("engine op {}", x),
        };
        let mut out = Vec::new();
        if let Err(e) = res {
            out.push(json!(["error", e]));
        }
        while let Ok(ev) = rx.try_recv() {
            let id = match ev.get("id") {
                Some(Value::Int(i)) => json!(i),
                _ => J::Null,
            };
            out.push(json!([&*ev.event_type, id]));
        }
        let cp = eng.create_checkpoint();
        let (eff, src) = match &cp.watermark_state {
            Some(w) => (opt_ms(w.effective_watermark_ms), cp_json(w)),
            None => (J::Null, json!("off")),
        };
        steps.push(json!({"eff": eff, "src": src, "out": out}));
    }
    json!({ "steps": steps })
}

fn main() {
    vp_common::serve(|req| {
        if req["kind"].as_str() == Some("engine") {
            run_engine(req)
        } else {
            run_tracker(req)
        }
    });
}
