//! Harness for C12/C13: drives the real window types of crates/varpulis-runtime/src/window.rs
//! (directly through their public API) and the Engine (VPL text with `.window(..)`).
//!
//! One JSON request per stdin line:
//!   {"kind": K, "a": <int>, "b": <int>, "ops": [op..]}                    K = window type, a/b = size/slide/gap
//!   {"kind": "engine", "program": "<vpl>", "track": bool, "ops": [op..]}  Engine path
//! ops: ["add", id, ts, key]  ["wm", t]  ["expire", t]  ["flush"]  ["cur"]  ["extwm", t]
//! Times are integer ticks (1 tick = 1 s) relative to a fixed base instant; key < 0 = event has no key field.
//! Answer: {"outs": [per-op observable], "final": [ids still buffered (flush / current at the end)]}
//!   plain windows: null | [ids]; partitioned wm/expire: [[key,[ids]],..] sorted by key; partitioned flush: ids
//!   stably sorted by key. Engine: per op the list of output events (tagged JSON), in channel order.
use chrono::{DateTime, Duration, Utc};
use serde_json::{json, Value as J};
use std::sync::Arc;
use varpulis_core::Value;
use varpulis_runtime::event::{Event, SharedEvent};
use varpulis_runtime::window::*;
use varpulis_runtime::Engine;

const BASE_S: i64 = 1_000_000;

fn t(ticks: i64) -> DateTime<Utc> {
    DateTime::<Utc>::from_timestamp(BASE_S + ticks, 0).unwrap()
}

fn mk_event(id: i64, ts: i64, key: i64) -> SharedEvent {
    let mut e = Event::new_at("A", t(ts));
    e.data.insert(Arc::from("id"), Value::Int(id));
    if key >= 0 {
        e.data.insert(Arc::from("k"), Value::Int(key));
    }
    if (0..62).contains(&id) {
        e.data.insert(Arc::from("x"), Value::Int(1i64 << id));
    }
    Arc::new(e)
}

fn id_of(e: &SharedEvent) -> i64 {
    match e.get("id") {
        Some(Value::Int(i)) => *i,
        _ => -1,
    }
}

fn key_of(e: &SharedEvent) -> String {
    e.get("k").map(|v| v.to_partition_key().into_owned()).unwrap_or_else(|| "default".to_string())
}

fn ids(v: &[SharedEvent]) -> J {
    J::Array(v.iter().map(|e| json!(id_of(e))).collect())
}

fn opt_ids(v: Option<Vec<SharedEvent>>) -> J {
    match v {
        None => J::Null,
        Some(v) => ids(&v),
    }
}

fn parts(mut v: Vec<(String, Vec<SharedEvent>)>) -> J {
    v.sort_by(|a, b| a.0.cmp(&b.0));
    J::Array(v.iter().map(|(k, es)| json!([k, ids(es)])).collect())
}

fn by_key(mut v: Vec<SharedEvent>) -> J {
    v.sort_by_key(key_of); // stable
    ids(&v)
}

enum W {
    Tumbling(TumblingWindow),
    Count(CountWindow),
    Session(SessionWindow),
    Sliding(SlidingWindow),
    SlidingCount(SlidingCountWindow),
    PTumbling(PartitionedTumblingWindow),
    PSession(PartitionedSessionWindow),
    PSliding(PartitionedSlidingWindow),
}

fn run_window(req: &J) -> J {
    let kind = req["kind"].as_str().unwrap();
    let a = req["a"].as_i64().unwrap();
    let b = req["b"].as_i64().unwrap_or(0);
    let d = Duration::seconds;
    let mut w = match kind {
        "tumbling" => W::Tumbling(TumblingWindow::new(d(a))),
        "count" => W::Count(CountWindow::new(a as usize)),
        "session" => W::Session(SessionWindow::new(d(a))),
        "sliding" => W::Sliding(SlidingWindow::new(d(a), d(b))),
        "slidingcount" => W::SlidingCount(SlidingCountWindow::new(a as usize, b as usize)),
        "ptumbling" => W::PTumbling(PartitionedTumblingWindow::new("k".into(), d(a))),
        "psession" => W::PSession(PartitionedSessionWindow::new("k".into(), d(a))),
        "psliding" => W::PSliding(PartitionedSlidingWindow::new("k".into(), d(a), d(b))),
        _ => panic!("unknown kind {}", kind),
    };
    let mut outs = Vec::new();
    for op in req["ops"].as_array().unwrap() {
        let o = op.as_array().unwrap();
        let name = o[0].as_str().unwrap();
        let n = |k: usize| o[k].as_i64().unwrap();
        let out = match (name, &mut w) {
            ("add", w) => {
                let e = mk_event(n(1), n(2), n(3));
                opt_ids(match w {
                    W::Tumbling(w) => w.add_shared(e),
                    W::Count(w) => w.add_shared(e),
                    W::Session(w) => w.add_shared(e),
                    W::Sliding(w) => w.add_shared(e),
                    W::SlidingCount(w) => w.add_shared(e),
                    W::PTumbling(w) => w.add_shared(e),
                    W::PSession(w) => w.add_shared(e),
                    W::PSliding(w) => w.add_shared(e),
                })
            }
            ("wm", W::Tumbling(w)) => opt_ids(w.advance_watermark(t(n(1)))),
            ("wm", W::Session(w)) => opt_ids(w.advance_watermark(t(n(1)))),
            ("wm", W::Sliding(w)) => opt_ids(w.advance_watermark(t(n(1)))),
            ("wm", W::PTumbling(w)) => parts(w.advance_watermark(t(n(1)))),
            ("wm", W::PSession(w)) => parts(w.advance_watermark(t(n(1)))),
            ("wm", W::PSliding(w)) => parts(w.advance_watermark(t(n(1)))),
            ("expire", W::Session(w)) => opt_ids(w.check_expired(t(n(1)))),
            ("expire", W::PSession(w)) => parts(w.check_expired(t(n(1)))),
            ("flush", W::Tumbling(w)) => ids(&w.flush_shared()),
            ("flush", W::Count(w)) => ids(&w.flush_shared()),
            ("flush", W::Session(w)) => ids(&w.flush_shared()),
            ("flush", W::PTumbling(w)) => by_key(w.flush_shared()),
            ("flush", W::PSession(w)) => by_key(w.flush_shared()),
            ("cur", W::Sliding(w)) => ids(&w.current_shared()),
            ("cur", W::PSliding(w)) => by_key(w.current_all_shared()),
            ("cur", W::SlidingCount(w)) => json!(w.current_count()),
            ("cur", W::Count(w)) => json!(w.current_count()),
            ("cur", W::Tumbling(w)) => json!(w.len()),
            _ => panic!("op {} not applicable to {}", name, kind),
        };
        outs.push(out);
    }
    let fin = match &mut w {
        W::Tumbling(w) => ids(&w.flush_shared()),
        W::Count(w) => ids(&w.flush_shared()),
        W::Session(w) => ids(&w.flush_shared()),
        W::Sliding(w) => ids(&w.current_shared()),
        W::SlidingCount(w) => json!(w.current_count()),
        W::PTumbling(w) => by_key(w.flush_shared()),
        W::PSession(w) => by_key(w.flush_shared()),
        W::PSliding(w) => by_key(w.current_all_shared()),
    };
    json!({"outs": outs, "final": fin})
}

fn run_engine(req: &J) -> J {
    let rt = tokio::runtime::Builder::new_current_thread().enable_all().build().unwrap();
    let program = varpulis_parser::parse(req["program"].as_str().unwrap()).map_err(|e| format!("{:?}", e));
    let program = match program {
        Ok(p) => p,
        Err(e) => return json!({"error": format!("parse: {}", e)}),
    };
    let (tx, mut rx) = tokio::sync::mpsc::channel::<Event>(100_000);
    let mut eng = Engine::new(tx);
    if let Err(e) = eng.load(&program) {
        return json!({"error": format!("load: {}", e)});
    }
    if req["track"].as_bool().unwrap_or(false) {
        eng.enable_watermark_tracking();
        eng.register_watermark_source("ext", Duration::zero());
    }
    let mut outs = Vec::new();
    for op in req["ops"].as_array().unwrap() {
        let o = op.as_array().unwrap();
        let name = o[0].as_str().unwrap();
        let n = |k: usize| o[k].as_i64().unwrap();
        let res = match name {
            "add" => {
                let e = mk_event(n(1), n(2), n(3));
                rt.block_on(eng.process((*e).clone()))
            }
            "extwm" => rt.block_on(eng.advance_external_watermark("ext", (BASE_S + n(1)) * 1000)),
            _ => panic!("engine op {}", name),
        };
        let mut got = Vec::new();
        if let Err(e) = res {
            got.push(json!({"error": e}));
        }
        while let Ok(ev) = rx.try_recv() {
            got.push(vp_common::event_to_json(&ev));
        }
        outs.push(J::Array(got));
    }
    json!({"outs": outs, "final": null})
}

fn main() {
    vp_common::serve(|req| {
        if req["kind"].as_str() == Some("engine") {
            run_engine(req)
        } else {
            run_window(req)
        }
    });
}
