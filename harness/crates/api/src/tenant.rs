//! C28: request sequences over one tenant manager, through `varpulis_cli::api::api_routes`.
//!
//! request: {"mode":"tenant","admin_key":"adm"|null,
//!           "tenants":[{"key":"key-a","max_pipelines":3},..],
//!           "ops":[ {"op":"deploy","key":K,"name":"n1","src":0..3}
//!                   {"op":"list","key":K} {"op":"usage","key":K}
//!                   {"op":"get"|"delete"|"metrics"|"checkpoint"|"logs","key":K,"pid":P}
//!                   {"op":"inject","key":K,"pid":P,"ty":"A","x":5}
//!                   {"op":"batch","key":K,"pid":P,"events":[["A",5],["B",1]]}
//!                   {"op":"reload","key":K,"pid":P,"src":0..3}
//!                   {"op":"restore","key":K,"pid":P,"cp":n}        (checkpoint answer number n mod how many there are so far)
//!                   {"op":"create_tenant","admin":A,"name":"t"} {"op":"list_tenants","admin":A}
//!                   {"op":"get_tenant"|"delete_tenant","admin":A,"tid":"t0"} ]}
//! K: a key string, "@t<k>" (the key of the k-th tenant ever created) or null (no header).  P: "p<k>" = k-th pipeline ever deployed in this sequence (any tenant),
//!    anything else is sent verbatim (unknown id).  tid: "t<k>" = k-th tenant ever created.
//! answer: {"steps":[{"st":..,"resp":<canonical>, "tenants":[<snapshot per tenant in creation order, null once deleted>]}]}
use crate::http::SOURCES;
use crate::{canon, send, RT};
use serde_json::{json, Value as J};
use varpulis_runtime::tenant::{SharedTenantManager, TenantId, TenantQuota};
use warp::Filter;

struct Names {
    pids: Vec<String>,
    tids: Vec<String>,
    tkeys: Vec<String>,
}

impl Names {
    fn pid(&self, p: &str) -> String {
        if let Some(k) = p.strip_prefix('p').and_then(|s| s.parse::<usize>().ok()) {
            if let Some(id) = self.pids.get(k) {
                return id.clone();
            }
        }
        p.to_string()
    }
    fn tid(&self, t: &str) -> String {
        if let Some(k) = t.strip_prefix('t').and_then(|s| s.parse::<usize>().ok()) {
            if let Some(id) = self.tids.get(k) {
                return id.clone();
            }
        }
        t.to_string()
    }
    /// "@t<k>" = the api key of the k-th tenant ever created (keys of tenants created through the admin API are random)
    fn key(&self, k: &str) -> String {
        if let Some(n) = k.strip_prefix("@t").and_then(|s| s.parse::<usize>().ok()) {
            if let Some(key) = self.tkeys.get(n) {
                return key.clone();
            }
        }
        k.to_string()
    }
    fn sym_key(&self, key: &str) -> String {
        self.tkeys.iter().position(|x| x == key).map(|k| format!("@t{}", k)).unwrap_or_else(|| key.to_string())
    }
    fn sym_p(&self, id: &str) -> String {
        self.pids.iter().position(|x| x == id).map(|k| format!("p{}", k)).unwrap_or_else(|| format!("?{}", id))
    }
    fn sym_t(&self, id: &str) -> String {
        self.tids.iter().position(|x| x == id).map(|k| format!("t{}", k)).unwrap_or_else(|| format!("?{}", id))
    }
}

fn src_index(s: &str) -> i64 {
    SOURCES.iter().position(|x| *x == s).map(|k| k as i64).unwrap_or(-1)
}

/// Per-tenant snapshot: `model` is what the Coq model predicts; `deep` additionally holds everything observable
/// about the tenant (complete engine checkpoints, rate-limit window counter) for the unchanged-ness oracle.
async fn snapshots(mgr: &SharedTenantManager, names: &Names) -> Vec<J> {
    let m = mgr.read().await;
    let mut out = Vec::new();
    for tid in &names.tids {
        match m.get_tenant(&TenantId::new(tid.clone())) {
            None => out.push(J::Null),
            Some(t) => {
                let mut ps: Vec<(String, J, J)> = Vec::new();
                for p in t.pipelines.values() {
                    let eng = p.engine.lock().await;
                    let (ein, eout) = eng.event_counters();
                    let cp = canon(&serde_json::to_value(eng.create_checkpoint()).unwrap_or(J::Null));
                    let sym = names.sym_p(&p.id);
                    ps.push((
                        sym.clone(),
                        json!([sym, p.name, src_index(&p.source), p.status.to_string(), ein, eout]),
                        json!({"id": p.id, "source": p.source, "checkpoint": cp}),
                    ));
                }
                ps.sort_by_key(|x| {
                    let s = x.0.trim_start_matches('p').parse::<i64>().unwrap_or(-1);
                    (s, x.0.clone())
                });
                let resolves = m.get_tenant_by_api_key(&t.api_key).map(|x| x.0 == *tid).unwrap_or(false);
                out.push(json!({
                    "model": {"key": names.sym_key(&t.api_key), "max_pipelines": t.quota.max_pipelines,
                              "usage": [t.usage.events_processed, t.usage.output_events_emitted, t.usage.active_pipelines],
                              "pipelines": ps.iter().map(|x| x.1.clone()).collect::<Vec<_>>(), "key_resolves": resolves},
                    "deep": {"name": t.name, "quota": [t.quota.max_events_per_second, t.quota.max_streams_per_pipeline],
                             "window": t.usage.events_in_window, "pipelines": ps.iter().map(|x| x.2.clone()).collect::<Vec<_>>()}
                }));
            }
        }
    }
    out
}

fn ev_json(ty: &str, x: i64) -> J {
    json!({"event_type": ty, "fields": {"x": x}})
}

pub fn run(req: &J) -> J {
    let rt = RT.get().unwrap();
    rt.block_on(async {
        let mgr = varpulis_runtime::tenant::shared_tenant_manager();
        let mut names = Names { pids: vec![], tids: vec![], tkeys: vec![] };
        {
            let mut m = mgr.write().await;
            for t in req["tenants"].as_array().unwrap() {
                let mut q = TenantQuota::default();
                q.max_pipelines = t["max_pipelines"].as_u64().unwrap_or(10) as usize;
                let id = m
                    .create_tenant(format!("tenant{}", names.tids.len()), t["key"].as_str().unwrap().to_string(), q)
                    .unwrap();
                names.tids.push(id.0);
                names.tkeys.push(t["key"].as_str().unwrap().to_string());
            }
        }
        let routes = varpulis_cli::api::api_routes(mgr.clone(), req["admin_key"].as_str().map(|s| s.to_string()))
            .recover(varpulis_cli::auth::handle_rejection);
        let mut checkpoints: Vec<J> = Vec::new();
        let mut steps = Vec::new();
        for op in req["ops"].as_array().unwrap() {
            let name = op["op"].as_str().unwrap();
            let mut hs: Vec<(String, String)> = Vec::new();
            if let Some(k) = op["key"].as_str() {
                hs.push(("x-api-key".into(), names.key(k)));
            }
            if let Some(k) = op["admin"].as_str() {
                hs.push(("x-admin-key".into(), k.into()));
            }
            let pid = op["pid"].as_str().map(|p| names.pid(p)).unwrap_or_default();
            let tid = op["tid"].as_str().map(|t| names.tid(t)).unwrap_or_default();
            let src = |o: &J| SOURCES[o["src"].as_u64().unwrap_or(0) as usize % SOURCES.len()].to_string();
            let none = json!({});
            let (method, path, body): (&str, String, J) = match name {
                "deploy" => ("POST", "/api/v1/pipelines".into(), json!({"j": {"name": op["name"], "source": src(op)}})),
                "list" => ("GET", "/api/v1/pipelines".into(), none),
                "usage" => ("GET", "/api/v1/usage".into(), none),
                "get" => ("GET", format!("/api/v1/pipelines/{}", pid), none),
                "delete" => ("DELETE", format!("/api/v1/pipelines/{}", pid), none),
                "metrics" => ("GET", format!("/api/v1/pipelines/{}/metrics", pid), none),
                "logs" => ("GET", format!("/api/v1/pipelines/{}/logs", pid), none),
                "checkpoint" => ("POST", format!("/api/v1/pipelines/{}/checkpoint", pid), none),
                "inject" => (
                    "POST",
                    format!("/api/v1/pipelines/{}/events", pid),
                    json!({"j": ev_json(op["ty"].as_str().unwrap_or("A"), op["x"].as_i64().unwrap_or(0))}),
                ),
                "batch" => (
                    "POST",
                    format!("/api/v1/pipelines/{}/events-batch", pid),
                    json!({"j": {"events": op["events"].as_array().unwrap().iter()
                        .map(|e| ev_json(e[0].as_str().unwrap(), e[1].as_i64().unwrap())).collect::<Vec<_>>()}}),
                ),
                "reload" => ("POST", format!("/api/v1/pipelines/{}/reload", pid), json!({"j": {"source": src(op)}})),
                "restore" => {
                    // n-th checkpoint taken so far, modulo how many there are; an empty checkpoint when there is none yet
                    let cp = if checkpoints.is_empty() {
                        json!({"version": 1, "window_states": {}, "sase_states": {}, "join_states": {}, "variables": {},
                               "events_processed": 0, "output_events_emitted": 0})
                    } else {
                        checkpoints[(op["cp"].as_u64().unwrap_or(0) as usize) % checkpoints.len()].clone()
                    };
                    ("POST", format!("/api/v1/pipelines/{}/restore", pid), json!({"j": {"checkpoint": cp}}))
                }
                "create_tenant" => ("POST", "/api/v1/tenants".into(), json!({"j": {"name": op["name"]}})),
                "list_tenants" => ("GET", "/api/v1/tenants".into(), none),
                "get_tenant" => ("GET", format!("/api/v1/tenants/{}", tid), none),
                "delete_tenant" => ("DELETE", format!("/api/v1/tenants/{}", tid), none),
                other => panic!("unknown op {}", other),
            };
            let (st, b) = send(&routes, method, &path, &hs, &body).await;
            // canonical response
            let code = b["code"].as_str().map(|s| s.to_string());
            let resp: J = if let Some(c) = code {
                json!({"err": c})
            } else if b.get("error").is_some() {
                json!({"rejected": b["error"]})
            } else {
                match name {
                    "deploy" => {
                        let id = b["id"].as_str().unwrap_or("").to_string();
                        names.pids.push(id);
                        json!({"id": format!("p{}", names.pids.len() - 1), "name": b["name"], "status": b["status"]})
                    }
                    "list" => {
                        let mut ps: Vec<J> = b["pipelines"].as_array().cloned().unwrap_or_default().iter()
                            .map(|p| json!([names.sym_p(p["id"].as_str().unwrap_or("")), p["name"], src_index(p["source"].as_str().unwrap_or("")), p["status"]]))
                            .collect();
                        ps.sort_by_key(|p| p[0].as_str().unwrap().trim_start_matches('p').parse::<i64>().unwrap_or(-1));
                        json!({"pipelines": ps, "total": b["total"]})
                    }
                    "get" => json!({"pipeline": [names.sym_p(b["id"].as_str().unwrap_or("")), b["name"], src_index(b["source"].as_str().unwrap_or("")), b["status"]]}),
                    "usage" => json!({"tenant": names.sym_t(b["tenant_id"].as_str().unwrap_or("")), "events": b["events_processed"],
                                      "out": b["output_events_emitted"], "active": b["active_pipelines"], "max_pipelines": b["quota"]["max_pipelines"]}),
                    "metrics" => json!({"pipeline": names.sym_p(b["pipeline_id"].as_str().unwrap_or("")), "events": b["events_processed"], "out": b["output_events_emitted"]}),
                    "checkpoint" => {
                        checkpoints.push(b["checkpoint"].clone());
                        json!({"pipeline": names.sym_p(b["pipeline_id"].as_str().unwrap_or("")), "events": b["events_processed"], "cp": checkpoints.len() - 1})
                    }
                    "restore" => json!({"pipeline": names.sym_p(b["pipeline_id"].as_str().unwrap_or("")), "restored": b["restored"], "events": b["events_restored"]}),
                    "inject" => json!({"accepted": b["accepted"], "out": b["output_events"].as_array().cloned().unwrap_or_default().iter()
                                       .map(|e| json!([e["event_type"], e["fields"]["v"]])).collect::<Vec<_>>()}),
                    "batch" => json!({"accepted": b["accepted"], "out": b["output_events"].as_array().cloned().unwrap_or_default().iter()
                                      .map(|e| json!([e["event_type"], e["v"]])).collect::<Vec<_>>()}),
                    "create_tenant" => {
                        let id = b["id"].as_str().unwrap_or("").to_string();
                        names.tids.push(id);
                        names.tkeys.push(b["api_key"].as_str().unwrap_or("").to_string());
                        json!({"id": format!("t{}", names.tids.len() - 1), "name": b["name"], "api_key": format!("@t{}", names.tids.len() - 1)})
                    }
                    "list_tenants" => {
                        let mut ts: Vec<String> = b["tenants"].as_array().cloned().unwrap_or_default().iter()
                            .map(|t| names.sym_t(t["id"].as_str().unwrap_or(""))).collect();
                        ts.sort();
                        json!({"tenants": ts, "total": b["total"]})
                    }
                    "get_tenant" => json!({"tenant": names.sym_t(b["id"].as_str().unwrap_or("")), "events": b["usage"]["events_processed"],
                                           "active": b["usage"]["active_pipelines"], "pipeline_count": b["pipeline_count"]}),
                    _ => b.clone(),
                }
            };
            let snaps = snapshots(&mgr, &names).await;
            steps.push(json!({"st": st, "resp": resp, "tenants": snaps}));
        }
        json!({"steps": steps})
    })
}
