//! vp-api — harness for C28 (tenant isolation), C29 (route x role matrix) and C31 (path validation).
//!
//! One JSON request per stdin line, one JSON answer per line (vp_common::serve).
//!   {"mode":"http", ...}    C29: every request runs against a freshly built world (coordinator / raft node /
//!                           tenant manager) through the real warp filters; answer = status, body, and whether the
//!                           world's state snapshot changed.
//!   {"mode":"tenant", ...}  C28: a request *sequence* against one tenant manager through `api_routes`;
//!                           answer per step = canonical response + per-tenant snapshots.
//!   {"mode":"path", ...}    C31: `security::validate_path` on a directory tree prepared by the driver.
mod http;
mod path;
mod tenant;

use serde_json::{json, Value as J};
use std::sync::OnceLock;

pub static RT: OnceLock<tokio::runtime::Runtime> = OnceLock::new();

/// Recursively sort object keys (serde_json may or may not preserve insertion order) and render.
pub fn canon(v: &J) -> J {
    match v {
        J::Object(m) => {
            let mut ks: Vec<&String> = m.keys().collect();
            ks.sort();
            let mut out = serde_json::Map::new();
            for k in ks {
                out.insert(k.clone(), canon(&m[k]));
            }
            J::Object(out)
        }
        J::Array(a) => J::Array(a.iter().map(canon).collect()),
        _ => v.clone(),
    }
}

/// Sends a request through a filter and returns (status, content-type, body) without hanging on
/// streaming (SSE) replies.
pub async fn send<F, R>(routes: &F, method: &str, path: &str, headers: &[(String, String)], body: &J) -> (u16, J)
where
    F: warp::Filter<Extract = (R,), Error = std::convert::Infallible> + Clone + Send + Sync + 'static,
    R: warp::Reply + Send + 'static,
{
    let mut r = warp::test::request().method(method).path(path);
    for (k, v) in headers {
        r = r.header(k.as_str(), v.as_str());
    }
    if let Some(j) = body.get("j") {
        r = r.json(j);
    } else if let Some(raw) = body.get("r").and_then(|x| x.as_str()) {
        r = r.header("content-type", "application/json").body(raw.to_string());
    }
    let fut = async {
        match r.filter(routes).await {
            Ok(reply) => {
                let resp = warp::Reply::into_response(reply);
                let st = resp.status().as_u16();
                let ct = resp
                    .headers()
                    .get("content-type")
                    .and_then(|v| v.to_str().ok())
                    .unwrap_or("")
                    .to_string();
                if ct.starts_with("text/event-stream") {
                    return (st, json!({"sse": true}));
                }
                let bytes = warp::hyper::body::to_bytes(resp.into_body()).await.unwrap_or_default();
                let v: J = match serde_json::from_slice(&bytes) {
                    Ok(v) => v,
                    Err(_) => json!({"raw": String::from_utf8_lossy(&bytes).chars().take(300).collect::<String>()}),
                };
                (st, v)
            }
            Err(_) => (0, json!({"infallible": true})),
        }
    };
    match tokio::time::timeout(std::time::Duration::from_secs(20), fut).await {
        Ok(x) => x,
        Err(_) => (0, json!({"timeout": true})),
    }
}

fn main() {
    let rt = tokio::runtime::Builder::new_multi_thread()
        .worker_threads(2)
        .enable_all()
        .build()
        .unwrap();
    RT.set(rt).ok();
    vp_common::serve(|req| match req["mode"].as_str().unwrap_or("") {
        "http" => http::run(req),
        "tenant" => tenant::run(req),
        "path" => path::run(req),
        m => json!({"error": format!("unknown mode {}", m)}),
    });
}
