//! C31: `varpulis_cli::security::validate_path` on a directory tree prepared by the driver.
//!
//! request: {"mode":"path","workdir":"/tmp/path-xyz/w","paths":["a/b","../x",..]}
//! answer:  {"results":[{"ok":"/tmp/path-xyz/w/a/b"} | {"err":"traversal"|"invalid"|"workdir"|"other","msg":".."}]}
use serde_json::{json, Value as J};
use varpulis_cli::security::{validate_path, SecurityError};

pub fn run(req: &J) -> J {
    let wd = std::path::PathBuf::from(req["workdir"].as_str().unwrap());
    let mut out = Vec::new();
    for p in req["paths"].as_array().unwrap() {
        let p = p.as_str().unwrap();
        out.push(match validate_path(p, &wd) {
            Ok(q) => match q.to_str() {
                Some(s) => json!({"ok": s}),
                None => json!({"ok_bytes": format!("{:?}", q)}),
            },
            Err(SecurityError::PathTraversal { .. }) => json!({"err": "traversal"}),
            Err(SecurityError::InvalidPath { reason, .. }) => json!({"err": "invalid", "msg": reason}),
            Err(SecurityError::InvalidWorkdir { reason, .. }) => json!({"err": "workdir", "msg": reason}),
            Err(e) => json!({"err": "other", "msg": e.to_string()}),
        });
    }
    json!({"results": out})
}
