//! C29: one request = one freshly built world + the real route tree + the real rejection handler.
//!
//! request: {"mode":"http","app":"cluster"|"raft"|"raftcluster"|"cli",
//!           "rbac": null | {"keys":[["k","admin"],..],"anon":bool,"anon_role":"viewer"},
//!           "raft_key": null|"k"        (app "raft": the admin_key argument of raft_routes)
//!           "admin_key": null|"k"       (app "cli": the admin_key argument of api_routes)
//!           "limited": bool             (cluster: rate limiter that rejects everything)
//!           "tenants": [["key-a",1],..] (cli: tenants to create, with that many pipelines each)
//!           "requests":[{"m":"GET","p":"/..","h":[["x-api-key","k"]],"b":{}|{"j":json}|{"r":"raw"}}]}
//! path placeholders (cli): {pA} = id of tenant 0's first pipeline, {pB} = tenant 1's, {tA}/{tB} = tenant ids.
//! answer: {"results":[{"st":u16,"body":json,"changed":bool,"diff":[..]}], "raft_key_used": ..}
use crate::{canon, send, RT};
use serde_json::{json, Value as J};
use std::collections::HashMap;
use std::sync::Arc;
use varpulis_cluster::rbac::{ApiKeyEntry, RbacConfig, Role};
use varpulis_cluster::worker::{WorkerId, WorkerNode};
use varpulis_cluster::{shared_coordinator, SharedCoordinator};
use varpulis_runtime::tenant::{SharedTenantManager, TenantQuota};
use warp::Filter;

fn role_of(s: &str) -> Role {
    match s {
        "admin" => Role::Admin,
        "operator" => Role::Operator,
        _ => Role::Viewer,
    }
}

pub fn rbac_of(j: &J) -> RbacConfig {
    if j.is_null() {
        return RbacConfig::disabled();
    }
    let mut keys = HashMap::new();
    for kv in j["keys"].as_array().unwrap() {
        keys.insert(
            kv[0].as_str().unwrap().to_string(),
            ApiKeyEntry { role: role_of(kv[1].as_str().unwrap()), name: None },
        );
    }
    let mut c = RbacConfig::multi_key(keys);
    c.allow_anonymous = j["anon"].as_bool().unwrap_or(false);
    c.anonymous_role = role_of(j["anon_role"].as_str().unwrap_or("viewer"));
    c
}

pub async fn build_coordinator() -> SharedCoordinator {
    let coord = shared_coordinator();
    {
        let mut c = coord.write().await;
        c.register_worker(WorkerNode::new(WorkerId("w1".into()), "http://127.0.0.1:1".into(), "wk".into()));
        c.register_worker(WorkerNode::new(WorkerId("w2".into()), "http://127.0.0.1:1".into(), "wk".into()));
        c.connectors.insert(
            "c1".into(),
            serde_json::from_value(json!({"name":"c1","connector_type":"mqtt","params":{"host":"localhost","port":"1883"}})).unwrap(),
        );
        c.model_registry.insert(
            "m1".into(),
            serde_json::from_value(json!({"name":"m1","s3_key":"models/m1.onnx","format":"onnx","inputs":["x"],"outputs":["y"],
                                          "size_bytes":3,"uploaded_at":"2026-01-01T00:00:00Z","description":""}))
            .unwrap(),
        );
        let spec: varpulis_cluster::pipeline_group::PipelineGroupSpec =
            serde_json::from_value(json!({"name":"g1","pipelines":[],"routes":[]})).unwrap();
        c.pipeline_groups.insert(
            "g1".into(),
            varpulis_cluster::pipeline_group::DeployedPipelineGroup::new("g1".into(), "g1".into(), spec),
        );
    }
    coord
}

pub async fn snap_coordinator(coord: &SharedCoordinator) -> J {
    let c = coord.read().await;
    let mut workers: Vec<J> = c
        .workers
        .values()
        .map(|w| {
            json!({"id": w.id.0, "address": w.address, "api_key": w.api_key, "status": format!("{:?}", w.status),
                   "capacity": serde_json::to_value(&w.capacity).unwrap_or(J::Null), "hb": format!("{:?}", w.last_heartbeat),
                   "assigned": w.assigned_pipelines, "events": w.events_processed})
        })
        .collect();
    workers.sort_by_key(|w| w["id"].as_str().unwrap().to_string());
    let mut groups: Vec<J> = c.pipeline_groups.values().map(|g| canon(&serde_json::to_value(g).unwrap_or(J::Null))).collect();
    groups.sort_by_key(|g| g["id"].as_str().unwrap_or("").to_string());
    let mut connectors: Vec<J> = c.connectors.values().map(|g| canon(&serde_json::to_value(g).unwrap_or(J::Null))).collect();
    connectors.sort_by_key(|g| g["name"].as_str().unwrap_or("").to_string());
    let mut models: Vec<J> = c.model_registry.values().map(|g| canon(&serde_json::to_value(g).unwrap_or(J::Null))).collect();
    models.sort_by_key(|g| g["name"].as_str().unwrap_or("").to_string());
    let mut migrations: Vec<String> = c.active_migrations.iter().map(|(k, v)| format!("{}={:?}", k, v)).collect();
    migrations.sort();
    let mut wm: Vec<String> = c.worker_metrics.iter().map(|(k, v)| format!("{}={:?}", k.0, v)).collect();
    wm.sort();
    json!({"workers": workers, "groups": groups, "connectors": connectors, "models": models, "migrations": migrations,
           "worker_metrics": wm, "pending_rebalance": c.pending_rebalance,
           "llm": c.llm_config.as_ref().map(|l| canon(&serde_json::to_value(l).unwrap_or(J::Null))),
           "ha_role": format!("{:?}", c.ha_role), "sweep": c.last_health_sweep.is_some(),
           "scaling": c.last_scaling_recommendation.is_some()})
}

pub fn snap_raft(raft: &varpulis_cluster::raft::routes::SharedRaft) -> J {
    let m = raft.metrics().borrow().clone();
    json!({"vote": format!("{:?}", m.vote), "term": m.current_term, "last_log_index": m.last_log_index,
           "last_applied": format!("{:?}", m.last_applied), "membership": format!("{:?}", m.membership_config),
           "snapshot": format!("{:?}", m.snapshot), "purged": format!("{:?}", m.purged)})
}

pub const SOURCES: [&str; 4] = [
    "stream Out = A\n    .where(x > 0)\n    .emit(v: x)\n",
    "stream Out = A\n    .where(x > 10)\n    .emit(v: x)\n",
    "stream Out = A\n    .where(x > 20)\n    .emit(v: x)\n",
    "stream Out = = A where(\n",
];

pub struct CliWorld {
    pub mgr: SharedTenantManager,
    pub tenant_ids: Vec<String>,
    pub keys: Vec<String>,
    pub pipelines: Vec<Vec<String>>,
}

pub async fn build_cli(tenants: &J) -> CliWorld {
    let mgr = varpulis_runtime::tenant::shared_tenant_manager();
    let mut w = CliWorld { mgr: mgr.clone(), tenant_ids: vec![], keys: vec![], pipelines: vec![] };
    if let Some(ts) = tenants.as_array() {
        let mut m = mgr.write().await;
        for (i, t) in ts.iter().enumerate() {
            let key = t[0].as_str().unwrap().to_string();
            let n = t[1].as_u64().unwrap_or(0);
            let id = m.create_tenant(format!("tenant{}", i), key.clone(), TenantQuota::default()).unwrap();
            let mut ps = vec![];
            for k in 0..n {
                let pid = m
                    .deploy_pipeline_on_tenant(&id, format!("pl{}", k), SOURCES[(k as usize) % 3].to_string())
                    .await
                    .unwrap();
                ps.push(pid);
            }
            w.tenant_ids.push(id.0.clone());
            w.keys.push(key);
            w.pipelines.push(ps);
        }
    }
    w
}

/// Full observable state of a tenant manager: per tenant (sorted by id) its fields, usage and per pipeline
/// the metadata, counters and complete engine checkpoint; plus which known keys resolve to which tenant.
pub async fn snap_manager(mgr: &SharedTenantManager, probe_keys: &[String]) -> J {
    let m = mgr.read().await;
    let mut tenants: Vec<J> = Vec::new();
    for t in m.list_tenants() {
        let mut ps: Vec<J> = Vec::new();
        for p in t.pipelines.values() {
            let eng = p.engine.lock().await;
            let (ein, eout) = eng.event_counters();
            let cp = canon(&serde_json::to_value(eng.create_checkpoint()).unwrap_or(J::Null));
            ps.push(json!({"id": p.id, "name": p.name, "source": p.source, "status": p.status.to_string(),
                           "in": ein, "out": eout, "checkpoint": cp}));
        }
        ps.sort_by_key(|p| p["id"].as_str().unwrap().to_string());
        tenants.push(json!({"id": t.id.0, "name": t.name, "api_key": t.api_key,
                            "quota": [t.quota.max_pipelines, t.quota.max_events_per_second, t.quota.max_streams_per_pipeline],
                            "usage": [t.usage.events_processed, t.usage.output_events_emitted, t.usage.active_pipelines, t.usage.events_in_window],
                            "pipelines": ps}));
    }
    tenants.sort_by_key(|t| t["id"].as_str().unwrap().to_string());
    let index: Vec<J> = probe_keys
        .iter()
        .map(|k| json!([k, m.get_tenant_by_api_key(k).map(|t| t.0.clone())]))
        .collect();
    json!({"tenants": tenants, "index": index})
}

fn diff_keys(a: &J, b: &J) -> Vec<String> {
    let mut out = vec![];
    if let (Some(x), Some(y)) = (a.as_object(), b.as_object()) {
        for (k, v) in x {
            if y.get(k) != Some(v) {
                out.push(k.clone());
            }
        }
        for k in y.keys() {
            if !x.contains_key(k) {
                out.push(k.clone());
            }
        }
    } else if a != b {
        out.push("*".into());
    }
    out
}

fn headers_of(r: &J) -> Vec<(String, String)> {
    r["h"]
        .as_array()
        .map(|hs| hs.iter().map(|kv| (kv[0].as_str().unwrap().to_string(), kv[1].as_str().unwrap().to_string())).collect())
        .unwrap_or_default()
}

pub fn run(req: &J) -> J {
    let rt = RT.get().unwrap();
    rt.block_on(async {
        let app = req["app"].as_str().unwrap();
        let mut results = Vec::new();
        let mut raft_key_used = J::Null;
        for r in req["requests"].as_array().unwrap() {
            let method = r["m"].as_str().unwrap();
            let hs = headers_of(r);
            let body = &r["b"];
            let res = match app {
                "cluster" => {
                    let coord = build_coordinator().await;
                    let limiter = if req["limited"].as_bool().unwrap_or(false) {
                        let l = varpulis_cluster::rate_limit::RateLimiter::new(varpulis_cluster::rate_limit::RateLimitConfig::with_burst(1, 1));
                        // exhaust the bucket of the loopback address (warp::test has no remote address)
                        let ip = std::net::IpAddr::V4(std::net::Ipv4Addr::LOCALHOST);
                        let _ = l.check(ip).await;
                        Some(Arc::new(l))
                    } else {
                        None
                    };
                    let routes = varpulis_cluster::cluster_routes(coord.clone(), Arc::new(rbac_of(&req["rbac"])), limiter)
                        .recover(varpulis_cluster::api::handle_rejection);
                    let s0 = snap_coordinator(&coord).await;
                    let (st, b) = send(&routes, method, r["p"].as_str().unwrap(), &hs, body).await;
                    let s1 = snap_coordinator(&coord).await;
                    json!({"st": st, "body": b, "changed": s0 != s1, "diff": diff_keys(&s0, &s1)})
                }
                "raft" | "raftcluster" => {
                    let coord = build_coordinator().await;
                    let rbac = Arc::new(rbac_of(&req["rbac"]));
                    let key: Option<String> = if app == "raft" {
                        req["raft_key"].as_str().map(|s| s.to_string())
                    } else {
                        rbac.any_admin_key()
                    };
                    raft_key_used = json!(key);
                    let boot = varpulis_cluster::raft::bootstrap(2, &[], key.clone()).await.expect("raft bootstrap");
                    let raft = boot.raft.clone();
                    let s0 = json!({"coord": snap_coordinator(&coord).await, "raft": snap_raft(&raft)});
                    let (st, b) = if app == "raft" {
                        let routes = varpulis_cluster::raft::routes::raft_routes(raft.clone(), key)
                            .recover(varpulis_cluster::api::handle_rejection);
                        send(&routes, method, r["p"].as_str().unwrap(), &hs, body).await
                    } else {
                        let routes = varpulis_cluster::api::cluster_routes_with_raft(coord.clone(), rbac, raft.clone(), None)
                            .recover(varpulis_cluster::api::handle_rejection);
                        send(&routes, method, r["p"].as_str().unwrap(), &hs, body).await
                    };
                    tokio::time::sleep(std::time::Duration::from_millis(5)).await;
                    let s1 = json!({"coord": snap_coordinator(&coord).await, "raft": snap_raft(&raft)});
                    let _ = raft.shutdown().await;
                    json!({"st": st, "body": b, "changed": s0 != s1, "raft_key_used": raft_key_used.clone(),
                           "diff": diff_keys(&s0["raft"], &s1["raft"]).into_iter()
                           .chain(diff_keys(&s0["coord"], &s1["coord"])).collect::<Vec<_>>()})
                }
                "cli" => {
                    let w = build_cli(&req["tenants"]).await;
                    let mut p = r["p"].as_str().unwrap().to_string();
                    for (i, tag) in ["A", "B", "C"].iter().enumerate() {
                        if let Some(t) = w.tenant_ids.get(i) {
                            p = p.replace(&format!("{{t{}}}", tag), t);
                        }
                        if let Some(ps) = w.pipelines.get(i) {
                            if let Some(pid) = ps.first() {
                                p = p.replace(&format!("{{p{}}}", tag), pid);
                            }
                        }
                    }
                    let routes = varpulis_cli::api::api_routes(w.mgr.clone(), req["admin_key"].as_str().map(|s| s.to_string()))
                        .recover(varpulis_cli::auth::handle_rejection);
                    let s0 = snap_manager(&w.mgr, &w.keys).await;
                    let (st, b) = send(&routes, method, &p, &hs, body).await;
                    let s1 = snap_manager(&w.mgr, &w.keys).await;
                    json!({"st": st, "body": b, "changed": s0 != s1, "diff": diff_keys(&s0, &s1)})
                }
                other => json!({"error": format!("unknown app {}", other)}),
            };
            results.push(res);
        }
        json!({"results": results, "raft_key_used": raft_key_used})
    })
}
