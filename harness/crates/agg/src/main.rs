//! Harness for C14: drives the real aggregation functions of
//! crates/varpulis-runtime/src/aggregation.rs (simd.rs, columnar.rs) on the three execution paths.
//!
//! One JSON request per stdin line:
//!   {"events": [ [["field", <tagged value>], ..], .. ], "aggs": [spec, ..]}
//!   spec = {"k": "count"|"sum"|"avg"|"min"|"max"|"stddev"|"first"|"last"|"count_distinct", "f": "field"|null}
//!        | {"k": "ema", "p": <period>, "raw": bool, "f": ..}      raw = build `Ema { period }` instead of Ema::new
//!        | {"k": "expr", "op": "add"|"sub"|"mul"|"div", "l": spec, "r": spec}
//! Answer: {"row": [..], "shared": [..], "col": [..], "col2": [..], "colpush": [..], "direct": [[row, refs, col], ..]}
//!   row     = Aggregator::apply(&[Event])
//!   shared  = Aggregator::apply_shared(&[SharedEvent])            (-> apply_refs)
//!   col     = Aggregator::apply_columnar(ColumnarBuffer::from_events)
//!   col2    = the same buffer aggregated a second time (column cache warm)
//!   colpush = Aggregator::apply_columnar on a buffer filled by push(), with an aggregation run after half of the pushes
//!   direct  = AggregateFunc::{apply, apply_refs, apply_columnar} called on each function without the Aggregator
//! every entry is a tagged value (vp-common), floats as 64-bit patterns.
use serde_json::{json, Value as J};
use std::sync::Arc;
use varpulis_runtime::aggregation::*;
use varpulis_runtime::columnar::ColumnarBuffer;
use varpulis_runtime::event::{Event, SharedEvent};
use vp_common::{value_from_json, value_to_json};

fn mk_event(j: &J) -> Event {
    let mut e = Event::new("E");
    for kv in j.as_array().unwrap() {
        e.data.insert(Arc::from(kv[0].as_str().unwrap()), value_from_json(&kv[1]));
    }
    e
}

fn field_of(spec: &J) -> Option<String> {
    spec.get("f").and_then(|f| f.as_str()).map(|s| s.to_string())
}

fn mk_func(spec: &J) -> Box<dyn AggregateFunc> {
    match spec["k"].as_str().unwrap() {
        "count" => Box::new(Count),
        "sum" => Box::new(Sum),
        "avg" => Box::new(Avg),
        "min" => Box::new(Min),
        "max" => Box::new(Max),
        "stddev" => Box::new(StdDev),
        "first" => Box::new(First),
        "last" => Box::new(Last),
        "count_distinct" => Box::new(CountDistinct),
        "ema" => {
            let p = spec["p"].as_u64().unwrap() as usize;
            if spec["raw"].as_bool().unwrap_or(false) {
                Box::new(Ema { period: p })
            } else {
                Box::new(Ema::new(p))
            }
        }
        "expr" => {
            let op = match spec["op"].as_str().unwrap() {
                "add" => AggBinOp::Add,
                "sub" => AggBinOp::Sub,
                "mul" => AggBinOp::Mul,
                "div" => AggBinOp::Div,
                o => panic!("bad op {}", o),
            };
            Box::new(ExprAggregate::new(mk_func(&spec["l"]), field_of(&spec["l"]), op, mk_func(&spec["r"]), field_of(&spec["r"])))
        }
        k => panic!("bad aggregate kind {}", k),
    }
}

fn mk_aggregator(specs: &[J]) -> Aggregator {
    let mut a = Aggregator::new();
    for (i, s) in specs.iter().enumerate() {
        a = a.add(format!("a{}", i), mk_func(s), field_of(s));
    }
    a
}

fn vals(r: &AggResult, n: usize) -> J {
    J::Array((0..n).map(|i| value_to_json(r.get(&format!("a{}", i)).expect("alias present"))).collect())
}

fn handle(req: &J) -> J {
    let events: Vec<Event> = req["events"].as_array().unwrap().iter().map(mk_event).collect();
    let specs: Vec<J> = req["aggs"].as_array().unwrap().clone();
    let n = specs.len();
    let agg = mk_aggregator(&specs);
    let shared: Vec<SharedEvent> = events.iter().map(|e| Arc::new(e.clone())).collect();

    let row = agg.apply(&events);
    let sh = agg.apply_shared(&shared);
    let mut buf = ColumnarBuffer::from_events(shared.clone());
    let col = agg.apply_columnar(&mut buf);
    let col2 = agg.apply_columnar(&mut buf);
    let mut pbuf = ColumnarBuffer::new();
    let half = shared.len() / 2;
    for (i, e) in shared.iter().enumerate() {
        if i == half && half > 0 {
            // warm the column cache on a prefix: push() must invalidate it
            let _ = agg.apply_columnar(&mut pbuf);
        }
        pbuf.push(e.clone());
    }
    let colpush = agg.apply_columnar(&mut pbuf);

    let refs: Vec<&Event> = events.iter().collect();
    let mut direct = Vec::new();
    for s in &specs {
        let f = mk_func(s);
        let fld = field_of(s);
        let mut b = ColumnarBuffer::from_events(shared.clone());
        direct.push(json!([
            value_to_json(&f.apply(&events, fld.as_deref())),
            value_to_json(&f.apply_refs(&refs, fld.as_deref())),
            value_to_json(&f.apply_columnar(&mut b, fld.as_deref())),
        ]));
    }
    json!({
        "row": vals(&row, n), "shared": vals(&sh, n), "col": vals(&col, n), "col2": vals(&col2, n),
        "colpush": vals(&colpush, n), "direct": direct,
        "avx2": cfg!(target_arch = "x86_64") && std::is_x86_feature_detected!("avx2"),
    })
}

fn main() {
    vp_common::serve(handle);
}
