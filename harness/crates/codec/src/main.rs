//! vp-codec: harness for C20 (checkpoint serialisation round-trip) and C44 (event values through the REST API).
//!
//! Requests (one JSON object per line):
//!  {"prop":"C20","events":[<tagged event>...]}
//!     events -> SerializableEvent -> Checkpoint{window_states:{"w":{events}}} -> codec::serialize -> codec::deserialize
//!     -> Event.  Answer: {"text": <serialised checkpoint as a string>, "back": "ok"|"err:<msg>",
//!                         "restored":[<tagged event>...], "same_tree": bool}
//!  {"prop":"C20d","kind":"value"|"event","text":"<json text>"}
//!     codec::deserialize::<SerializableValue | SerializableEvent>(text) -> tagged value / event or "err"
//!  {"prop":"C20e","vpl":"...","events":[...]}   engine checkpoint -> serialize -> deserialize -> same tree?
//!  {"prop":"C44","mode":"single"|"batch","fields_text":"<json object text>"}
//!     POST /api/v1/pipelines/{id}/events(-batch) via warp::test against a pass-through pipeline;
//!     answer: {"status":..,"body":"<response body text>"}
use serde_json::{json, Value as J};
use std::collections::HashMap;
use std::sync::Arc;
use varpulis_runtime::codec;
use varpulis_runtime::event::Event;
use varpulis_runtime::persistence::{
    Checkpoint, EngineCheckpoint, SerializableEvent, SerializableValue, WindowCheckpoint,
};

fn c20(req: &J) -> J {
    let events: Vec<Event> = req["events"].as_array().unwrap().iter().map(vp_common::event_from_json).collect();
    let ses: Vec<SerializableEvent> = events.iter().map(SerializableEvent::from).collect();
    let mut window_states = HashMap::new();
    window_states.insert(
        "w".to_string(),
        WindowCheckpoint { events: ses, window_start_ms: Some(7), last_emit_ms: None, partitions: HashMap::new() },
    );
    let cp = Checkpoint {
        id: 3,
        timestamp_ms: 1_700_000_000_000,
        events_processed: events.len() as u64,
        window_states,
        pattern_states: HashMap::new(),
        metadata: HashMap::new(),
        context_states: HashMap::new(),
    };
    let bytes = match codec::serialize(&cp, codec::CheckpointFormat::active()) {
        Ok(b) => b,
        Err(e) => return json!({"text": null, "back": format!("sererr:{}", e)}),
    };
    let text = String::from_utf8_lossy(&bytes).to_string();
    match codec::deserialize::<Checkpoint>(&bytes) {
        Err(e) => json!({"text": text, "back": format!("err:{}", e)}),
        Ok(back) => {
            let same_tree = serde_json::to_value(&back).ok() == serde_json::to_value(&cp).ok();
            let restored: Vec<J> = back
                .window_states
                .get("w")
                .map(|w| w.events.clone())
                .unwrap_or_default()
                .into_iter()
                .map(|se| vp_common::event_to_json(&Event::from(se)))
                .collect();
            json!({"text": text, "back": "ok", "restored": restored, "same_tree": same_tree,
                   "id": back.id, "events_processed": back.events_processed})
        }
    }
}

fn c20d(req: &J) -> J {
    let text = req["text"].as_str().unwrap();
    match req["kind"].as_str().unwrap() {
        "value" => match codec::deserialize::<SerializableValue>(text.as_bytes()) {
            Err(_) => json!({"res": "err"}),
            Ok(sv) => {
                let mut fields = HashMap::new();
                fields.insert("f".to_string(), sv);
                let e = Event::from(SerializableEvent { event_type: "T".into(), timestamp_ms: 0, fields });
                json!({"res": "ok", "value": vp_common::value_to_json(e.data.get("f").unwrap())})
            }
        },
        "event" => match codec::deserialize::<SerializableEvent>(text.as_bytes()) {
            Err(_) => json!({"res": "err"}),
            Ok(se) => json!({"res": "ok", "event": vp_common::event_to_json(&Event::from(se))}),
        },
        other => panic!("kind {}", other),
    }
}

fn c20e(req: &J, rt: &tokio::runtime::Runtime) -> J {
    let vpl = req["vpl"].as_str().unwrap();
    let program = match varpulis_parser::parse(vpl) {
        Ok(p) => p,
        Err(e) => return json!({"error": format!("parse: {}", e)}),
    };
    let (tx, mut rx) = tokio::sync::mpsc::channel(100_000);
    let mut engine = varpulis_runtime::engine::Engine::new(tx);
    if let Err(e) = engine.load(&program) {
        return json!({"error": format!("load: {}", e)});
    }
    let events: Vec<Event> = req["events"].as_array().unwrap().iter().map(vp_common::event_from_json).collect();
    rt.block_on(async {
        for e in events {
            let _ = engine.process(e).await;
        }
    });
    while rx.try_recv().is_ok() {}
    let cp: EngineCheckpoint = engine.create_checkpoint();
    let v1 = serde_json::to_value(&cp).unwrap();
    let n_events = count_events(&v1);
    let bytes = match codec::serialize(&cp, codec::CheckpointFormat::active()) {
        Ok(b) => b,
        Err(e) => return json!({"back": format!("sererr:{}", e), "n_events": n_events}),
    };
    match codec::deserialize::<EngineCheckpoint>(&bytes) {
        Err(e) => json!({"back": format!("err:{}", e), "n_events": n_events}),
        Ok(back) => {
            let v2 = serde_json::to_value(&back).unwrap();
            // restore into a fresh engine and checkpoint again
            let (tx2, _rx2) = tokio::sync::mpsc::channel(100_000);
            let mut engine2 = varpulis_runtime::engine::Engine::new(tx2);
            engine2.load(&program).unwrap();
            let restored = engine2.restore_checkpoint(&back);
            let v3 = serde_json::to_value(engine2.create_checkpoint()).unwrap();
            json!({"back": "ok", "same_tree": v1 == v2, "n_events": n_events,
                   "restore": restored.is_ok(), "same_after_restore": strip_volatile(&v1) == strip_volatile(&v3)})
        }
    }
}

fn strip_volatile(v: &J) -> J {
    v.clone()
}

fn count_events(v: &J) -> usize {
    match v {
        J::Object(m) => {
            let own = if m.contains_key("event_type") && m.contains_key("timestamp_ms") { 1 } else { 0 };
            own + m.values().map(count_events).sum::<usize>()
        }
        J::Array(a) => a.iter().map(count_events).sum(),
        _ => 0,
    }
}

struct Api {
    mgr: varpulis_runtime::tenant::SharedTenantManager,
    pipeline_id: String,
}

fn setup_api(rt: &tokio::runtime::Runtime) -> Api {
    use varpulis_runtime::tenant::{TenantManager, TenantQuota};
    rt.block_on(async {
        let mut mgr = TenantManager::new();
        let id = mgr.create_tenant("T".into(), "key-1".into(), TenantQuota::enterprise()).unwrap();
        let tenant = mgr.get_tenant_mut(&id).unwrap();
        let pid = tenant
            .deploy_pipeline("P".into(), "stream Out = A\n    .emit(v: v, w: w)\n".into())
            .await
            .unwrap();
        Api { mgr: Arc::new(tokio::sync::RwLock::new(mgr)), pipeline_id: pid }
    })
}

fn c44(req: &J, rt: &tokio::runtime::Runtime, api: &Api) -> J {
    let fields_text = req["fields_text"].as_str().unwrap();
    let mode = req["mode"].as_str().unwrap();
    let (path, body) = if mode == "single" {
        (
            format!("/api/v1/pipelines/{}/events", api.pipeline_id),
            format!("{{\"event_type\":\"A\",\"fields\":{}}}", fields_text),
        )
    } else {
        (
            format!("/api/v1/pipelines/{}/events-batch", api.pipeline_id),
            format!("{{\"events\":[{{\"event_type\":\"A\",\"fields\":{}}}]}}", fields_text),
        )
    };
    let routes = varpulis_cli::api::api_routes(api.mgr.clone(), None);
    let resp = rt.block_on(async {
        warp::test::request()
            .method("POST")
            .path(&path)
            .header("x-api-key", "key-1")
            .header("content-type", "application/json")
            .body(body)
            .reply(&routes)
            .await
    });
    json!({"status": resp.status().as_u16(), "body": String::from_utf8_lossy(resp.body()).to_string()})
}

fn main() {
    let rt = tokio::runtime::Builder::new_multi_thread().worker_threads(2).enable_all().build().unwrap();
    let api = setup_api(&rt);
    let api = std::panic::AssertUnwindSafe(api);
    let rt = std::panic::AssertUnwindSafe(rt);
    vp_common::serve(move |req| match req["prop"].as_str().unwrap_or("") {
        "C20" => c20(req),
        "C20d" => c20d(req),
        "C20e" => c20e(req, &rt),
        "C44" => c44(req, &rt, &api),
        other => json!({"error": format!("unknown prop {}", other)}),
    });
}
