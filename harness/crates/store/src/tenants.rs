//! C22: tenant / pipeline metadata through the REST handlers onto a crashing StateStore, then recovery.
//!
//! Request: {"prop":"C22","ops":[["create","t1"],["deploy","t1","p1",0],["reload","t1","p1",1],["delpipe","t1","p1"],
//!                               ["deltenant","t1"],["restart"]], "crash_after": <number of store writes before the crash> | null}
//! The store wrapper lets `crash_after` writes (put/delete) through and then freezes: the write in progress and
//! all later ones are lost, which is what a process crash at that point leaves on the store. The history stops
//! at the operation during which the store froze (the in-flight operation).
//! Answer: {"steps":[{"status":<http>,"writes":n,"frozen":bool}...], "store":{...}, "recovered":[...]}
//! with tenant / pipeline ids replaced by the symbolic names of the history.
use serde_json::{json, Value as J};
use std::collections::HashMap;
use std::sync::atomic::{AtomicBool, AtomicI64, AtomicU64, Ordering};
use std::sync::Arc;
use varpulis_runtime::persistence::{Checkpoint, MemoryStore, StateStore, StoreError};
use varpulis_runtime::tenant::{SharedTenantManager, TenantManager};

/// Pipeline sources used by the histories. 0-4 declare exactly the same stream (`Scaled`), so a reload between
/// any two of them changes no stream: 1 differs from 0 only in comments and blank lines, 2 in the body of a user
/// function, 3 in an event declaration, 4 in a constant. 5 changes the stream itself, 6 and 7 are other programs.
/// A reload with the index already deployed is a byte-identical reload.
pub const SOURCES: [&str; 8] = [
    "fn scale(x: float) -> float:\n    x * 2.0\n\nstream Scaled = Measurement\n    .emit(result: scale(value))\n",
    "# reloaded: same program, new comment\nfn scale(x: float) -> float:\n    x * 2.0\n\n\nstream Scaled = Measurement\n    .emit(result: scale(value))\n\n",
    "fn scale(x: float) -> float:\n    x * 10.0\n\nstream Scaled = Measurement\n    .emit(result: scale(value))\n",
    "event Measurement:\n    value: float\n\nfn scale(x: float) -> float:\n    x * 2.0\n\nstream Scaled = Measurement\n    .emit(result: scale(value))\n",
    "const FACTOR = 3\n\nfn scale(x: float) -> float:\n    x * 2.0\n\nstream Scaled = Measurement\n    .emit(result: scale(value))\n",
    "fn scale(x: float) -> float:\n    x * 2.0\n\nstream Scaled = Measurement\n    .where(value > 1.0)\n    .emit(result: scale(value))\n",
    "stream S = A\n    .where(x > 2)\n    .emit(y: x)\n",
    "stream S2 = B\n    .emit(z: z)\n",
];

/// {"prop":"C22src"}: every source must parse and load, and the stream-preserving ones must really reload
/// with an empty ReloadReport (otherwise the histories do not reach the case they are meant to reach).
pub fn sources_ok(_req: &J) -> J {
    let mut out = Vec::new();
    for (i, src) in SOURCES.iter().enumerate() {
        let parsed = varpulis_parser::parse(src);
        let ok = match &parsed {
            Ok(p) => {
                let (tx, _rx) = tokio::sync::mpsc::channel(10);
                let mut e = varpulis_runtime::engine::Engine::new(tx);
                e.load(p).is_ok()
            }
            Err(_) => false,
        };
        // reload from source 0
        let empty_report = match (varpulis_parser::parse(SOURCES[0]), &parsed) {
            (Ok(p0), Ok(p)) => {
                let (tx, _rx) = tokio::sync::mpsc::channel(10);
                let mut e = varpulis_runtime::engine::Engine::new(tx);
                let _ = e.load(&p0);
                e.reload(p).map(|r| r.is_empty()).unwrap_or(false)
            }
            _ => false,
        };
        out.push(json!({"index": i, "loads": ok, "reload_from_0_changes_no_stream": empty_report,
                        "error": parsed.err().map(|e| e.to_string())}));
    }
    json!({ "sources": out })
}

pub struct CrashingStore {
    inner: Arc<MemoryStore>,
    left: AtomicI64,
    frozen: AtomicBool,
    writes: AtomicU64,
    log: std::sync::Mutex<Vec<String>>,
}

impl CrashingStore {
    fn new(inner: Arc<MemoryStore>, crash_after: Option<i64>) -> Self {
        Self {
            inner,
            left: AtomicI64::new(crash_after.unwrap_or(-1)),
            frozen: AtomicBool::new(false),
            writes: AtomicU64::new(0),
            log: std::sync::Mutex::new(Vec::new()),
        }
    }
    fn admit(&self, what: String) -> Result<(), StoreError> {
        if self.frozen.load(Ordering::SeqCst) {
            return Err(StoreError::IoError("crashed".into()));
        }
        let l = self.left.load(Ordering::SeqCst);
        if l == 0 {
            self.frozen.store(true, Ordering::SeqCst);
            return Err(StoreError::IoError("crashed".into()));
        }
        if l > 0 {
            self.left.store(l - 1, Ordering::SeqCst);
        }
        self.writes.fetch_add(1, Ordering::SeqCst);
        self.log.lock().unwrap().push(what);
        Ok(())
    }
}

impl StateStore for CrashingStore {
    fn save_checkpoint(&self, c: &Checkpoint) -> Result<(), StoreError> {
        self.admit(format!("ckpt:{}", c.id))?;
        self.inner.save_checkpoint(c)
    }
    fn load_latest_checkpoint(&self) -> Result<Option<Checkpoint>, StoreError> {
        self.inner.load_latest_checkpoint()
    }
    fn load_checkpoint(&self, id: u64) -> Result<Option<Checkpoint>, StoreError> {
        self.inner.load_checkpoint(id)
    }
    fn list_checkpoints(&self) -> Result<Vec<u64>, StoreError> {
        self.inner.list_checkpoints()
    }
    fn prune_checkpoints(&self, keep: usize) -> Result<usize, StoreError> {
        self.inner.prune_checkpoints(keep)
    }
    fn put(&self, key: &str, value: &[u8]) -> Result<(), StoreError> {
        self.admit(format!("put {}", key))?;
        self.inner.put(key, value)
    }
    fn get(&self, key: &str) -> Result<Option<Vec<u8>>, StoreError> {
        self.inner.get(key)
    }
    fn delete(&self, key: &str) -> Result<(), StoreError> {
        self.admit(format!("delete {}", key))?;
        self.inner.delete(key)
    }
    fn flush(&self) -> Result<(), StoreError> {
        Ok(())
    }
}

struct Names {
    tenants: HashMap<String, (String, String)>, // tname -> (id, api key)
    pipes: HashMap<(String, String), String>,   // (tname, pname) -> id
}

impl Names {
    fn tname(&self, id: &str) -> String {
        self.tenants.iter().find(|(_, v)| v.0 == id).map(|(k, _)| k.clone()).unwrap_or_else(|| format!("?{}", id))
    }
    fn pname(&self, id: &str) -> String {
        self.pipes.iter().find(|(_, v)| v.as_str() == id).map(|(k, _)| k.1.clone()).unwrap_or_else(|| format!("?{}", id))
    }
    fn key_owner(&self, key: &str) -> String {
        self.tenants.iter().find(|(_, v)| v.1 == key).map(|(k, _)| k.clone()).unwrap_or_else(|| "?".into())
    }
}

fn source_name(src: &str) -> String {
    SOURCES.iter().position(|s| *s == src).map(|i| format!("src{}", i)).unwrap_or_else(|| "?src".into())
}

fn dump_store(inner: &MemoryStore, names: &Names) -> J {
    let index: J = match inner.get("tenants:index").unwrap() {
        None => J::Null,
        Some(d) => {
            let ids: Vec<String> = serde_json::from_slice(&d).unwrap_or_default();
            json!(ids.iter().map(|i| names.tname(i)).collect::<Vec<_>>())
        }
    };
    let mut snaps = Vec::new();
    for (tname, (id, _)) in &names.tenants {
        if let Some(d) = inner.get(&format!("tenant:{}", id)).unwrap() {
            let v: J = serde_json::from_slice(&d).unwrap_or(J::Null);
            let mut pipes: Vec<J> = v["pipelines"]
                .as_array()
                .cloned()
                .unwrap_or_default()
                .iter()
                .map(|p| {
                    json!([names.pname(p["id"].as_str().unwrap_or("")), p["name"], source_name(p["source"].as_str().unwrap_or("")), p["status"]])
                })
                .collect();
            pipes.sort_by_key(|p| p.to_string());
            snaps.push(json!([tname, names.tname(v["id"].as_str().unwrap_or("")), v["name"], names.key_owner(v["api_key"].as_str().unwrap_or("")), pipes]));
        }
    }
    snaps.sort_by_key(|p| p.to_string());
    json!({"index": index, "snapshots": snaps})
}

fn dump_manager(mgr: &TenantManager, names: &Names) -> J {
    let mut ts = Vec::new();
    for t in mgr.list_tenants() {
        let mut pipes: Vec<J> = t
            .pipelines
            .values()
            .map(|p| json!([names.pname(&p.id), p.name, source_name(&p.source), p.status.to_string()]))
            .collect();
        pipes.sort_by_key(|p| p.to_string());
        let by_key = mgr.get_tenant_by_api_key(&t.api_key).map(|i| names.tname(i.as_str())).unwrap_or_else(|| "-".into());
        ts.push(json!([names.tname(t.id.as_str()), t.name, names.key_owner(&t.api_key), by_key, pipes]));
    }
    ts.sort_by_key(|p| p.to_string());
    json!(ts)
}

fn new_manager(store: Arc<dyn StateStore>) -> (SharedTenantManager, Result<usize, String>) {
    let mut mgr = TenantManager::with_store(store);
    let r = mgr.recover().map_err(|e| e.to_string());
    (Arc::new(tokio::sync::RwLock::new(mgr)), r)
}

pub fn c22(req: &J, rt: &tokio::runtime::Runtime) -> J {
    let inner = Arc::new(MemoryStore::new());
    let crash_after = req["crash_after"].as_i64();
    let store = Arc::new(CrashingStore::new(inner.clone(), crash_after));
    let (mut shared, _) = new_manager(store.clone());
    let mut names = Names { tenants: HashMap::new(), pipes: HashMap::new() };
    let mut steps = Vec::new();
    for op in req["ops"].as_array().unwrap() {
        if store.frozen.load(Ordering::SeqCst) {
            break;
        }
        let before = store.writes.load(Ordering::SeqCst);
        let kind = op[0].as_str().unwrap();
        let status: u16 = rt.block_on(async {
            let routes = varpulis_cli::api::api_routes(shared.clone(), Some("adm".to_string()));
            match kind {
                "create" => {
                    let t = op[1].as_str().unwrap();
                    let r = warp::test::request()
                        .method("POST")
                        .path("/api/v1/tenants")
                        .header("x-admin-key", "adm")
                        .json(&json!({"name": t, "quota_tier": "enterprise"}))
                        .reply(&routes)
                        .await;
                    if r.status().is_success() {
                        let b: J = serde_json::from_slice(r.body()).unwrap();
                        names.tenants.insert(t.to_string(), (b["id"].as_str().unwrap().to_string(), b["api_key"].as_str().unwrap().to_string()));
                    }
                    r.status().as_u16()
                }
                "deltenant" => {
                    let t = op[1].as_str().unwrap();
                    let id = names.tenants.get(t).map(|x| x.0.clone()).unwrap_or_else(|| "unknown".into());
                    warp::test::request()
                        .method("DELETE")
                        .path(&format!("/api/v1/tenants/{}", id))
                        .header("x-admin-key", "adm")
                        .reply(&routes)
                        .await
                        .status()
                        .as_u16()
                }
                "deploy" => {
                    let t = op[1].as_str().unwrap();
                    let p = op[2].as_str().unwrap();
                    let key = names.tenants.get(t).map(|x| x.1.clone()).unwrap_or_else(|| "nokey".into());
                    let r = warp::test::request()
                        .method("POST")
                        .path("/api/v1/pipelines")
                        .header("x-api-key", key)
                        .json(&json!({"name": p, "source": SOURCES[op[3].as_u64().unwrap() as usize]}))
                        .reply(&routes)
                        .await;
                    if r.status().is_success() {
                        let b: J = serde_json::from_slice(r.body()).unwrap();
                        names.pipes.insert((t.to_string(), p.to_string()), b["id"].as_str().unwrap().to_string());
                    }
                    r.status().as_u16()
                }
                "delpipe" | "reload" => {
                    let t = op[1].as_str().unwrap();
                    let p = op[2].as_str().unwrap();
                    let key = names.tenants.get(t).map(|x| x.1.clone()).unwrap_or_else(|| "nokey".into());
                    let pid = names.pipes.get(&(t.to_string(), p.to_string())).cloned().unwrap_or_else(|| "nopipe".into());
                    if kind == "delpipe" {
                        warp::test::request()
                            .method("DELETE")
                            .path(&format!("/api/v1/pipelines/{}", pid))
                            .header("x-api-key", key)
                            .reply(&routes)
                            .await
                            .status()
                            .as_u16()
                    } else {
                        warp::test::request()
                            .method("POST")
                            .path(&format!("/api/v1/pipelines/{}/reload", pid))
                            .header("x-api-key", key)
                            .json(&json!({"source": SOURCES[op[3].as_u64().unwrap() as usize]}))
                            .reply(&routes)
                            .await
                            .status()
                            .as_u16()
                    }
                }
                "restart" => {
                    let (m, r) = new_manager(store.clone());
                    shared = m;
                    if r.is_ok() {
                        200
                    } else {
                        500
                    }
                }
                other => panic!("op {}", other),
            }
        });
        let after = store.writes.load(Ordering::SeqCst);
        steps.push(json!({"status": status, "writes": after - before, "frozen": store.frozen.load(Ordering::SeqCst)}));
    }
    // the process is gone; a new server starts on what the store holds
    let store_dump = dump_store(&inner, &names);
    let (fresh, rec) = new_manager(inner.clone());
    let recovered = rt.block_on(async {
        let m = fresh.read().await;
        dump_manager(&m, &names)
    });
    let log = store.log.lock().unwrap().clone();
    let log: Vec<String> = log
        .iter()
        .map(|l| {
            let mut s = l.clone();
            for (t, (id, _)) in &names.tenants {
                s = s.replace(id.as_str(), t);
            }
            s
        })
        .collect();
    json!({"steps": steps, "store": store_dump, "recover_result": rec.map(|n| n as i64).unwrap_or(-1), "recovered": recovered, "writes_log": log})
}
