use serde_json::{json, Value as J};
pub fn c22(_req: &J, _rt: &tokio::runtime::Runtime) -> J {
    json!({"error": "not yet"})
}
