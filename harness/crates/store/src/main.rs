//! vp-store: harness for C21 (checkpoint file store under crashes) and C22 (tenant metadata store).
//!
//! One JSON request per line. C21 request:
//!   {"prop":"C21","max":2,"events":[["new"],["save",5],["savecrash",6,1,3],["corrupt","trunc",4],...]}
//! Answer: {"steps":[{"res":..., "files":[..], "recover":..}, ...]}
//!   files: sorted list of "<name>=full(<id>,<events_processed>)" / "<name>=bad"
//!   recover: result of a *fresh* CheckpointManager::new(..) + recover() on the directory
//!            ("newerr:<kind>" | "err:<kind>" | "none" | "ck(<id>,<events_processed>)")
use serde_json::{json, Value as J};
use std::collections::HashMap;
use std::panic::{catch_unwind, AssertUnwindSafe};
use std::path::{Path, PathBuf};
use std::sync::atomic::{AtomicU64, Ordering};
use std::sync::Arc;
use varpulis_runtime::persistence::{
    verif_crash, Checkpoint, CheckpointConfig, CheckpointManager, FileStore, StateStore, StoreError,
};

mod tenants;

static DIRN: AtomicU64 = AtomicU64::new(0);

pub fn fresh_dir(tag: &str) -> PathBuf {
    let n = DIRN.fetch_add(1, Ordering::SeqCst);
    let p = PathBuf::from(format!("/tmp/store-{}-{}-{}", tag, std::process::id(), n));
    let _ = std::fs::remove_dir_all(&p);
    p
}

fn err_kind(e: &StoreError) -> &'static str {
    match e {
        StoreError::IoError(_) => "io",
        StoreError::SerializationError(_) => "ser",
        StoreError::NotFound(_) => "notfound",
        StoreError::NotInitialized => "notinit",
        StoreError::IncompatibleVersion { .. } => "version",
    }
}

fn blank(data: u64) -> Checkpoint {
    Checkpoint {
        id: 0,
        timestamp_ms: 0,
        events_processed: data,
        window_states: HashMap::new(),
        pattern_states: HashMap::new(),
        metadata: HashMap::new(),
        context_states: HashMap::new(),
    }
}

fn cfg(max: usize) -> CheckpointConfig {
    CheckpointConfig { max_checkpoints: max, ..CheckpointConfig::default() }
}

fn listing(dir: &Path) -> Vec<String> {
    let d = dir.join("checkpoint");
    let mut out: Vec<(u64, u8, String)> = Vec::new();
    if let Ok(rd) = std::fs::read_dir(&d) {
        for e in rd.flatten() {
            let name = e.file_name().to_string_lossy().to_string();
            let data = std::fs::read(e.path()).unwrap_or_default();
            let cls = match varpulis_runtime::codec::deserialize::<Checkpoint>(&data) {
                Ok(c) => format!("full({},{})", c.id, c.events_processed),
                Err(_) => "bad".to_string(),
            };
            let (idpart, tmp) = match name.strip_suffix(".tmp") {
                Some(s) => (s.to_string(), 1u8),
                None => (name.clone(), 0u8),
            };
            let id = idpart.parse::<u64>().unwrap_or(u64::MAX);
            out.push((id, tmp, format!("{}={}", name, cls)));
        }
    }
    out.sort();
    out.into_iter().map(|x| x.2).collect()
}

fn observe_recover(dir: &Path, max: usize) -> String {
    let store: Arc<dyn StateStore> = match FileStore::open(dir) {
        Ok(s) => Arc::new(s),
        Err(e) => return format!("openerr:{}", err_kind(&e)),
    };
    let mgr = match CheckpointManager::new(store, cfg(max)) {
        Ok(m) => m,
        Err(e) => return format!("newerr:{}", err_kind(&e)),
    };
    match mgr.recover() {
        Ok(None) => "none".to_string(),
        Ok(Some(c)) => format!("ck({},{})", c.id, c.events_processed),
        Err(e) => format!("err:{}", err_kind(&e)),
    }
}

fn newest_file(dir: &Path) -> Option<PathBuf> {
    let d = dir.join("checkpoint");
    let mut best: Option<(u64, PathBuf)> = None;
    for e in std::fs::read_dir(&d).ok()?.flatten() {
        if let Ok(id) = e.file_name().to_string_lossy().parse::<u64>() {
            if best.as_ref().map_or(true, |b| id > b.0) {
                best = Some((id, e.path()));
            }
        }
    }
    best.map(|b| b.1)
}

fn c21(req: &J) -> J {
    let max = req["max"].as_u64().unwrap() as usize;
    let dir = fresh_dir("c21");
    let mut mgr: Option<CheckpointManager> = None;
    let mut steps = Vec::new();
    for ev in req["events"].as_array().unwrap() {
        let kind = ev[0].as_str().unwrap();
        let res: String = match kind {
            "new" => {
                mgr = None;
                match FileStore::open(&dir) {
                    Ok(s) => match CheckpointManager::new(Arc::new(s), cfg(max)) {
                        Ok(m) => {
                            mgr = Some(m);
                            "ok".into()
                        }
                        Err(e) => format!("err:{}", err_kind(&e)),
                    },
                    Err(e) => format!("err:{}", err_kind(&e)),
                }
            }
            "save" => match mgr.as_mut() {
                None => "nomgr".into(),
                Some(m) => {
                    verif_crash::disarm();
                    let r = m.checkpoint(blank(ev[1].as_u64().unwrap()));
                    let n = verif_crash::disarm();
                    match r {
                        Ok(()) => format!("ok:{}", n),
                        Err(e) => format!("err:{}", err_kind(&e)),
                    }
                }
            },
            "savecrash" => match mgr.take() {
                None => "nomgr".into(),
                Some(mut m) => {
                    let k = ev[2].as_u64().unwrap();
                    let torn = ev[3].as_u64();
                    verif_crash::arm(k, torn);
                    let r = catch_unwind(AssertUnwindSafe(|| m.checkpoint(blank(ev[1].as_u64().unwrap()))));
                    let n = verif_crash::disarm();
                    match r {
                        Ok(Ok(())) => {
                            mgr = Some(m);
                            format!("ok:{}", n)
                        }
                        Ok(Err(e)) => {
                            mgr = Some(m);
                            format!("err:{}", err_kind(&e))
                        }
                        Err(p) => {
                            if p.downcast_ref::<verif_crash::Crash>().is_some() {
                                drop(m);
                                "crash".into()
                            } else {
                                std::panic::resume_unwind(p)
                            }
                        }
                    }
                }
            },
            "corrupt" => match newest_file(&dir) {
                None => "nofile".into(),
                Some(p) => {
                    let data = std::fs::read(&p).unwrap();
                    let newdata: Vec<u8> = match ev[1].as_str().unwrap() {
                        "trunc" => {
                            // at least two bytes shorter: a file that an earlier "tail" fault made one byte
                            // longer must not become whole again (the model treats a corrupted file as unreadable)
                            let t = (ev[2].as_u64().unwrap() as usize).min(data.len().saturating_sub(2));
                            data[..t].to_vec()
                        }
                        "empty" => Vec::new(),
                        "garbage" => b"\x00\xffgarbage".to_vec(),
                        "flip" => {
                            let mut d = data.clone();
                            if !d.is_empty() {
                                d[0] = b'x';
                            }
                            d
                        }
                        "schema" => b"{\"id\":\"seven\"}".to_vec(),
                        "tail" => {
                            let mut d = data.clone();
                            d.extend_from_slice(b"}");
                            d
                        }
                        other => panic!("corrupt kind {}", other),
                    };
                    std::fs::write(&p, newdata).unwrap();
                    "ok".into()
                }
            },
            other => panic!("event kind {}", other),
        };
        steps.push(json!({"res": res, "files": listing(&dir), "recover": observe_recover(&dir, max)}));
    }
    drop(mgr);
    let _ = std::fs::remove_dir_all(&dir);
    json!({ "steps": steps })
}

/// Contract of the byte codec used by the model: a written checkpoint reads back, no proper prefix does.
fn codec_contract(req: &J) -> J {
    let mut c = blank(req["data"].as_u64().unwrap());
    c.id = req["id"].as_u64().unwrap();
    c.timestamp_ms = 1_700_000_000_123;
    let bytes = varpulis_runtime::codec::serialize(&c, varpulis_runtime::codec::CheckpointFormat::active()).unwrap();
    let back = varpulis_runtime::codec::deserialize::<Checkpoint>(&bytes).map(|b| (b.id, b.events_processed)).ok();
    let mut prefix_ok = 0;
    for k in 0..bytes.len() {
        if varpulis_runtime::codec::deserialize::<Checkpoint>(&bytes[..k]).is_ok() {
            prefix_ok += 1;
        }
    }
    json!({"len": bytes.len(), "roundtrip": back == Some((c.id, c.events_processed)), "prefixes_accepted": prefix_ok})
}

fn main() {
    let rt = tokio::runtime::Builder::new_multi_thread().worker_threads(2).enable_all().build().unwrap();
    vp_common::serve(move |req| match req["prop"].as_str().unwrap_or("") {
        "C21" => c21(req),
        "codec_contract" => codec_contract(req),
        "C22" => tenants::c22(req, &rt),
        "C22src" => tenants::sources_ok(req),
        other => json!({"error": format!("unknown prop {}", other)}),
    });
}
