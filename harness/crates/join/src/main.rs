//! Harness for C15: drives the real `JoinBuffer` of crates/varpulis-runtime/src/join.rs.
//!
//! One JSON request per stdin line:
//!   {"sources": ["S0","S1"], "keys": [["S0","k"],["S1","k"]], "window_ms": W, "cap": null|n,
//!    "ops": [{"src": "S0", "type": "T0", "ts_ms": t, "fields": [["k", <tagged>], ..]}, ..]}
//!     -> {"outs": [null | {"ts_ms": t, "type": "JoinedEvent", "fields": [[name, <tagged>], ..]}, ..],
//!         "totals": [total buffered events after each op], "per_source": [[src, n], ..] (final, in `sources` order)}
//!   {"pp": [t0, t1, ..], "cutoff": c}   -> {"pp": <slice::partition_point(|t| t < c)>}   (ties the model of the
//!                                           std binary search used by cleanup_expired to the toolchain's std)
//!   {"program": "<vpl>", "events": [{"type": "T0", "ts_ms": t, "fields": [..]}, ..]}
//!     -> {"outs": [[<event json>, ..], ..]}   Engine path: the program is loaded into an Engine, every event goes
//!        through Engine::process, the events that reach the output channel after each one are listed in channel order
//! Times are milliseconds relative to a fixed base instant (event time only: join.rs never reads the wall clock on
//! these paths).
use chrono::{DateTime, Duration, Utc};
use rustc_hash::FxHashMap;
use serde_json::{json, Value as J};
use std::sync::Arc;
use varpulis_runtime::event::Event;
use varpulis_runtime::join::JoinBuffer;
use vp_common::{value_from_json, value_to_json};

const BASE_MS: i64 = 1_000_000_000_000;

fn t(ms: i64) -> DateTime<Utc> {
    DateTime::<Utc>::from_timestamp_millis(BASE_MS + ms).unwrap()
}

fn run_engine(req: &J) -> J {
    let rt = tokio::runtime::Builder::new_current_thread().enable_all().build().unwrap();
    let program = match varpulis_parser::parse(req["program"].as_str().unwrap()) {
        Ok(p) => p,
        Err(e) => return json!({"error": format!("parse: {:?}", e)}),
    };
    let (tx, mut rx) = tokio::sync::mpsc::channel::<Event>(100_000);
    let mut eng = varpulis_runtime::Engine::new(tx);
    if let Err(e) = eng.load(&program) {
        return json!({"error": format!("load: {}", e)});
    }
    let mut outs = Vec::new();
    for op in req["events"].as_array().unwrap() {
        let mut e = Event::new_at(op["type"].as_str().unwrap(), t(op["ts_ms"].as_i64().unwrap()));
        for kv in op["fields"].as_array().unwrap() {
            e.data.insert(Arc::from(kv[0].as_str().unwrap()), value_from_json(&kv[1]));
        }
        let res = rt.block_on(eng.process(e));
        let mut got = Vec::new();
        if let Err(e) = res {
            got.push(json!({"error": format!("{}", e)}));
        }
        while let Ok(ev) = rx.try_recv() {
            got.push(json!({
                "ts_ms": ev.timestamp.timestamp_millis() - BASE_MS,
                "type": &*ev.event_type,
                "fields": ev.data.iter().map(|(k, v)| json!([&**k, value_to_json(v)])).collect::<Vec<_>>(),
            }));
        }
        outs.push(J::Array(got));
    }
    json!({ "outs": outs })
}

fn handle(req: &J) -> J {
    if req.get("program").is_some() {
        return run_engine(req);
    }
    if let Some(arr) = req.get("pp") {
        let v: Vec<i64> = arr.as_array().unwrap().iter().map(|x| x.as_i64().unwrap()).collect();
        let c = req["cutoff"].as_i64().unwrap();
        return json!({ "pp": v.partition_point(|x| *x < c) });
    }
    let sources: Vec<String> = req["sources"].as_array().unwrap().iter().map(|s| s.as_str().unwrap().to_string()).collect();
    let mut keys: FxHashMap<String, String> = FxHashMap::default();
    for kv in req["keys"].as_array().unwrap() {
        keys.insert(kv[0].as_str().unwrap().to_string(), kv[1].as_str().unwrap().to_string());
    }
    let w = Duration::milliseconds(req["window_ms"].as_i64().unwrap());
    let mut jb = JoinBuffer::new(sources.clone(), keys, w);
    if let Some(c) = req["cap"].as_u64() {
        jb = jb.with_max_events(c as usize);
    }
    let mut outs = Vec::new();
    let mut totals = Vec::new();
    for op in req["ops"].as_array().unwrap() {
        let mut e = Event::new_at(op["type"].as_str().unwrap(), t(op["ts_ms"].as_i64().unwrap()));
        for kv in op["fields"].as_array().unwrap() {
            e.data.insert(Arc::from(kv[0].as_str().unwrap()), value_from_json(&kv[1]));
        }
        let r = jb.add_event(op["src"].as_str().unwrap(), e);
        outs.push(match r {
            None => J::Null,
            Some(ev) => json!({
                "ts_ms": ev.timestamp.timestamp_millis() - BASE_MS,
                "type": &*ev.event_type,
                "fields": ev.data.iter().map(|(k, v)| json!([&**k, value_to_json(v)])).collect::<Vec<_>>(),
            }),
        });
        totals.push(jb.stats().total_events);
    }
    let st = jb.stats();
    let per: Vec<J> = sources.iter().map(|s| json!([s, st.events_per_source.get(s).copied().unwrap_or(0)])).collect();
    json!({ "outs": outs, "totals": totals, "per_source": per })
}

fn main() {
    vp_common::serve(handle);
}
