//! Harness for C41 (parser pre-passes, panics, termination, error positions).
//! One JSON request per stdin line, one JSON answer per line, flushed after each answer so that the
//! driver can impose a time limit per request and observe a hang or an abort of this process.
//!   {"kind":"parse","source":".."}    varpulis_parser::parse
//!        -> {"ok":n_statements | "err":{variant,line,column,position,message}, "panics":k, "ms":t [, "ast": debug text when "ast":true]}
//!        ("panics" = number of panics raised on any thread while the call ran; `parse` runs the
//!         real parser on a helper thread and turns a panic there into an error value)
//!   {"kind":"expand","source":".."}   expand::expand_declaration_loops -> {"ok":text} | {"err":msg} | {"panic":msg}
//!   {"kind":"indent","source":".."}   indent::preprocess_indentation   -> {"ok":text} | {"panic":msg}
//!   {"kind":"prepass","source":".."}  expand, then indent               -> {"ok":text} | {"err":msg} | {"panic":msg}
//!   {"kind":"srcloc","source":"..","position":p}  error::SourceLocation::from_position -> {"line","column","position"}
//!   {"kind":"locate","source":"..","positions":[p..]}  expand_with_origins, preprocess_indentation, then
//!        SourceLocation::in_original for every p -> {"ok":[[line,column,position]..], "pre_len":bytes} | {"err":msg} | {"panic":msg}
use serde_json::{json, Value as J};
use std::io::{BufRead, Write};
use std::sync::atomic::{AtomicUsize, Ordering};
use varpulis_parser::error::{ParseError, SourceLocation};

static PANICS: AtomicUsize = AtomicUsize::new(0);

fn guard<F: FnOnce() -> J + std::panic::UnwindSafe>(f: F) -> J {
    match std::panic::catch_unwind(f) {
        Ok(v) => v,
        Err(e) => {
            let msg = e
                .downcast_ref::<String>()
                .cloned()
                .or_else(|| e.downcast_ref::<&str>().map(|s| s.to_string()))
                .unwrap_or_default();
            json!({ "panic": msg })
        }
    }
}

fn err_json(e: &ParseError) -> J {
    match e {
        ParseError::Located { line, column, position, message, .. } => {
            json!({"variant":"Located","line":line,"column":column,"position":position,"message":message})
        }
        ParseError::UnexpectedToken { position, expected, found } => {
            json!({"variant":"UnexpectedToken","position":position,"message":format!("expected {}, found {}", expected, found)})
        }
        ParseError::UnexpectedEof => json!({"variant":"UnexpectedEof","message":""}),
        ParseError::InvalidToken { position, message } => json!({"variant":"InvalidToken","position":position,"message":message}),
        ParseError::InvalidNumber(m) => json!({"variant":"InvalidNumber","message":m}),
        ParseError::InvalidDuration(m) => json!({"variant":"InvalidDuration","message":m}),
        ParseError::InvalidTimestamp(m) => json!({"variant":"InvalidTimestamp","message":m}),
        ParseError::UnterminatedString(p) => json!({"variant":"UnterminatedString","position":p,"message":""}),
        ParseError::InvalidEscape(m) => json!({"variant":"InvalidEscape","message":m}),
        ParseError::Custom { span, message } => json!({"variant":"Custom","position":span.start,"end":span.end,"message":message}),
    }
}

fn handle(req: &J) -> J {
    let kind = req["kind"].as_str().unwrap_or("");
    let source = req["source"].as_str().unwrap_or("").to_string();
    match kind {
        "parse" => {
            let before = PANICS.load(Ordering::SeqCst);
            let t0 = std::time::Instant::now();
            let want_ast = req["ast"].as_bool().unwrap_or(false);
            let mut out = guard(move || match varpulis_parser::parse(&source) {
                Ok(p) => {
                    if want_ast {
                        json!({"ok": p.statements.len(), "ast": format!("{:?}", p.statements.iter().map(|s| &s.node).collect::<Vec<_>>())})
                    } else {
                        json!({"ok": p.statements.len()})
                    }
                }
                Err(e) => json!({"err": err_json(&e)}),
            });
            out["panics"] = json!(PANICS.load(Ordering::SeqCst) - before);
            out["ms"] = json!(t0.elapsed().as_millis() as u64);
            out
        }
        "expand" => guard(move || match varpulis_parser::expand::expand_declaration_loops(&source) {
            Ok(t) => json!({ "ok": t }),
            Err(e) => json!({ "err": e }),
        }),
        "indent" => guard(move || json!({"ok": varpulis_parser::indent::preprocess_indentation(&source)})),
        "prepass" => guard(move || match varpulis_parser::expand::expand_declaration_loops(&source) {
            Ok(t) => json!({"ok": varpulis_parser::indent::preprocess_indentation(&t)}),
            Err(e) => json!({ "err": e }),
        }),
        "srcloc" => {
            let p = req["position"].as_u64().unwrap_or(0) as usize;
            guard(move || {
                let l = SourceLocation::from_position(&source, p);
                json!({"line": l.line, "column": l.column, "position": l.position})
            })
        }
        "locate" => {
            let ps: Vec<usize> = req["positions"].as_array().map(|a| a.iter().map(|p| p.as_u64().unwrap_or(0) as usize).collect()).unwrap_or_default();
            guard(move || match varpulis_parser::expand::expand_with_origins(&source) {
                Ok((expanded, origins)) => {
                    let pre = varpulis_parser::indent::preprocess_indentation(&expanded);
                    let locs: Vec<J> = ps
                        .iter()
                        .map(|&p| {
                            let l = SourceLocation::in_original(&source, &expanded, &origins, &pre, p);
                            json!([l.line, l.column, l.position])
                        })
                        .collect();
                    json!({"ok": locs, "pre_len": pre.len(), "origins": origins})
                }
                Err(e) => json!({ "err": e }),
            })
        }
        _ => json!({"bad_request": kind}),
    }
}

fn main() {
    std::panic::set_hook(Box::new(|_| {
        PANICS.fetch_add(1, Ordering::SeqCst);
    }));
    let stdin = std::io::stdin();
    let out = std::io::stdout();
    let mut out = out.lock();
    for line in stdin.lock().lines() {
        let line = match line {
            Ok(l) => l,
            Err(_) => break,
        };
        if line.trim().is_empty() {
            continue;
        }
        let req: J = serde_json::from_str(&line).expect("request json");
        let v = handle(&req);
        writeln!(out, "{}", v).unwrap();
        out.flush().unwrap();
    }
}
