//! Helpers shared by the /verif harness binaries.
//!
//! Tagged JSON for values (so that Int/Float/Timestamp/... survive the trip exactly):
//!   {"n":null} {"b":true} {"i":"-5"} {"f":"<bits as u64 decimal>"} {"s":"txt"}
//!   {"ts":"<ns>"} {"dur":"<ns>"} {"a":[..]} {"m":[["k",v],..]}
//! Events: {"type":"A","ts_ns":<i64>,"fields":[["name",value],..]}
use serde_json::{json, Value as J};
use std::io::{BufRead, Write};
use std::sync::Arc;
use varpulis_core::Value;
use varpulis_runtime::event::Event;

pub fn value_from_json(j: &J) -> Value {
    let o = j.as_object().expect("tagged value");
    let (k, v) = o.iter().next().expect("one tag");
    match k.as_str() {
        "n" => Value::Null,
        "b" => Value::Bool(v.as_bool().unwrap()),
        "i" => Value::Int(v.as_str().unwrap().parse::<i64>().unwrap()),
        "f" => Value::Float(f64::from_bits(v.as_str().unwrap().parse::<u64>().unwrap())),
        "s" => Value::Str(v.as_str().unwrap().into()),
        "ts" => Value::Timestamp(v.as_str().unwrap().parse::<i64>().unwrap()),
        "dur" => Value::Duration(v.as_str().unwrap().parse::<u64>().unwrap()),
        "a" => Value::Array(Box::new(v.as_array().unwrap().iter().map(value_from_json).collect())),
        "m" => {
            let mut m: varpulis_runtime::event::FxIndexMap<Arc<str>, Value> = Default::default();
            for kv in v.as_array().unwrap() {
                m.insert(Arc::from(kv[0].as_str().unwrap()), value_from_json(&kv[1]));
            }
            Value::Map(Box::new(m))
        }
        _ => panic!("bad tag {}", k),
    }
}

pub fn value_to_json(v: &Value) -> J {
    match v {
        Value::Null => json!({"n": null}),
        Value::Bool(b) => json!({"b": b}),
        Value::Int(i) => json!({"i": i.to_string()}),
        Value::Float(f) => json!({"f": f.to_bits().to_string()}),
        Value::Str(s) => json!({"s": &**s}),
        Value::Timestamp(t) => json!({"ts": t.to_string()}),
        Value::Duration(d) => json!({"dur": d.to_string()}),
        Value::Array(a) => json!({"a": a.iter().map(value_to_json).collect::<Vec<_>>()}),
        Value::Map(m) => json!({"m": m.iter().map(|(k, v)| json!([&**k, value_to_json(v)])).collect::<Vec<_>>()}),
    }
}

pub fn event_from_json(j: &J) -> Event {
    let ty = j["type"].as_str().unwrap();
    let ns = j["ts_ns"].as_i64().unwrap_or(0);
    let ts = chrono::DateTime::<chrono::Utc>::from_timestamp(ns.div_euclid(1_000_000_000), ns.rem_euclid(1_000_000_000) as u32).unwrap();
    let mut e = Event::new_at(ty, ts);
    if let Some(fs) = j["fields"].as_array() {
        for kv in fs {
            e.data.insert(Arc::from(kv[0].as_str().unwrap()), value_from_json(&kv[1]));
        }
    }
    e
}

pub fn event_to_json(e: &Event) -> J {
    json!({
        "type": &*e.event_type,
        "ts_ns": e.timestamp.timestamp_nanos_opt(),
        "fields": e.data.iter().map(|(k, v)| json!([&**k, value_to_json(v)])).collect::<Vec<_>>()
    })
}

/// Reads one JSON request per stdin line, answers one JSON line each; a panic in `f`
/// becomes {"panic": "<message>"}.
pub fn serve<F: Fn(&J) -> J + std::panic::RefUnwindSafe>(f: F) {
    std::panic::set_hook(Box::new(|_| {}));
    let stdin = std::io::stdin();
    let out = std::io::stdout();
    let mut out = out.lock();
    for line in stdin.lock().lines() {
        let line = line.unwrap();
        if line.trim().is_empty() {
            continue;
        }
        let req: J = serde_json::from_str(&line).expect("request json");
        let res = std::panic::catch_unwind(|| f(&req));
        let v = match res {
            Ok(v) => v,
            Err(e) => {
                let msg = e
                    .downcast_ref::<String>()
                    .cloned()
                    .or_else(|| e.downcast_ref::<&str>().map(|s| s.to_string()))
                    .unwrap_or_default();
                json!({ "panic": msg })
            }
        };
        writeln!(out, "{}", v).unwrap();
        out.flush().unwrap();
    }
}
