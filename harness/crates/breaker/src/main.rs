//! vp-breaker — drives CircuitBreaker / ResilientSink / DeadLetterQueue on the injectable clock,
//! with concurrent senders interleaved at operation granularity (futures polled by hand).
//!
//! request : {"cfg":{"threshold":u32,"timeout_ns":u64,"dlq":bool,"name":str,"atomic_batch":bool},"ops":[op..]}
//!   ["t",ns]                         set the virtual clock
//!   ["start",sender,"send",[id]]     sender calls ResilientSink::send(event id) and runs until it blocks in the inner sink
//!   ["start",sender,"batch",[ids]]   same with send_batch
//!   ["finish",sender,k,msg,..]       the inner sink answers: events before index k succeed, event k fails with msg
//!                                    (k = -1: all succeed); the sender's call runs to completion
//!   ["allow"] ["succ"] ["fail"]      direct calls on the same CircuitBreaker
//! answer  : {"steps":[{"r":..,"st":"C|O|H"}..],"delivered":[ids],"dlq":[{"connector","error","id","type"}|{"unreadable":line}],
//!            "counters":[failures,successes,rejections],"dlq_count":n,"inflight":[senders]}
use serde_json::{json, Value as J};
use std::collections::HashMap;
use std::future::Future;
use std::pin::Pin;
use std::sync::atomic::Ordering;
use std::sync::{Arc, Mutex};
use std::task::{Context, Poll, Waker};
use std::time::Duration;
use varpulis_runtime::circuit_breaker::{verif_clock, CircuitBreaker, CircuitBreakerConfig, State};
use varpulis_runtime::dead_letter::DeadLetterQueue;
use varpulis_runtime::event::Event;
use varpulis_runtime::sink::{ResilientSink, Sink};

#[derive(Default)]
struct Shared {
    outcomes: HashMap<i64, Option<String>>, // event id -> None = ok, Some(msg) = fail
    delivered: Vec<i64>,
}

struct Mock {
    name: String,
    atomic_batch: bool,
    sh: Arc<Mutex<Shared>>,
}

struct Gate {
    sh: Arc<Mutex<Shared>>,
    id: i64,
}
impl Future for Gate {
    type Output = anyhow::Result<()>;
    fn poll(self: Pin<&mut Self>, _cx: &mut Context<'_>) -> Poll<Self::Output> {
        let mut s = self.sh.lock().unwrap();
        match s.outcomes.remove(&self.id) {
            None => Poll::Pending,
            Some(None) => {
                s.delivered.push(self.id);
                Poll::Ready(Ok(()))
            }
            Some(Some(msg)) => Poll::Ready(Err(anyhow::anyhow!(msg))),
        }
    }
}

/// all-or-nothing batch: waits for the outcome of every event, delivers all or none
struct BatchGate {
    sh: Arc<Mutex<Shared>>,
    ids: Vec<i64>,
}
impl Future for BatchGate {
    type Output = anyhow::Result<()>;
    fn poll(self: Pin<&mut Self>, _cx: &mut Context<'_>) -> Poll<Self::Output> {
        let mut s = self.sh.lock().unwrap();
        if !self.ids.iter().all(|i| s.outcomes.contains_key(i)) {
            return Poll::Pending;
        }
        let mut err = None;
        for i in &self.ids {
            if let Some(Some(m)) = s.outcomes.remove(i) {
                err.get_or_insert(m);
            }
        }
        match err {
            None => {
                let ids = self.ids.clone();
                s.delivered.extend(ids);
                Poll::Ready(Ok(()))
            }
            Some(m) => Poll::Ready(Err(anyhow::anyhow!(m))),
        }
    }
}

fn ev_id(e: &Event) -> i64 {
    e.get_int("id").unwrap_or(-1)
}

#[async_trait::async_trait]
impl Sink for Mock {
    fn name(&self) -> &str {
        &self.name
    }
    async fn send(&self, event: &Event) -> anyhow::Result<()> {
        Gate { sh: self.sh.clone(), id: ev_id(event) }.await
    }
    async fn send_batch(&self, events: &[Arc<Event>]) -> anyhow::Result<()> {
        if self.atomic_batch {
            BatchGate { sh: self.sh.clone(), ids: events.iter().map(|e| ev_id(e)).collect() }.await
        } else {
            // same as the trait's default implementation
            for event in events {
                self.send(event).await?;
            }
            Ok(())
        }
    }
    async fn flush(&self) -> anyhow::Result<()> {
        Ok(())
    }
    async fn close(&self) -> anyhow::Result<()> {
        Ok(())
    }
}

type Fut = Pin<Box<dyn Future<Output = anyhow::Result<()>>>>;

fn st_str(s: State) -> &'static str {
    match s {
        State::Closed => "C",
        State::Open => "O",
        State::HalfOpen => "H",
    }
}

fn mk_event(id: i64) -> Event {
    Event::new(format!("E{}", id % 3)).with_field("id", id)
}

fn poll_once(f: &mut Fut) -> Option<anyhow::Result<()>> {
    let w = Waker::noop();
    let mut cx = Context::from_waker(w);
    match f.as_mut().poll(&mut cx) {
        Poll::Ready(r) => Some(r),
        Poll::Pending => None,
    }
}

fn main() {
    let counter = std::sync::atomic::AtomicU64::new(0);
    vp_common::serve(move |req| {
        let c = &req["cfg"];
        let name = c["name"].as_str().unwrap_or("mock-sink").to_string();
        let cb = Arc::new(CircuitBreaker::new(CircuitBreakerConfig {
            failure_threshold: c["threshold"].as_u64().unwrap() as u32,
            reset_timeout: Duration::from_nanos(c["timeout_ns"].as_u64().unwrap()),
        }));
        let sh = Arc::new(Mutex::new(Shared::default()));
        let mock = Arc::new(Mock { name: name.clone(), atomic_batch: c["atomic_batch"].as_bool().unwrap_or(false), sh: sh.clone() });
        let n = counter.fetch_add(1, Ordering::SeqCst);
        let path = std::env::temp_dir().join(format!("small-dlq-{}-{}.jsonl", std::process::id(), n));
        let _ = std::fs::remove_file(&path);
        let dlq = if c["dlq"].as_bool().unwrap_or(true) { Some(Arc::new(DeadLetterQueue::open(&path).unwrap())) } else { None };
        let rs = Arc::new(ResilientSink::new(mock, cb.clone(), dlq.clone()));
        let mut inflight: Vec<(u64, Vec<i64>, Fut)> = Vec::new();
        let mut steps = Vec::new();
        verif_clock::set_ns(0);
        for op in req["ops"].as_array().unwrap() {
            let r: J = match op[0].as_str().unwrap() {
                "t" => {
                    verif_clock::set_ns(op[1].as_u64().unwrap());
                    json!("t")
                }
                "start" => {
                    let s = op[1].as_u64().unwrap();
                    let ids: Vec<i64> = op[3].as_array().unwrap().iter().map(|x| x.as_i64().unwrap()).collect();
                    let rs2 = rs.clone();
                    let mut f: Fut = if op[2] == "send" {
                        let ev = mk_event(ids[0]);
                        Box::pin(async move { rs2.send(&ev).await })
                    } else {
                        let evs: Vec<Arc<Event>> = ids.iter().map(|i| Arc::new(mk_event(*i))).collect();
                        Box::pin(async move { rs2.send_batch(&evs).await })
                    };
                    match poll_once(&mut f) {
                        None => {
                            inflight.push((s, ids.clone(), f));
                            json!("inflight")
                        }
                        Some(Ok(())) => json!("ok"),
                        Some(Err(e)) => json!(format!("err:{}", e)),
                    }
                }
                "finish" => {
                    let s = op[1].as_u64().unwrap();
                    let k = op[2].as_i64().unwrap();
                    let msg = op[3].as_str().unwrap_or("boom").to_string();
                    match inflight.iter().position(|(x, _, _)| *x == s) {
                        None => json!("invalid"),
                        Some(pos) => {
                            // the events of this call are the ones remembered at its start
                            let (_, ids, mut f) = inflight.remove(pos);
                            {
                                let mut g = sh.lock().unwrap();
                                for (i, id) in ids.iter().enumerate() {
                                    g.outcomes.insert(*id, if i as i64 == k { Some(msg.clone()) } else { None });
                                }
                            }
                            let r = poll_once(&mut f);
                            sh.lock().unwrap().outcomes.clear();
                            match r {
                                None => json!("stillpending"),
                                Some(Ok(())) => json!("ok"),
                                Some(Err(e)) => json!(format!("err:{}", e)),
                            }
                        }
                    }
                }
                "allow" => json!(cb.allow_request()),
                "succ" => {
                    cb.record_success();
                    json!("-")
                }
                "fail" => {
                    cb.record_failure();
                    json!("-")
                }
                x => panic!("bad op {}", x),
            };
            steps.push(json!({"r": r, "st": st_str(cb.state())}));
        }
        let pending: Vec<u64> = inflight.iter().map(|(s, _, _)| *s).collect();
        drop(inflight);
        let dlq_count = dlq.as_ref().map(|d| d.count());
        drop(rs);
        drop(dlq);
        let mut lines = Vec::new();
        if let Ok(content) = std::fs::read_to_string(&path) {
            for l in content.lines() {
                match serde_json::from_str::<J>(l) {
                    Ok(v) if v["event"].is_object() => lines.push(json!({
                        "connector": v["connector"], "error": v["error"],
                        "id": v["event"]["data"]["id"], "type": v["event"]["event_type"],
                        "ts": v["timestamp"].is_string()})),
                    _ => lines.push(json!({"unreadable": l})),
                }
            }
        }
        let _ = std::fs::remove_file(&path);
        let delivered = sh.lock().unwrap().delivered.clone();
        json!({"steps": steps, "delivered": delivered, "dlq": lines, "dlq_count": dlq_count, "inflight": pending,
               "counters": [cb.failures_total.load(Ordering::Relaxed), cb.successes_total.load(Ordering::Relaxed), cb.rejections_total.load(Ordering::Relaxed)]})
    });
}
