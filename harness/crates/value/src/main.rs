//! vp-value — Value equality and hashing.
//!
//! request : {"vals":[<tagged value>, ...]}      (tagged JSON as in vp-common)
//! answer  : {"eq":["0110..", ...]  row i = (vals[i] == vals[j]) for all j,
//!            "sip":[u64 as string per value]   DefaultHasher,
//!            "fx":[u64 as string per value]    FxHasher,
//!            "stream":["tok,tok,..", ...]}     every Hasher::write_* call made by Value::hash, in order
use serde_json::json;
use std::collections::hash_map::DefaultHasher;
use std::hash::{Hash, Hasher};
use varpulis_core::Value;

#[derive(Default)]
struct Rec {
    toks: Vec<String>,
}
impl Hasher for Rec {
    fn finish(&self) -> u64 {
        0
    }
    fn write(&mut self, bytes: &[u8]) {
        let hex: String = bytes.iter().map(|b| format!("{:02x}", b)).collect();
        self.toks.push(format!("b{}", hex));
    }
    fn write_u8(&mut self, i: u8) {
        self.toks.push(format!("u8:{}", i));
    }
    fn write_u16(&mut self, i: u16) {
        self.toks.push(format!("u16:{}", i));
    }
    fn write_u32(&mut self, i: u32) {
        self.toks.push(format!("u32:{}", i));
    }
    fn write_u64(&mut self, i: u64) {
        self.toks.push(format!("u64:{}", i));
    }
    fn write_u128(&mut self, i: u128) {
        self.toks.push(format!("u128:{}", i));
    }
    fn write_usize(&mut self, i: usize) {
        self.toks.push(format!("us:{}", i));
    }
    fn write_i8(&mut self, i: i8) {
        self.toks.push(format!("i8:{}", i));
    }
    fn write_i16(&mut self, i: i16) {
        self.toks.push(format!("i16:{}", i));
    }
    fn write_i32(&mut self, i: i32) {
        self.toks.push(format!("i32:{}", i));
    }
    fn write_i64(&mut self, i: i64) {
        self.toks.push(format!("i64:{}", i));
    }
    fn write_i128(&mut self, i: i128) {
        self.toks.push(format!("i128:{}", i));
    }
    fn write_isize(&mut self, i: isize) {
        self.toks.push(format!("is:{}", i));
    }
}

fn main() {
    vp_common::serve(|req| {
        let vals: Vec<Value> = req["vals"].as_array().unwrap().iter().map(vp_common::value_from_json).collect();
        let eq: Vec<String> = vals
            .iter()
            .map(|a| vals.iter().map(|b| if a == b { '1' } else { '0' }).collect())
            .collect();
        let sip: Vec<String> = vals
            .iter()
            .map(|v| {
                let mut h = DefaultHasher::new();
                v.hash(&mut h);
                h.finish().to_string()
            })
            .collect();
        let fx: Vec<String> = vals
            .iter()
            .map(|v| {
                let mut h = rustc_hash::FxHasher::default();
                v.hash(&mut h);
                h.finish().to_string()
            })
            .collect();
        let stream: Vec<String> = vals
            .iter()
            .map(|v| {
                let mut h = Rec::default();
                v.hash(&mut h);
                h.toks.join(",")
            })
            .collect();
        json!({"eq": eq, "sip": sip, "fx": fx, "stream": stream})
    });
}
