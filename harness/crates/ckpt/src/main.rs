//! vp-ckpt: checkpoint -> serialise -> restore differential for C19.
//!
//! Requests (one JSON object per line):
//!   {"op":"engine","vpl":..,"events":[EV..],"cuts":[k..]}
//!      uninterrupted run (Engine::process per event) and, for every cut k, a run that processes
//!      events[..k], calls create_checkpoint(), serialises the EngineCheckpoint with serde_json and
//!      reads it back, loads the same program into a FRESH engine, restore_checkpoint(), and
//!      continues with events[k..].
//!      -> {"full":[[EV..] per event], "cuts":[{"k":k,"tail":[[EV..] per event after the cut],"error":..}]}
//!   {"op":"window","kind":K,"a":n,"b":n,"key":"k","ops":[["add",EV]|["cp"]]}
//!      one window object of crates/varpulis-runtime/src/window.rs driven directly; "cp" replaces it by
//!      a NEW window restored from its serialised checkpoint.
//!      K = tumbling|sliding|count|scount|session|ptumbling|psliding|psession (a,b in ns for time windows)
//!      -> {"outs":[null | [[id, ts_ns]..] per op], "final":[[id,ts_ns]..] | null}
use serde_json::{json, Value as J};
use std::sync::Arc;
use varpulis_runtime::event::{Event, SharedEvent};
use varpulis_runtime::persistence::{EngineCheckpoint, WindowCheckpoint};
use varpulis_runtime::window::*;
use vp_common::{event_from_json, event_to_json};

async fn feed(eng: &mut varpulis_runtime::Engine, rx: &mut tokio::sync::mpsc::Receiver<Event>, evs: &[Event]) -> Result<Vec<J>, String> {
    let mut per_event = Vec::new();
    for e in evs {
        eng.process(e.clone()).await?;
        let mut out = Vec::new();
        while let Ok(o) = rx.try_recv() {
            out.push(event_to_json(&o));
        }
        per_event.push(json!(out));
    }
    Ok(per_event)
}

fn engine(req: &J) -> J {
    let vpl = req["vpl"].as_str().unwrap();
    let program = match varpulis_parser::parse(vpl) {
        Ok(p) => p,
        Err(e) => return json!({"error": format!("parse: {}", e)}),
    };
    let events: Vec<Event> = req["events"].as_array().unwrap().iter().map(event_from_json).collect();
    let rt = tokio::runtime::Builder::new_current_thread().enable_all().build().unwrap();
    rt.block_on(async {
        let (tx, mut rx) = tokio::sync::mpsc::channel::<Event>(100_000);
        let mut eng = varpulis_runtime::Engine::new(tx);
        if let Err(e) = eng.load(&program) {
            return json!({"error": format!("load: {}", e)});
        }
        let full = match feed(&mut eng, &mut rx, &events).await {
            Ok(v) => v,
            Err(e) => return json!({"error": format!("process: {}", e)}),
        };
        let mut cuts = Vec::new();
        for kj in req["cuts"].as_array().unwrap() {
            let k = kj.as_u64().unwrap() as usize;
            let (tx1, mut rx1) = tokio::sync::mpsc::channel::<Event>(100_000);
            let mut e1 = varpulis_runtime::Engine::new(tx1);
            e1.load(&program).unwrap();
            if let Err(e) = feed(&mut e1, &mut rx1, &events[..k]).await {
                cuts.push(json!({"k": k, "error": e}));
                continue;
            }
            let cp = e1.create_checkpoint();
            let text = match serde_json::to_string(&cp) {
                Ok(t) => t,
                Err(e) => {
                    cuts.push(json!({"k": k, "error": format!("serialise: {}", e)}));
                    continue;
                }
            };
            let cp2: EngineCheckpoint = match serde_json::from_str(&text) {
                Ok(c) => c,
                Err(e) => {
                    cuts.push(json!({"k": k, "error": format!("deserialise: {}", e)}));
                    continue;
                }
            };
            let (tx2, mut rx2) = tokio::sync::mpsc::channel::<Event>(100_000);
            let mut e2 = varpulis_runtime::Engine::new(tx2);
            e2.load(&program).unwrap();
            if let Err(e) = e2.restore_checkpoint(&cp2) {
                cuts.push(json!({"k": k, "error": format!("restore: {}", e)}));
                continue;
            }
            match feed(&mut e2, &mut rx2, &events[k..]).await {
                Ok(tail) => cuts.push(json!({"k": k, "tail": tail})),
                Err(e) => cuts.push(json!({"k": k, "error": e})),
            }
        }
        json!({"full": full, "cuts": cuts})
    })
}

enum W {
    T(TumblingWindow),
    Sl(SlidingWindow),
    C(CountWindow),
    Sc(SlidingCountWindow),
    S(SessionWindow),
    PT(PartitionedTumblingWindow),
    PSl(PartitionedSlidingWindow),
    PS(PartitionedSessionWindow),
}

fn mk(kind: &str, a: i64, b: i64, key: &str) -> W {
    let d = chrono::Duration::nanoseconds;
    match kind {
        "tumbling" => W::T(TumblingWindow::new(d(a))),
        "sliding" => W::Sl(SlidingWindow::new(d(a), d(b))),
        "count" => W::C(CountWindow::new(a as usize)),
        "scount" => W::Sc(SlidingCountWindow::new(a as usize, b as usize)),
        "session" => W::S(SessionWindow::new(d(a))),
        "ptumbling" => W::PT(PartitionedTumblingWindow::new(key.to_string(), d(a))),
        "psliding" => W::PSl(PartitionedSlidingWindow::new(key.to_string(), d(a), d(b))),
        "psession" => W::PS(PartitionedSessionWindow::new(key.to_string(), d(a))),
        other => panic!("unknown window kind {}", other),
    }
}

fn ids(evs: &[SharedEvent]) -> J {
    json!(evs
        .iter()
        .map(|e| json!([e.get("id").and_then(|v| v.as_int()).unwrap_or(-1), e.timestamp.timestamp_nanos_opt()]))
        .collect::<Vec<_>>())
}

fn window(req: &J) -> J {
    let kind = req["kind"].as_str().unwrap();
    let a = req["a"].as_i64().unwrap_or(0);
    let b = req["b"].as_i64().unwrap_or(0);
    let key = req["key"].as_str().unwrap_or("k");
    let mut w = mk(kind, a, b, key);
    let mut outs = Vec::new();
    for op in req["ops"].as_array().unwrap() {
        match op[0].as_str().unwrap() {
            "add" => {
                let e: SharedEvent = Arc::new(event_from_json(&op[1]));
                let r = match &mut w {
                    W::T(x) => x.add_shared(e),
                    W::Sl(x) => x.add_shared(e),
                    W::C(x) => x.add_shared(e),
                    W::Sc(x) => x.add_shared(e),
                    W::S(x) => x.add_shared(e),
                    W::PT(x) => x.add_shared(e),
                    W::PSl(x) => x.add_shared(e),
                    W::PS(x) => x.add_shared(e),
                };
                outs.push(match r {
                    Some(v) => ids(&v),
                    None => J::Null,
                });
            }
            "cp" => {
                let cp = match &w {
                    W::T(x) => x.checkpoint(),
                    W::Sl(x) => x.checkpoint(),
                    W::C(x) => x.checkpoint(),
                    W::Sc(x) => x.checkpoint(),
                    W::S(x) => x.checkpoint(),
                    W::PT(x) => x.checkpoint(),
                    W::PSl(x) => x.checkpoint(),
                    W::PS(x) => x.checkpoint(),
                };
                let text = serde_json::to_string(&cp).unwrap();
                let cp2: WindowCheckpoint = serde_json::from_str(&text).unwrap();
                let mut n = mk(kind, a, b, key);
                match &mut n {
                    W::T(x) => x.restore(&cp2),
                    W::Sl(x) => x.restore(&cp2),
                    W::C(x) => x.restore(&cp2),
                    W::Sc(x) => x.restore(&cp2),
                    W::S(x) => x.restore(&cp2),
                    W::PT(x) => x.restore(&cp2),
                    W::PSl(x) => x.restore(&cp2),
                    W::PS(x) => x.restore(&cp2),
                }
                w = n;
                outs.push(json!("cp"));
            }
            other => panic!("unknown op {}", other),
        }
    }
    // what is still buffered (sorted by id for the partitioned windows, whose flush order is the hash order)
    let fin = match &mut w {
        W::T(x) => ids(&x.flush_shared()),
        W::Sl(x) => ids(&x.current_shared()),
        W::C(x) => ids(&x.flush_shared()),
        W::Sc(x) => json!(x.current_count()),
        W::S(x) => ids(&x.flush_shared()),
        W::PT(x) => sorted(ids(&x.flush_shared())),
        W::PSl(x) => sorted(ids(&x.current_all_shared())),
        W::PS(x) => sorted(ids(&x.flush_shared())),
    };
    json!({"outs": outs, "final": fin})
}

fn sorted(j: J) -> J {
    let mut v: Vec<J> = j.as_array().cloned().unwrap_or_default();
    v.sort_by_key(|x| x[0].as_i64().unwrap_or(0));
    json!(v)
}

fn main() {
    vp_common::serve(|req| match req["op"].as_str().unwrap_or("") {
        "engine" => engine(req),
        "window" => window(req),
        other => json!({"error": format!("unknown op {}", other)}),
    });
}
