//! Harness for C43 (language-server handlers: no panic, ranges inside the document).
//! One JSON request per stdin line, one JSON answer per line, flushed after each answer.
//!   {"kind":"doc","text":"..","positions":[[line,character],..]}
//!     -> {"diagnostics": H, "semantic_tokens": H, "document_symbols": H,
//!         "hover": P, "completion": P, "definition": P, "references": P, "panics": n}
//!        H = {"ranges":[[sl,sc,el,ec],..]} | {"panic":msg}
//!        P = {"ranges":[..distinct ranges over all positions..], "answers":n,
//!             "panics":[[line,character,msg],..]}   (each position runs under its own catch_unwind)
//!        "panics" = panics raised on any thread while the request ran (parse() runs on a helper
//!        thread and turns a panic there into an error value)
//!   {"kind":"diag","text":".."} -> {"ok":[{"range":[..],"message":..}..]} | {"panic":msg}   (diagnostics with their messages)
//!   {"kind":"fns","text":"..","offsets":[p..],"positions":[[line,character]..],"errors":[E..],"spans":[[s,e]..]}
//!     the private position arithmetic through the cfg(varpulis_verif) hooks, each call under catch_unwind:
//!     -> {"p2lc":[[line,col]..]           diagnostics::position_to_line_col per offset
//!         "b2p":[[line,col]..]            navigation::byte_offset_to_position per offset (through span_to_location)
//!         "word_nav":[w|null..], "word_hover":[..]   word_at_position / get_word_at_position per position
//!         "endcol":[n..]                  get_error_end_column(text, line, character) per position
//!         "ranges":[[sl,sc,el,ec]..]      error_to_diagnostic(text, E).range per error
//!         "spans":[[sl,sc,el,ec]..]}      span_to_location per span;          a panic shows as {"panic":msg} in place
//!     E = {"v":"Located","line":l,"column":c} | {"v":"UnexpectedToken","position":p,"found":"txt"} | {"v":"UnexpectedEof"}
//!       | {"v":"InvalidToken","position":p} | {"v":"InvalidNumber"} | {"v":"UnterminatedString","position":p} | {"v":"Custom","start":s,"end":e}
//!   {"kind":"alnum","text":".."} -> {"ok":[bool per char]}    c.is_alphanumeric() || c == '_'
//!   {"kind":"parse_error","text":".."} -> {"err":E|null}       the ParseError of varpulis_parser::parse in the shape above
use serde_json::{json, Value as J};
use std::io::{BufRead, Write};
use std::sync::atomic::{AtomicUsize, Ordering};
use tower_lsp::lsp_types::{Position, Range, Url};

static PANICS: AtomicUsize = AtomicUsize::new(0);

fn catch<T, F: FnOnce() -> T + std::panic::UnwindSafe>(f: F) -> Result<T, String> {
    std::panic::catch_unwind(f).map_err(|e| {
        e.downcast_ref::<String>()
            .cloned()
            .or_else(|| e.downcast_ref::<&str>().map(|s| s.to_string()))
            .unwrap_or_default()
    })
}

fn rj(r: &Range) -> J {
    json!([r.start.line, r.start.character, r.end.line, r.end.character])
}

fn whole(res: Result<Vec<Range>, String>) -> J {
    match res {
        Ok(rs) => json!({"ranges": rs.iter().map(rj).collect::<Vec<_>>()}),
        Err(m) => json!({ "panic": m }),
    }
}

fn per_position<F: Fn(Position) -> Vec<Range> + std::panic::RefUnwindSafe>(ps: &[(u32, u32)], f: F) -> J {
    let mut ranges: Vec<J> = Vec::new();
    let mut panics: Vec<J> = Vec::new();
    let mut answers = 0usize;
    for &(line, character) in ps {
        match catch(|| f(Position { line, character })) {
            Ok(rs) => {
                if !rs.is_empty() {
                    answers += 1;
                }
                for r in rs {
                    let j = rj(&r);
                    if !ranges.contains(&j) {
                        ranges.push(j);
                    }
                }
            }
            Err(m) => {
                if panics.len() < 5 {
                    panics.push(json!([line, character, m]));
                }
            }
        }
    }
    json!({"ranges": ranges, "answers": answers, "panics": panics})
}

fn err_from_json(e: &J) -> varpulis_parser::ParseError {
    use varpulis_parser::ParseError as E;
    let n = |k: &str| e[k].as_u64().unwrap_or(0) as usize;
    match e["v"].as_str().unwrap_or("") {
        "Located" => E::Located { line: n("line"), column: n("column"), position: n("position"), message: "m".into(), hint: None },
        "UnexpectedToken" => E::UnexpectedToken { position: n("position"), expected: "x".into(), found: e["found"].as_str().unwrap_or("").to_string() },
        "UnexpectedEof" => E::UnexpectedEof,
        "InvalidToken" => E::InvalidToken { position: n("position"), message: "m".into() },
        "UnterminatedString" => E::UnterminatedString(n("position")),
        "Custom" => E::Custom { span: varpulis_core::Span::new(n("start"), n("end")), message: "m".into() },
        _ => E::InvalidNumber("m".into()),
    }
}

fn err_to_json(e: &varpulis_parser::ParseError) -> J {
    use varpulis_parser::ParseError as E;
    match e {
        E::Located { line, column, position, .. } => json!({"v":"Located","line":line,"column":column,"position":position}),
        E::UnexpectedToken { position, found, .. } => json!({"v":"UnexpectedToken","position":position,"found":found}),
        E::UnexpectedEof => json!({"v":"UnexpectedEof"}),
        E::InvalidToken { position, .. } => json!({"v":"InvalidToken","position":position}),
        E::UnterminatedString(p) => json!({"v":"UnterminatedString","position":p}),
        E::Custom { span, .. } => json!({"v":"Custom","start":span.start,"end":span.end}),
        _ => json!({"v":"InvalidNumber"}),
    }
}

fn handle(req: &J) -> J {
    let text = req["text"].as_str().unwrap_or("").to_string();
    match req["kind"].as_str().unwrap_or("") {
        "doc" => {
            let ps: Vec<(u32, u32)> = req["positions"]
                .as_array()
                .map(|a| a.iter().map(|p| (p[0].as_u64().unwrap_or(0) as u32, p[1].as_u64().unwrap_or(0) as u32)).collect())
                .unwrap_or_default();
            let uri = Url::parse("file:///doc.vpl").unwrap();
            let before = PANICS.load(Ordering::SeqCst);
            let t = &text;
            let diagnostics = whole(catch(|| varpulis_lsp::diagnostics::get_diagnostics(t).iter().map(|d| d.range).collect()));
            let semantic = whole(catch(|| {
                // decode the relative encoding into absolute single-line ranges
                let mut line = 0u32;
                let mut start = 0u32;
                varpulis_lsp::semantic::get_semantic_tokens(t)
                    .iter()
                    .map(|k| {
                        if k.delta_line > 0 {
                            line += k.delta_line;
                            start = k.delta_start;
                        } else {
                            start += k.delta_start;
                        }
                        Range {
                            start: Position { line, character: start },
                            end: Position { line, character: start + k.length },
                        }
                    })
                    .collect()
            }));
            let symbols = whole(catch(|| varpulis_lsp::semantic::get_document_symbols(t).iter().map(|s| s.location.range).collect()));
            let hover = per_position(&ps, |p| varpulis_lsp::hover::get_hover(t, p).and_then(|h| h.range).into_iter().collect());
            let completion = per_position(&ps, |p| {
                varpulis_lsp::completion::get_completions(t, p)
                    .iter()
                    .filter_map(|c| match &c.text_edit {
                        Some(tower_lsp::lsp_types::CompletionTextEdit::Edit(e)) => Some(e.range),
                        Some(tower_lsp::lsp_types::CompletionTextEdit::InsertAndReplace(e)) => Some(e.replace),
                        None => None,
                    })
                    .collect()
            });
            let definition = per_position(&ps, |p| varpulis_lsp::navigation::get_definition(t, p, &uri).map(|l| l.range).into_iter().collect());
            let references = per_position(&ps, |p| {
                varpulis_lsp::navigation::get_references(t, p, &uri).map(|v| v.iter().map(|l| l.range).collect()).unwrap_or_default()
            });
            json!({"diagnostics": diagnostics, "semantic_tokens": semantic, "document_symbols": symbols,
                   "hover": hover, "completion": completion, "definition": definition, "references": references,
                   "panics": PANICS.load(Ordering::SeqCst) - before})
        }
        "diag" => match catch(|| varpulis_lsp::diagnostics::get_diagnostics(&text)) {
            Ok(ds) => json!({"ok": ds.iter().map(|d| json!({"range": rj(&d.range), "message": d.message})).collect::<Vec<_>>()}),
            Err(m) => json!({ "panic": m }),
        },
        "alnum" => json!({"ok": text.chars().map(|c| c.is_alphanumeric() || c == '_').collect::<Vec<_>>()}),
        "parse_error" => match catch(|| varpulis_parser::parse(&text)) {
            Ok(Ok(_)) => json!({ "err": null }),
            Ok(Err(e)) => json!({"err": err_to_json(&e)}),
            Err(m) => json!({ "panic": m }),
        },
        "fns" => {
            let t = &text;
            let uri = Url::parse("file:///doc.vpl").unwrap();
            let u = &uri;
            let offsets: Vec<usize> = req["offsets"].as_array().map(|a| a.iter().map(|p| p.as_u64().unwrap_or(0) as usize).collect()).unwrap_or_default();
            let ps: Vec<(u32, u32)> = req["positions"]
                .as_array()
                .map(|a| a.iter().map(|p| (p[0].as_u64().unwrap_or(0) as u32, p[1].as_u64().unwrap_or(0) as u32)).collect())
                .unwrap_or_default();
            let or_panic = |r: Result<J, String>| r.unwrap_or_else(|m| json!({ "panic": m }));
            let p2lc: Vec<J> = offsets.iter().map(|&p| or_panic(catch(|| { let (l, c) = varpulis_lsp::diagnostics::verif_position_to_line_col(t, p); json!([l, c]) }))).collect();
            let b2p: Vec<J> = offsets.iter().map(|&p| or_panic(catch(|| { let r = varpulis_lsp::navigation::verif_span_to_range(t, p, p, u); json!([r.start.line, r.start.character]) }))).collect();
            let word_nav: Vec<J> = ps.iter().map(|&(line, character)| or_panic(catch(|| json!(varpulis_lsp::navigation::verif_word_at_position(t, Position { line, character }))))).collect();
            let word_hover: Vec<J> = ps.iter().map(|&(line, character)| or_panic(catch(|| json!(varpulis_lsp::hover::verif_word_at_position(t, Position { line, character }))))).collect();
            let endcol: Vec<J> = ps.iter().map(|&(line, character)| or_panic(catch(|| json!(varpulis_lsp::diagnostics::verif_error_end_column(t, line as usize, character as usize))))).collect();
            let ranges: Vec<J> = req["errors"].as_array().map(|a| a.iter().map(|e| {
                let err = err_from_json(e);
                or_panic(catch(|| rj(&varpulis_lsp::diagnostics::verif_error_to_diagnostic(t, &err).range)))
            }).collect()).unwrap_or_default();
            let spans: Vec<J> = req["spans"].as_array().map(|a| a.iter().map(|sp| {
                let (a, b) = (sp[0].as_u64().unwrap_or(0) as usize, sp[1].as_u64().unwrap_or(0) as usize);
                or_panic(catch(|| rj(&varpulis_lsp::navigation::verif_span_to_range(t, a, b, u))))
            }).collect()).unwrap_or_default();
            json!({"p2lc": p2lc, "b2p": b2p, "word_nav": word_nav, "word_hover": word_hover, "endcol": endcol, "ranges": ranges, "spans": spans})
        }
        k => json!({ "bad_request": k }),
    }
}

fn main() {
    std::panic::set_hook(Box::new(|_| {
        PANICS.fetch_add(1, Ordering::SeqCst);
    }));
    let stdin = std::io::stdin();
    let out = std::io::stdout();
    let mut out = out.lock();
    for line in stdin.lock().lines() {
        let line = match line {
            Ok(l) => l,
            Err(_) => break,
        };
        if line.trim().is_empty() {
            continue;
        }
        let req: J = serde_json::from_str(&line).expect("request json");
        let v = handle(&req);
        writeln!(out, "{}", v).unwrap();
        out.flush().unwrap();
    }
}
