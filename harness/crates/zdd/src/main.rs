//! Harness for C06/C07: runs op sequences on the real ZddArena / Zdd and prints observables.
//! One JSON request per stdin line: {"api":"arena"|"zdd","ops":[[op,args..],..]}
//! Answer per line: {"steps":[...], "final":[...], "nodes":[...]} or {"panic":"..."}
use serde_json::{json, Value};
use std::io::{BufRead, Write};
use varpulis_zdd::{Zdd, ZddArena, ZddHandle, ZddRef};

fn r2s(r: ZddRef) -> String {
    match r {
        ZddRef::Empty => "E".into(),
        ZddRef::Base => "B".into(),
        ZddRef::Node(i) => format!("N{}", i),
    }
}

fn u32s(v: &Value) -> Vec<u32> {
    v.as_array().unwrap().iter().map(|x| x.as_u64().unwrap() as u32).collect()
}

fn subsets5() -> Vec<Vec<u32>> {
    (0u32..32).map(|m| (0..5).filter(|i| m >> i & 1 == 1).collect()).collect()
}

fn run_arena(ops: &[Value]) -> Value {
    let mut ar = ZddArena::new();
    let mut hs: Vec<ZddHandle> = Vec::new();
    let mut steps = Vec::new();
    for op in ops {
        let o = op.as_array().unwrap();
        let name = o[0].as_str().unwrap();
        let ix = |k: usize| o[k].as_u64().unwrap() as usize;
        let mut pushed: Option<ZddHandle> = None;
        let mut extra = json!(null);
        match name {
            "base" => pushed = Some(ar.base()),
            "empty" => pushed = Some(ar.empty()),
            "single" => pushed = Some(ar.singleton(ix(1) as u32)),
            "fromset" => pushed = Some(ar.from_set(&u32s(&o[1]))),
            "pwo" => pushed = Some(ar.product_with_optional(hs[ix(1)], ix(2) as u32)),
            "union" => pushed = Some(ar.union(hs[ix(1)], hs[ix(2)])),
            "inter" => pushed = Some(ar.intersection(hs[ix(1)], hs[ix(2)])),
            "diff" => pushed = Some(ar.difference(hs[ix(1)], hs[ix(2)])),
            "count" => extra = json!(ar.count(hs[ix(1)])),
            "gc" => {
                let keep: Vec<ZddHandle> = u32s(&o[1]).iter().map(|&i| hs[i as usize]).collect();
                let (_st, nh) = ar.gc(&keep);
                hs = nh;
                extra = json!(hs.iter().map(|h| r2s(h.root())).collect::<Vec<_>>());
            }
            _ => panic!("bad op {}", name),
        }
        if let Some(h) = pushed {
            hs.push(h);
            steps.push(json!([r2s(h.root()), ar.node_count(), extra]));
        } else {
            steps.push(json!(["-", ar.node_count(), extra]));
        }
    }
    let subs = subsets5();
    let fin: Vec<Value> = hs
        .iter()
        .map(|&h| {
            let it: Vec<Vec<u32>> = ar.iter(h).collect();
            let c = ar.count(h);
            let cu = ar.count_uncached(h);
            let mem: String = subs.iter().map(|s| if ar.contains(h, s) { '1' } else { '0' }).collect();
            json!({"root": r2s(h.root()), "iter": it, "count": c, "count_uncached": cu, "mem": mem})
        })
        .collect();
    let nodes: Vec<Value> = ar.verif_nodes().iter().map(|(v, l, h)| json!([v, r2s(*l), r2s(*h)])).collect();
    json!({"steps": steps, "final": fin, "nodes": nodes})
}

fn run_zdd(ops: &[Value]) -> Value {
    let mut zs: Vec<Zdd> = Vec::new();
    let mut steps = Vec::new();
    for op in ops {
        let o = op.as_array().unwrap();
        let name = o[0].as_str().unwrap();
        let ix = |k: usize| o[k].as_u64().unwrap() as usize;
        let z = match name {
            "base" => Zdd::base(),
            "empty" => Zdd::empty(),
            "single" => Zdd::singleton(ix(1) as u32),
            "fromset" => Zdd::from_set(&u32s(&o[1])),
            "pwo" => zs[ix(1)].product_with_optional(ix(2) as u32),
            "union" => zs[ix(1)].union(&zs[ix(2)]),
            "inter" => zs[ix(1)].intersection(&zs[ix(2)]),
            "diff" => zs[ix(1)].difference(&zs[ix(2)]),
            "product" => zs[ix(1)].product(&zs[ix(2)]),
            _ => panic!("bad op {}", name),
        };
        steps.push(json!([r2s(z.root()), z.node_count(), null]));
        zs.push(z);
    }
    let subs = subsets5();
    let fin: Vec<Value> = zs
        .iter()
        .map(|z| {
            let it: Vec<Vec<u32>> = z.iter().collect();
            let mem: String = subs.iter().map(|s| if z.contains(s) { '1' } else { '0' }).collect();
            json!({"root": r2s(z.root()), "iter": it, "count": z.count(), "count_uncached": z.count(), "mem": mem})
        })
        .collect();
    json!({"steps": steps, "final": fin, "nodes": []})
}

fn main() {
    std::panic::set_hook(Box::new(|_| {}));
    let stdin = std::io::stdin();
    let out = std::io::stdout();
    let mut out = out.lock();
    for line in stdin.lock().lines() {
        let line = line.unwrap();
        if line.trim().is_empty() {
            continue;
        }
        let req: Value = serde_json::from_str(&line).unwrap();
        let ops = req["ops"].as_array().unwrap().clone();
        let api = req["api"].as_str().unwrap().to_string();
        let res = std::panic::catch_unwind(move || if api == "arena" { run_arena(&ops) } else { run_zdd(&ops) });
        let v = match res {
            Ok(v) => v,
            Err(e) => {
                let msg = e.downcast_ref::<String>().cloned().or_else(|| e.downcast_ref::<&str>().map(|s| s.to_string())).unwrap_or_default();
                json!({"panic": msg})
            }
        };
        writeln!(out, "{}", v).unwrap();
    }
}
