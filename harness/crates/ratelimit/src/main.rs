//! vp-ratelimit — drives varpulis_cluster::rate_limit::RateLimiter on the injectable clock.
//!
//! request : {"cfg":{"enabled":bool,"rate":u32,"burst":u32,"cap":usize,"ctor":"new"|"with_burst"|"fields"},
//!            "ops":[[t_ns, client], ...]}          client k = IP 10.0.0.k
//! answer  : {"steps":[{"r":"A"|"L","rem":u32,"ns":"<retry/reset ns>","ev":[clients evicted by this call],
//!                      "tr":[[client,"<tokens f64 bits>"],..] (sorted by client)}, ...]}
//!           or {"panic":msg,"at":index of the op that panicked,"steps":[... completed steps]}
use serde_json::{json, Value as J};
use std::net::{IpAddr, Ipv4Addr};
use std::sync::Mutex;
use varpulis_cluster::rate_limit::{verif_clock, RateLimitConfig, RateLimitResult, RateLimiter};

fn ip_of(k: u64) -> IpAddr {
    IpAddr::V4(Ipv4Addr::new(10, 0, (k >> 8) as u8, (k & 255) as u8))
}
fn client_of(ip: &IpAddr) -> u64 {
    match ip {
        IpAddr::V4(v) => {
            let o = v.octets();
            ((o[2] as u64) << 8) | o[3] as u64
        }
        _ => u64::MAX,
    }
}

fn tracked(rt: &tokio::runtime::Runtime, l: &RateLimiter) -> Vec<(u64, u64)> {
    let mut v: Vec<(u64, u64)> = rt
        .block_on(l.verif_buckets())
        .iter()
        .map(|(ip, t)| (client_of(ip), t.to_bits()))
        .collect();
    v.sort();
    v
}

fn main() {
    let rt = tokio::runtime::Builder::new_current_thread().build().unwrap();
    let done: Mutex<Vec<J>> = Mutex::new(Vec::new());
    vp_common::serve(|req| {
        done.lock().unwrap_or_else(|e| e.into_inner()).clear();
        let c = &req["cfg"];
        let rate = c["rate"].as_u64().unwrap() as u32;
        let burst = c["burst"].as_u64().unwrap_or(0) as u32;
        let mut cfg = match c["ctor"].as_str().unwrap_or("fields") {
            "new" => RateLimitConfig::new(rate),
            "with_burst" => RateLimitConfig::with_burst(rate, burst),
            "disabled" => RateLimitConfig::disabled(),
            _ => RateLimitConfig {
                enabled: c["enabled"].as_bool().unwrap_or(true),
                requests_per_second: rate,
                burst_size: burst,
                max_tracked_ips: 10_000,
            },
        };
        if let Some(cap) = c["cap"].as_u64() {
            cfg.max_tracked_ips = cap as usize;
        }
        let eff = json!({"enabled": cfg.enabled, "rate": cfg.requests_per_second, "burst": cfg.burst_size, "cap": cfg.max_tracked_ips});
        let limiter = RateLimiter::new(cfg);
        let ops = req["ops"].as_array().unwrap();
        let res = std::panic::catch_unwind(std::panic::AssertUnwindSafe(|| {
            for op in ops {
                let t = op[0].as_u64().unwrap();
                let k = op[1].as_u64().unwrap();
                verif_clock::set_ns(t);
                let before = tracked(&rt, &limiter);
                let r = rt.block_on(limiter.check(ip_of(k)));
                let after = tracked(&rt, &limiter);
                let ev: Vec<u64> = before
                    .iter()
                    .filter(|(c, _)| !after.iter().any(|(d, _)| d == c))
                    .map(|(c, _)| *c)
                    .collect();
                let tr: Vec<J> = after.iter().map(|(c, b)| json!([c, b.to_string()])).collect();
                let step = match r {
                    RateLimitResult::Allowed { remaining, reset_after } => {
                        json!({"r":"A","rem":remaining,"ns":reset_after.as_nanos().to_string(),"ev":ev,"tr":tr})
                    }
                    RateLimitResult::Limited { retry_after } => {
                        json!({"r":"L","rem":0,"ns":retry_after.as_nanos().to_string(),"ev":ev,"tr":tr})
                    }
                };
                done.lock().unwrap_or_else(|e| e.into_inner()).push(step);
            }
        }));
        let steps = done.lock().unwrap_or_else(|e| e.into_inner()).clone();
        match res {
            Ok(()) => json!({"cfg": eff, "steps": steps}),
            Err(e) => {
                let msg = e
                    .downcast_ref::<String>()
                    .cloned()
                    .or_else(|| e.downcast_ref::<&str>().map(|s| s.to_string()))
                    .unwrap_or_default();
                json!({"cfg": eff, "panic": msg, "at": steps.len(), "steps": steps})
            }
        }
    });
}
