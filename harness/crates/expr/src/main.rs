//! Harness for C10 / C11: the constant folder and the expression evaluator of the real crates.
//!
//! One JSON request per stdin line, one JSON answer per line.  Every evaluation runs under
//! `catch_unwind`; a stack-overflow abort kills the process, which the Python driver observes
//! (missing answer) and attributes to the request being processed.
//!
//!  {"op":"eval","expr":E,"events":[EV..]}
//!      folded = optimize::fold_program applied to a one-statement program `Stmt::Expr(E)`
//!      answer {"folded": E' | {"panic":msg},
//!              "res":[[R_unfolded, R_folded|null-if-fold-panicked] per event]}
//!      R = {"v":V} (value) | {"none":true} (no value) | {"panic":msg};
//!      evaluation = engine::evaluator::eval_expr_with_functions with no user functions / bindings
//!  {"op":"parse","vpl":TEXT}
//!      answer {"unfolded":[E..] | {"error":..}, "folded":[E..] | {"error":..}, "hook_consistent":bool}
//!      the expressions of every .where / .emit argument of every stream, in source order;
//!      unfolded = pest_parser::parse_unfolded (cfg(varpulis_verif) hook), folded = parse;
//!      hook_consistent: parse(text) == fold_program(parse_unfolded(text))
//!  {"op":"engine","vpl":TEXT,"events":[EV..],"unfolded":bool}
//!      parse (or parse_unfolded) + Engine::load + Engine::process per event;
//!      answer {"out":[[{"type":..,"fields":[[k,V]..]}.. per input event]]} or {"error":..}
//!  {"op":"program","vpl":TEXT,"events":[EV..]}
//!      = "parse" + "engine" on the unfolded program + "engine" on the folded program, each engine run
//!      under its own catch_unwind: answer has the keys of "parse" plus "run_unfolded", "run_folded"
//!      (each {"out":..} | {"error":..} | {"panic":msg})
//!
//! Values are tagged JSON (vp-common).  Expressions:
//!  {"id":name} {"i":"5"} {"f":"bits"} {"s":".."} {"b":true} {"n":null} {"dur":"ns"} {"ts":"ns"}
//!  {"bin":[op,E,E]} {"un":[op,E]} {"arr":[E..]} {"map":[[k,E]..]} {"mem":[E,name]} {"omem":[E,name]}
//!  {"idx":[E,E]} {"slice":[E,E|null,E|null]} {"call":[E,[A..]]} with A = E | {"named":[name,E]}
//!  {"lam":[[p..],E]} {"if":[E,E,E]} {"coal":[E,E]} {"range":[E,E,bool]} {"block":[[[name,E,bool]..],E]}
use rustc_hash::FxHashMap;
use serde_json::{json, Value as J};
use std::panic::{catch_unwind, AssertUnwindSafe};
use varpulis_core::ast::{Arg, BinOp, Expr, Program, Stmt, StreamOp, UnaryOp};
use varpulis_core::span::Spanned;
use varpulis_core::Value;
use varpulis_runtime::engine::evaluator::eval_expr_with_functions;
use varpulis_runtime::engine::UserFunction;
use varpulis_runtime::sequence::SequenceContext;
use vp_common::{event_from_json, value_to_json};

const BINOPS: [(&str, BinOp); 24] = [
    ("Add", BinOp::Add),
    ("Sub", BinOp::Sub),
    ("Mul", BinOp::Mul),
    ("Div", BinOp::Div),
    ("Mod", BinOp::Mod),
    ("Pow", BinOp::Pow),
    ("Eq", BinOp::Eq),
    ("NotEq", BinOp::NotEq),
    ("Lt", BinOp::Lt),
    ("Le", BinOp::Le),
    ("Gt", BinOp::Gt),
    ("Ge", BinOp::Ge),
    ("In", BinOp::In),
    ("NotIn", BinOp::NotIn),
    ("Is", BinOp::Is),
    ("And", BinOp::And),
    ("Or", BinOp::Or),
    ("Xor", BinOp::Xor),
    ("FollowedBy", BinOp::FollowedBy),
    ("BitAnd", BinOp::BitAnd),
    ("BitOr", BinOp::BitOr),
    ("BitXor", BinOp::BitXor),
    ("Shl", BinOp::Shl),
    ("Shr", BinOp::Shr),
];

fn binop_of(s: &str) -> BinOp {
    BINOPS.iter().find(|(n, _)| *n == s).unwrap_or_else(|| panic!("binop {}", s)).1
}
fn binop_name(o: &BinOp) -> &'static str {
    BINOPS.iter().find(|(_, b)| b == o).unwrap().0
}

fn bx(j: &J) -> Box<Expr> {
    Box::new(expr_from_json(j))
}

fn expr_from_json(j: &J) -> Expr {
    let o = j.as_object().expect("expr object");
    let (k, v) = o.iter().next().expect("one tag");
    match k.as_str() {
        "id" => Expr::Ident(v.as_str().unwrap().to_string()),
        "i" => Expr::Int(v.as_str().unwrap().parse().unwrap()),
        "f" => Expr::Float(f64::from_bits(v.as_str().unwrap().parse::<u64>().unwrap())),
        "s" => Expr::Str(v.as_str().unwrap().to_string()),
        "b" => Expr::Bool(v.as_bool().unwrap()),
        "n" => Expr::Null,
        "dur" => Expr::Duration(v.as_str().unwrap().parse().unwrap()),
        "ts" => Expr::Timestamp(v.as_str().unwrap().parse().unwrap()),
        "bin" => Expr::Binary { op: binop_of(v[0].as_str().unwrap()), left: bx(&v[1]), right: bx(&v[2]) },
        "un" => Expr::Unary {
            op: match v[0].as_str().unwrap() {
                "Neg" => UnaryOp::Neg,
                "Not" => UnaryOp::Not,
                "BitNot" => UnaryOp::BitNot,
                o => panic!("unop {}", o),
            },
            expr: bx(&v[1]),
        },
        "arr" => Expr::Array(v.as_array().unwrap().iter().map(expr_from_json).collect()),
        "map" => Expr::Map(
            v.as_array().unwrap().iter().map(|kv| (kv[0].as_str().unwrap().to_string(), expr_from_json(&kv[1]))).collect(),
        ),
        "mem" => Expr::Member { expr: bx(&v[0]), member: v[1].as_str().unwrap().to_string() },
        "omem" => Expr::OptionalMember { expr: bx(&v[0]), member: v[1].as_str().unwrap().to_string() },
        "idx" => Expr::Index { expr: bx(&v[0]), index: bx(&v[1]) },
        "slice" => Expr::Slice {
            expr: bx(&v[0]),
            start: if v[1].is_null() { None } else { Some(bx(&v[1])) },
            end: if v[2].is_null() { None } else { Some(bx(&v[2])) },
        },
        "call" => Expr::Call {
            func: bx(&v[0]),
            args: v[1]
                .as_array()
                .unwrap()
                .iter()
                .map(|a| match a.get("named") {
                    Some(n) => Arg::Named(n[0].as_str().unwrap().to_string(), expr_from_json(&n[1])),
                    None => Arg::Positional(expr_from_json(a)),
                })
                .collect(),
        },
        "lam" => Expr::Lambda {
            params: v[0].as_array().unwrap().iter().map(|p| p.as_str().unwrap().to_string()).collect(),
            body: bx(&v[1]),
        },
        "if" => Expr::If { cond: bx(&v[0]), then_branch: bx(&v[1]), else_branch: bx(&v[2]) },
        "coal" => Expr::Coalesce { expr: bx(&v[0]), default: bx(&v[1]) },
        "range" => Expr::Range { start: bx(&v[0]), end: bx(&v[1]), inclusive: v[2].as_bool().unwrap() },
        "block" => Expr::Block {
            stmts: v[0]
                .as_array()
                .unwrap()
                .iter()
                .map(|s| (s[0].as_str().unwrap().to_string(), None, expr_from_json(&s[1]), s[2].as_bool().unwrap()))
                .collect(),
            result: bx(&v[1]),
        },
        _ => panic!("bad expr tag {}", k),
    }
}

fn expr_to_json(e: &Expr) -> J {
    match e {
        Expr::Null => json!({"n": null}),
        Expr::Bool(b) => json!({"b": b}),
        Expr::Int(i) => json!({"i": i.to_string()}),
        Expr::Float(f) => json!({"f": f.to_bits().to_string()}),
        Expr::Str(s) => json!({"s": s}),
        Expr::Duration(d) => json!({"dur": d.to_string()}),
        Expr::Timestamp(t) => json!({"ts": t.to_string()}),
        Expr::Array(a) => json!({"arr": a.iter().map(expr_to_json).collect::<Vec<_>>()}),
        Expr::Map(m) => json!({"map": m.iter().map(|(k, v)| json!([k, expr_to_json(v)])).collect::<Vec<_>>()}),
        Expr::Ident(s) => json!({"id": s}),
        Expr::Binary { op, left, right } => json!({"bin": [binop_name(op), expr_to_json(left), expr_to_json(right)]}),
        Expr::Unary { op, expr } => json!({"un": [match op { UnaryOp::Neg => "Neg", UnaryOp::Not => "Not", UnaryOp::BitNot => "BitNot" }, expr_to_json(expr)]}),
        Expr::Member { expr, member } => json!({"mem": [expr_to_json(expr), member]}),
        Expr::OptionalMember { expr, member } => json!({"omem": [expr_to_json(expr), member]}),
        Expr::Index { expr, index } => json!({"idx": [expr_to_json(expr), expr_to_json(index)]}),
        Expr::Slice { expr, start, end } => json!({"slice": [
            expr_to_json(expr),
            start.as_ref().map(|s| expr_to_json(s)).unwrap_or(J::Null),
            end.as_ref().map(|s| expr_to_json(s)).unwrap_or(J::Null)]}),
        Expr::Call { func, args } => json!({"call": [expr_to_json(func), args.iter().map(|a| match a {
            Arg::Positional(e) => expr_to_json(e),
            Arg::Named(n, e) => json!({"named": [n, expr_to_json(e)]}),
        }).collect::<Vec<_>>()]}),
        Expr::Lambda { params, body } => json!({"lam": [params, expr_to_json(body)]}),
        Expr::If { cond, then_branch, else_branch } => json!({"if": [expr_to_json(cond), expr_to_json(then_branch), expr_to_json(else_branch)]}),
        Expr::Coalesce { expr, default } => json!({"coal": [expr_to_json(expr), expr_to_json(default)]}),
        Expr::Range { start, end, inclusive } => json!({"range": [expr_to_json(start), expr_to_json(end), inclusive]}),
        Expr::Block { stmts, result } => json!({"block": [
            stmts.iter().map(|(n, _t, e, m)| json!([n, expr_to_json(e), m])).collect::<Vec<_>>(),
            expr_to_json(result)]}),
    }
}

fn panic_msg(e: Box<dyn std::any::Any + Send>) -> String {
    e.downcast_ref::<String>().cloned().or_else(|| e.downcast_ref::<&str>().map(|s| s.to_string())).unwrap_or_default()
}

/// optimize::fold_expr is private; fold_program on `Stmt::Expr(e)` applies it to e.
fn fold_via_program(e: &Expr) -> Result<Expr, String> {
    let p = Program { statements: vec![Spanned::dummy(Stmt::Expr(e.clone()))] };
    match catch_unwind(AssertUnwindSafe(|| varpulis_parser::optimize::fold_program(p))) {
        Ok(p) => match p.statements.into_iter().next().map(|s| s.node) {
            Some(Stmt::Expr(e)) => Ok(e),
            _ => Err("fold_program changed the statement kind".into()),
        },
        Err(e) => Err(panic_msg(e)),
    }
}

fn eval_one(e: &Expr, ev: &varpulis_runtime::event::Event) -> J {
    let functions: FxHashMap<String, UserFunction> = FxHashMap::default();
    let bindings: FxHashMap<String, Value> = FxHashMap::default();
    match catch_unwind(AssertUnwindSafe(|| eval_expr_with_functions(e, ev, SequenceContext::empty(), &functions, &bindings))) {
        Ok(Some(v)) => json!({"v": value_to_json(&v)}),
        Ok(None) => json!({"none": true}),
        Err(p) => json!({"panic": panic_msg(p)}),
    }
}

fn eval(req: &J) -> J {
    let e = expr_from_json(&req["expr"]);
    let folded = fold_via_program(&e);
    let mut res = Vec::new();
    for evj in req["events"].as_array().unwrap() {
        let ev = event_from_json(evj);
        let a = eval_one(&e, &ev);
        let b = match &folded {
            Ok(f) => eval_one(f, &ev),
            Err(_) => J::Null,
        };
        res.push(json!([a, b]));
    }
    json!({
        "folded": match &folded { Ok(f) => expr_to_json(f), Err(m) => json!({"panic": m}) },
        "res": res
    })
}

fn stream_exprs(p: &Program) -> Vec<J> {
    let mut out = Vec::new();
    for s in &p.statements {
        if let Stmt::StreamDecl { ops, .. } = &s.node {
            for op in ops {
                match op {
                    StreamOp::Where(e) => out.push(expr_to_json(e)),
                    StreamOp::Emit { fields, .. } => {
                        for f in fields {
                            out.push(expr_to_json(&f.value));
                        }
                    }
                    _ => {}
                }
            }
        }
    }
    out
}

fn parse_unfolded(src: &str) -> Result<Program, String> {
    varpulis_parser::pest_parser::parse_unfolded(src).map_err(|e| format!("{}", e))
}

fn parse(req: &J) -> J {
    let src = req["vpl"].as_str().unwrap();
    let u = parse_unfolded(src);
    let f = varpulis_parser::parse(src).map_err(|e| format!("{}", e));
    let consistent = match (&u, &f) {
        (Ok(u), Ok(f)) => match catch_unwind(AssertUnwindSafe(|| varpulis_parser::optimize::fold_program(u.clone()))) {
            Ok(uf) => &uf == f,
            Err(_) => false,
        },
        // both reject the text (messages may be located differently)
        (Err(_), Err(_)) => true,
        // fold_program panicking inside parse() surfaces as a parse error of the folded program only
        (Ok(u), Err(_)) => catch_unwind(AssertUnwindSafe(|| varpulis_parser::optimize::fold_program(u.clone()))).is_err(),
        _ => false,
    };
    json!({
        "unfolded": match &u { Ok(p) => json!(stream_exprs(p)), Err(e) => json!({"error": e}) },
        "folded": match &f { Ok(p) => json!(stream_exprs(p)), Err(e) => json!({"error": e}) },
        "hook_consistent": consistent
    })
}

fn engine(req: &J) -> J {
    let vpl = req["vpl"].as_str().unwrap();
    let program = if req["unfolded"].as_bool().unwrap_or(false) {
        match parse_unfolded(vpl) {
            Ok(p) => p,
            Err(e) => return json!({"error": format!("parse: {}", e)}),
        }
    } else {
        match varpulis_parser::parse(vpl) {
            Ok(p) => p,
            Err(e) => return json!({"error": format!("parse: {}", e)}),
        }
    };
    let rt = tokio::runtime::Builder::new_current_thread().enable_all().build().unwrap();
    rt.block_on(async {
        let (tx, mut rx) = tokio::sync::mpsc::channel(100_000);
        let mut eng = varpulis_runtime::Engine::new(tx);
        if let Err(e) = eng.load(&program) {
            return json!({"error": format!("load: {}", e)});
        }
        let mut out = Vec::new();
        for evj in req["events"].as_array().unwrap() {
            let ev = event_from_json(evj);
            if let Err(e) = eng.process(ev).await {
                return json!({"error": format!("process: {}", e)});
            }
            let mut here = Vec::new();
            while let Ok(o) = rx.try_recv() {
                here.push(json!({
                    "type": &*o.event_type,
                    "fields": o.data.iter().map(|(k, v)| json!([&**k, value_to_json(v)])).collect::<Vec<_>>()
                }));
            }
            out.push(J::Array(here));
        }
        json!({ "out": out })
    })
}

fn run_program(program: &Program, events: &J) -> J {
    let rt = tokio::runtime::Builder::new_current_thread().enable_all().build().unwrap();
    let r = catch_unwind(AssertUnwindSafe(|| {
        rt.block_on(async {
            let (tx, mut rx) = tokio::sync::mpsc::channel(100_000);
            let mut eng = varpulis_runtime::Engine::new(tx);
            if let Err(e) = eng.load(program) {
                return json!({"error": format!("load: {}", e)});
            }
            let mut out = Vec::new();
            for evj in events.as_array().unwrap() {
                let ev = event_from_json(evj);
                if let Err(e) = eng.process(ev).await {
                    return json!({"error": format!("process: {}", e)});
                }
                let mut here = Vec::new();
                while let Ok(o) = rx.try_recv() {
                    here.push(json!({
                        "type": &*o.event_type,
                        "fields": o.data.iter().map(|(k, v)| json!([&**k, value_to_json(v)])).collect::<Vec<_>>()
                    }));
                }
                out.push(J::Array(here));
            }
            json!({ "out": out })
        })
    }));
    match r {
        Ok(v) => v,
        Err(p) => json!({"panic": panic_msg(p)}),
    }
}

fn program(req: &J) -> J {
    let src = req["vpl"].as_str().unwrap();
    let mut ans = parse(req);
    let u = parse_unfolded(src);
    let f = varpulis_parser::parse(src);
    ans["run_unfolded"] = match &u {
        Ok(p) => run_program(p, &req["events"]),
        Err(e) => json!({"error": format!("parse: {}", e)}),
    };
    ans["run_folded"] = match &f {
        Ok(p) => run_program(p, &req["events"]),
        Err(e) => json!({"error": format!("parse: {}", e)}),
    };
    ans
}

fn main() {
    vp_common::serve(|req| match req["op"].as_str().unwrap_or("") {
        "eval" => eval(req),
        "parse" => parse(req),
        "engine" => engine(req),
        "program" => program(req),
        other => json!({"error": format!("unknown op {}", other)}),
    });
}
