//! Harness for C25 (trend aggregation counts: GRETA baseline, Hamlet aggregator, Engine).
//! One JSON request per stdin line:
//!   queries Q = [{"types":["A","B","C"],"kleene":[1]} ..]   (kleene = positions in `types` that carry `+`)
//!   stream    = ["A","B","B","C",..]                        (event type names)
//!   {"kind":"hamlet","queries":Q,"stream":S,"incremental":bool}
//!        HamletAggregator with one template for all queries (TemplateBuilder::add_sequence per query, add_kleene at the
//!        state in front of the Kleene step, as engine/mod.rs does for a stream), register_query per query, process per
//!        event, then flush  -> {"steps":[[[query,value]..] per event], "flush":[[query,value]..]}
//!   {"kind":"greta","queries":Q,"stream":S}
//!        GretaExecutor: register_type / register_query, process per event, flush
//!        -> {"steps":[[[query,count]..] per event], "flush":[[query,count]..]}
//!   {"kind":"engine","queries":Q,"stream":S}
//!        Engine with one `.trend_aggregate(cnt: count_trends())` stream per query (stream Qi = [all] T0 as e0 -> [all] T1 as e1 ..; `all` where the query has a Kleene step)
//!        -> {"steps":[[[stream,query_id,cnt,is_final]..] per event]} | {"error":..}
use serde_json::{json, Value as J};
use smallvec::SmallVec;
use std::sync::Arc;
use varpulis_runtime::event::Event;
use varpulis_runtime::greta::{GretaAggregate, GretaExecutor, GretaQuery};
use varpulis_runtime::hamlet::template::TemplateBuilder;
use varpulis_runtime::hamlet::{HamletAggregator, HamletConfig, QueryRegistration};

struct Q {
    types: Vec<String>,
    kleene: Vec<usize>,
}

fn queries(req: &J) -> Vec<Q> {
    req["queries"]
        .as_array()
        .unwrap()
        .iter()
        .map(|q| Q {
            types: q["types"].as_array().unwrap().iter().map(|t| t.as_str().unwrap().to_string()).collect(),
            kleene: q["kleene"].as_array().unwrap().iter().map(|k| k.as_u64().unwrap() as usize).collect(),
        })
        .collect()
}

fn stream(req: &J) -> Vec<String> {
    req["stream"].as_array().unwrap().iter().map(|t| t.as_str().unwrap().to_string()).collect()
}

fn hamlet(req: &J) -> J {
    let qs = queries(req);
    let mut builder = TemplateBuilder::new();
    let mut base: u16 = 0;
    let mut bases = Vec::new();
    for (qi, q) in qs.iter().enumerate() {
        let names: Vec<&str> = q.types.iter().map(|s| s.as_str()).collect();
        builder.add_sequence(qi as u32, &names);
        bases.push(base);
        base += q.types.len() as u16 + 1;
    }
    for (qi, q) in qs.iter().enumerate() {
        for &k in &q.kleene {
            // the state in front of the Kleene step (engine/mod.rs: `state = ki.position`), in this query's own chain
            builder.add_kleene(qi as u32, &q.types[k], bases[qi] + k as u16);
        }
    }
    let template = builder.build();
    let idx = |name: &str| template.type_index(name).unwrap();
    let regs: Vec<QueryRegistration> = qs
        .iter()
        .enumerate()
        .map(|(qi, q)| QueryRegistration {
            id: qi as u32,
            event_types: q.types.iter().map(|t| idx(t)).collect::<SmallVec<[u16; 4]>>(),
            kleene_types: q.kleene.iter().map(|&k| idx(&q.types[k])).collect::<SmallVec<[u16; 4]>>(),
            aggregate: GretaAggregate::CountTrends,
        })
        .collect();
    let config = HamletConfig { incremental: req["incremental"].as_bool().unwrap_or(true), ..Default::default() };
    let mut agg = HamletAggregator::new(config, template);
    for r in regs {
        agg.register_query(r);
    }
    let mut steps = Vec::new();
    for t in stream(req) {
        let rs = agg.process(Arc::new(Event::new(t.as_str())));
        steps.push(J::Array(rs.iter().map(|r| json!([r.query_id, r.value.to_string()])).collect()));
    }
    let fl = agg.flush();
    json!({"steps": steps, "flush": fl.iter().map(|r| json!([r.query_id, r.value.to_string()])).collect::<Vec<_>>()})
}

fn greta(req: &J) -> J {
    let qs = queries(req);
    let mut ex = GretaExecutor::new();
    for q in &qs {
        for t in &q.types {
            ex.register_type(Arc::from(t.as_str()));
        }
    }
    for (qi, q) in qs.iter().enumerate() {
        let ev: SmallVec<[u16; 4]> = q.types.iter().map(|t| ex.type_index(t).unwrap()).collect();
        let kl: SmallVec<[u16; 4]> = q.kleene.iter().map(|&k| ex.type_index(&q.types[k]).unwrap()).collect();
        ex.register_query(GretaQuery {
            id: qi as u32,
            pattern_id: qi as u32,
            event_types: ev,
            kleene_types: kl,
            aggregate: GretaAggregate::CountTrends,
            window_ms: 60_000,
            slide_ms: 60_000,
        });
    }
    let mut steps = Vec::new();
    for t in stream(req) {
        let rs = ex.process(Arc::new(Event::new(t.as_str())));
        steps.push(J::Array(rs.iter().map(|(q, c)| json!([q, c.to_string()])).collect()));
    }
    let fl = ex.flush();
    json!({"steps": steps, "flush": fl.iter().map(|(q, c)| json!([q, c.to_string()])).collect::<Vec<_>>()})
}

fn engine(req: &J) -> J {
    let qs = queries(req);
    let mut program = String::new();
    for (qi, q) in qs.iter().enumerate() {
        program.push_str(&format!("stream Q{} = {}{} as e0\n", qi, if q.kleene.contains(&0) { "all " } else { "" }, q.types[0]));
        for (k, t) in q.types.iter().enumerate().skip(1) {
            program.push_str(&format!("    -> {}{} as e{}\n", if q.kleene.contains(&k) { "all " } else { "" }, t, k));
        }
        program.push_str("    .within(60s)\n    .trend_aggregate(cnt: count_trends())\n    .emit(cnt: cnt)\n\n");
    }
    let rt = tokio::runtime::Builder::new_current_thread().enable_all().build().unwrap();
    let parsed = match varpulis_parser::parse(&program) {
        Ok(p) => p,
        Err(e) => return json!({"error": format!("parse: {:?}", e), "program": program}),
    };
    let (tx, mut rx) = tokio::sync::mpsc::channel::<Event>(100_000);
    let mut eng = varpulis_runtime::engine::Engine::new(tx);
    if let Err(e) = eng.load(&parsed) {
        return json!({"error": format!("load: {}", e), "program": program});
    }
    let mut steps = Vec::new();
    for t in stream(req) {
        let res = rt.block_on(eng.process(Event::new(t.as_str())));
        let mut got = Vec::new();
        if let Err(e) = res {
            got.push(json!({ "error": e.to_string() }));
        }
        while let Ok(ev) = rx.try_recv() {
            got.push(vp_common::event_to_json(&ev));
        }
        steps.push(J::Array(got));
    }
    json!({"steps": steps, "program": program})
}

fn main() {
    vp_common::serve(|req| match req["kind"].as_str().unwrap_or("") {
        "hamlet" => hamlet(req),
        "greta" => greta(req),
        "engine" => engine(req),
        k => json!({ "bad_request": k }),
    });
}
