//! Harness for C01-C05: drives the real SaseEngine (mode "sase") or a whole Engine
//! loaded from VPL text (mode "vpl") over an event list and reports, per event, the
//! matches (stack event ids, captured alias -> event id, Kleene combination) and stats.
//!
//! Request: {"mode":"sase","steps":[{"ty":"A","alias":"a"|null,"all":bool,"pred":P|null}..],
//!           "negs":[{"ty":"X","pred":P|null}], "partition":"k"|null, "max_runs":n|null,
//!           "strategy":"drop"|"error"|"oldest"|"least"|{"sample":[num,den]}|null,
//!           "max_kleene":n|null, "max_results":n|null,
//!           "events":[{"type":..,"ts_ns":..,"fields":[[name,tagged value]..]}..]}
//!   P = {"cmp":[field,op,tagged value]} | {"ref":[field,op,alias,ref_field]} | {"and":[P,P]} | {"or":[P,P]} | {"not":P}
//! Every event carries an integer field "id" (its arrival index) used to name it in the answer.
use serde_json::{json, Value as J};
use std::time::Instant;
use varpulis_runtime::sase::{BackpressureStrategy, CompareOp, Predicate, SaseEngine, SasePattern};

fn op_of(s: &str) -> CompareOp {
    match s {
        "eq" => CompareOp::Eq,
        "ne" => CompareOp::NotEq,
        "lt" => CompareOp::Lt,
        "le" => CompareOp::Le,
        "gt" => CompareOp::Gt,
        "ge" => CompareOp::Ge,
        _ => panic!("op {}", s),
    }
}

fn pred_of(j: &J) -> Predicate {
    let o = j.as_object().unwrap();
    let (k, v) = o.iter().next().unwrap();
    match k.as_str() {
        "cmp" => Predicate::Compare {
            field: v[0].as_str().unwrap().to_string(),
            op: op_of(v[1].as_str().unwrap()),
            value: vp_common::value_from_json(&v[2]),
        },
        "ref" => Predicate::CompareRef {
            field: v[0].as_str().unwrap().to_string(),
            op: op_of(v[1].as_str().unwrap()),
            ref_alias: v[2].as_str().unwrap().to_string(),
            ref_field: v[3].as_str().unwrap().to_string(),
        },
        "and" => Predicate::And(Box::new(pred_of(&v[0])), Box::new(pred_of(&v[1]))),
        "or" => Predicate::Or(Box::new(pred_of(&v[0])), Box::new(pred_of(&v[1]))),
        "not" => Predicate::Not(Box::new(pred_of(v))),
        _ => panic!("pred {}", k),
    }
}

fn opt_pred(j: &J) -> Option<Predicate> {
    if j.is_null() {
        None
    } else {
        Some(pred_of(j))
    }
}

fn ev_id(e: &varpulis_runtime::event::Event) -> i64 {
    e.get_int("id").unwrap_or(-1)
}

fn build_engine(req: &J) -> SaseEngine {
    let mut steps = Vec::new();
    for s in req["steps"].as_array().unwrap() {
        let ev = SasePattern::Event {
            event_type: s["ty"].as_str().unwrap().to_string(),
            predicate: opt_pred(&s["pred"]),
            alias: s["alias"].as_str().map(|x| x.to_string()),
        };
        if s["not"].as_bool().unwrap_or(false) {
            // pattern-level negation step (engine/compiler.rs: SasePatternExpr::Not); outside Sase/Model.v, oracle-only probes
            steps.push(SasePattern::Not(Box::new(ev)));
        } else if s["all"].as_bool().unwrap_or(false) {
            steps.push(SasePattern::KleenePlus(Box::new(ev)));
        } else {
            steps.push(ev);
        }
    }
    // same shape as engine/compiler.rs compile_to_sase_pattern_with_resolver
    let pattern = if steps.len() == 1 { steps.pop().unwrap() } else { SasePattern::Seq(steps) };
    let mut eng = SaseEngine::new(pattern);
    if let Some(p) = req["partition"].as_str() {
        eng = eng.with_partition_by(p.to_string());
    }
    if let Some(negs) = req["negs"].as_array() {
        for n in negs {
            eng.add_negation(n["ty"].as_str().unwrap().to_string(), opt_pred(&n["pred"]));
        }
    }
    if let Some(m) = req["max_runs"].as_u64() {
        eng = eng.with_max_runs(m as usize);
    }
    if !req["strategy"].is_null() {
        let st = match &req["strategy"] {
            J::String(s) => match s.as_str() {
                "drop" => BackpressureStrategy::Drop,
                "error" => BackpressureStrategy::Error,
                "oldest" => BackpressureStrategy::EvictOldest,
                "least" => BackpressureStrategy::EvictLeastProgress,
                _ => panic!("strategy"),
            },
            o => {
                let a = &o["sample"];
                BackpressureStrategy::Sample { rate: a[0].as_f64().unwrap() / a[1].as_f64().unwrap() }
            }
        };
        eng = eng.with_backpressure(st);
    }
    if let Some(m) = req["max_kleene"].as_u64() {
        eng = eng.with_max_kleene_events(m as u32);
    }
    if let Some(m) = req["max_results"].as_u64() {
        eng = eng.with_max_enumeration_results(m as usize);
    }
    eng
}

fn run_sase(req: &J) -> J {
    let events: Vec<_> = req["events"].as_array().unwrap().iter().map(vp_common::event_from_json).collect();
    // The engine's wall-clock housekeeping (cleanup_timeouts every 100 ms) changes the order in
    // which invalidated runs are removed; a case that takes longer than that is re-run.
    for _attempt in 0..5 {
        let t0 = Instant::now();
        let mut eng = build_engine(req);
        let mut per_event = Vec::new();
        for e in &events {
            let ms = eng.process(e);
            let mut out = Vec::new();
            for m in ms {
                let stack: Vec<i64> = m.stack.iter().map(|s| ev_id(&s.event)).collect();
                let mut cap: Vec<(String, i64)> = m.captured.iter().map(|(k, v)| (k.clone(), ev_id(v))).collect();
                cap.sort();
                out.push(json!({"stack": stack, "cap": cap, "combo": m.verif_combo}));
            }
            let st = eng.extended_stats();
            per_event.push(json!({"matches": out, "active": st.active_runs, "created": st.total_runs_created,
                "dropped": st.total_runs_dropped, "evicted": st.total_runs_evicted, "completed": st.total_runs_completed}));
        }
        if t0.elapsed().as_millis() < 60 {
            return json!({"events": per_event, "nfa_states": eng.stats().nfa_states});
        }
    }
    json!({"slow": true})
}

fn run_vpl(req: &J) -> J {
    let src = req["vpl"].as_str().unwrap();
    let program = match varpulis_parser::parse(src) {
        Ok(p) => p,
        Err(e) => return json!({"parse_error": format!("{:?}", e)}),
    };
    let events: Vec<_> = req["events"].as_array().unwrap().iter().map(vp_common::event_from_json).collect();
    let rt = tokio::runtime::Builder::new_current_thread().enable_all().build().unwrap();
    rt.block_on(async move {
        let (tx, mut rx) = tokio::sync::mpsc::channel(100000);
        let mut engine = varpulis_runtime::engine::Engine::new(tx);
        if let Err(e) = engine.load(&program) {
            return json!({"load_error": format!("{:?}", e)});
        }
        let mut per_event = Vec::new();
        for e in events {
            if let Err(e) = engine.process(e).await {
                return json!({"process_error": format!("{:?}", e)});
            }
            let mut outs = Vec::new();
            while let Ok(o) = rx.try_recv() {
                let mut j = vp_common::event_to_json(&o);
                j.as_object_mut().unwrap().remove("ts_ns");
                outs.push(j);
            }
            per_event.push(json!(outs));
        }
        json!({"events": per_event})
    })
}

fn main() {
    vp_common::serve(|req| match req["mode"].as_str().unwrap_or("sase") {
        "vpl" => run_vpl(req),
        _ => run_sase(req),
    });
}
