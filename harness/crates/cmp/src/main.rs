//! Harness for C08/C09: comparisons and filters on the real evaluators.
//!
//! One JSON request per stdin line:
//!  {"op":"binall","l":V,"r":V}
//!      every comparison operator x every evaluator on the operand pair; answer
//!      {"expr":{"Lt":V|null,..},"binop":{..},"pattern":{..},"sase":{"Lt":bool,..}}
//!      expr    = eval_filter_expr (-> eval_expr_with_functions, Expr::Binary arms) on `l <op> r`
//!      binop   = eval_binary_op
//!      pattern = eval_pattern_expr on `l <op> r` with l, r as pattern variables
//!      sase    = eval_predicate(Predicate::Compare{field l, op, value r}) reached through
//!                NegationConstraint::is_violated_by (-> compare_values / values_equal / values_compare)
//!  {"op":"filter","expr":E,"events":[EV..],"captured":[[alias,EV]..]?}
//!      per event: [where_accepts, step_accepts]; where = the WhereExpr closure of pipeline.rs
//!      (eval_expr_with_functions |> as_bool |> unwrap_or(false)); step = expr_to_sase_predicate +
//!      eval_predicate; plus "pred": shape of the translated predicate.
//!  {"op":"engine","vpl":TEXT,"events":[EV..]}
//!      real parse + Engine::load + Engine::process per event; answer {"out":[EV..]} (timestamps dropped)
//!      or {"error":..}
//! Values are tagged JSON (see vp-common); expressions: {"id":name} {"i":"5"} {"f":"bits"} {"s":".."}
//! {"b":true} {"n":null} {"bin":[op,E,E]} {"not":E} {"neg":E} {"mem":[alias,field]}
use rustc_hash::FxHashMap;
use serde_json::{json, Value as J};
use std::sync::Arc;
use varpulis_core::ast::{BinOp, Expr, UnaryOp};
use varpulis_core::Value;
use varpulis_runtime::engine::compiler::expr_to_sase_predicate;
use varpulis_runtime::engine::evaluator::{eval_binary_op, eval_expr_with_functions, eval_filter_expr, eval_pattern_expr};
use varpulis_runtime::engine::UserFunction;
use varpulis_runtime::event::Event;
use varpulis_runtime::sase::{CompareOp, NegationConstraint, Predicate};
use varpulis_runtime::sequence::SequenceContext;
use vp_common::{event_from_json, value_from_json, value_to_json};

const OPS: [(&str, BinOp, CompareOp); 6] = [
    ("Lt", BinOp::Lt, CompareOp::Lt),
    ("Le", BinOp::Le, CompareOp::Le),
    ("Gt", BinOp::Gt, CompareOp::Gt),
    ("Ge", BinOp::Ge, CompareOp::Ge),
    ("Eq", BinOp::Eq, CompareOp::Eq),
    ("NotEq", BinOp::NotEq, CompareOp::NotEq),
];

fn binop_of(s: &str) -> BinOp {
    match s {
        "Lt" => BinOp::Lt,
        "Le" => BinOp::Le,
        "Gt" => BinOp::Gt,
        "Ge" => BinOp::Ge,
        "Eq" => BinOp::Eq,
        "NotEq" => BinOp::NotEq,
        "And" => BinOp::And,
        "Or" => BinOp::Or,
        "Add" => BinOp::Add,
        "Sub" => BinOp::Sub,
        "Mul" => BinOp::Mul,
        _ => panic!("binop {}", s),
    }
}

fn expr_from_json(j: &J) -> Expr {
    let o = j.as_object().expect("expr object");
    let (k, v) = o.iter().next().expect("one tag");
    match k.as_str() {
        "id" => Expr::Ident(v.as_str().unwrap().to_string()),
        "i" => Expr::Int(v.as_str().unwrap().parse().unwrap()),
        "f" => Expr::Float(f64::from_bits(v.as_str().unwrap().parse::<u64>().unwrap())),
        "s" => Expr::Str(v.as_str().unwrap().to_string()),
        "b" => Expr::Bool(v.as_bool().unwrap()),
        "n" => Expr::Null,
        "bin" => Expr::Binary {
            op: binop_of(v[0].as_str().unwrap()),
            left: Box::new(expr_from_json(&v[1])),
            right: Box::new(expr_from_json(&v[2])),
        },
        "not" => Expr::Unary { op: UnaryOp::Not, expr: Box::new(expr_from_json(v)) },
        "neg" => Expr::Unary { op: UnaryOp::Neg, expr: Box::new(expr_from_json(v)) },
        "mem" => Expr::Member {
            expr: Box::new(Expr::Ident(v[0].as_str().unwrap().to_string())),
            member: v[1].as_str().unwrap().to_string(),
        },
        _ => panic!("bad expr tag {}", k),
    }
}

fn opt_to_json(v: Option<Value>) -> J {
    match v {
        Some(v) => value_to_json(&v),
        None => J::Null,
    }
}

fn sase_eval(p: &Predicate, ev: &Event, captured: &FxHashMap<String, Arc<Event>>) -> bool {
    let nc = NegationConstraint {
        forbidden_type: ev.event_type.to_string(),
        predicate: Some(p.clone()),
        deadline: None,
        event_time_deadline: None,
        next_state: 0,
    };
    nc.is_violated_by(ev, captured)
}

fn binall(req: &J) -> J {
    let l = value_from_json(&req["l"]);
    let r = value_from_json(&req["r"]);
    let mut ev = Event::new("A");
    ev.data.insert(Arc::from("l"), l.clone());
    ev.data.insert(Arc::from("r"), r.clone());
    let functions: FxHashMap<String, UserFunction> = FxHashMap::default();
    let mut pvars: FxHashMap<String, Value> = FxHashMap::default();
    pvars.insert("l".into(), l.clone());
    pvars.insert("r".into(), r.clone());
    let captured: FxHashMap<String, Arc<Event>> = FxHashMap::default();
    let mut a = serde_json::Map::new();
    let mut b = serde_json::Map::new();
    let mut c = serde_json::Map::new();
    let mut d = serde_json::Map::new();
    for (name, bop, cop) in OPS.iter() {
        let e = Expr::Binary {
            op: *bop,
            left: Box::new(Expr::Ident("l".into())),
            right: Box::new(Expr::Ident("r".into())),
        };
        a.insert(name.to_string(), opt_to_json(eval_filter_expr(&e, &ev, SequenceContext::empty())));
        b.insert(name.to_string(), opt_to_json(eval_binary_op(bop, &l, &r)));
        c.insert(name.to_string(), opt_to_json(eval_pattern_expr(&e, &[], SequenceContext::empty(), &functions, &pvars)));
        let p = Predicate::Compare { field: "l".into(), op: *cop, value: r.clone() };
        d.insert(name.to_string(), json!(sase_eval(&p, &ev, &captured)));
    }
    json!({"expr": a, "binop": b, "pattern": c, "sase": d})
}

fn val_str(v: &Value) -> String {
    match v {
        Value::Null => "n".into(),
        Value::Bool(b) => format!("b{}", if *b { 1 } else { 0 }),
        Value::Int(i) => format!("i{}", i),
        Value::Float(f) => format!("f{}", if f.is_nan() { 9221120237041090560u64 } else { f.to_bits() }),
        Value::Str(s) => format!("s{}", s.bytes().map(|b| format!("{:02x}", b)).collect::<String>()),
        other => format!("?{}", other.type_name()),
    }
}

fn pred_shape(p: &Predicate) -> String {
    match p {
        Predicate::Compare { field, op, value } => format!("C({},{:?},{})", field, op, val_str(value)),
        Predicate::CompareRef { field, op, ref_alias, ref_field } => format!("R({},{:?},{}.{})", field, op, ref_alias, ref_field),
        Predicate::And(a, b) => format!("And({},{})", pred_shape(a), pred_shape(b)),
        Predicate::Or(a, b) => format!("Or({},{})", pred_shape(a), pred_shape(b)),
        Predicate::Not(a) => format!("Not({})", pred_shape(a)),
        Predicate::Expr(_) => "E".to_string(),
    }
}

fn has_bool(e: &Expr, ev: &Event) -> bool {
    let functions: FxHashMap<String, UserFunction> = FxHashMap::default();
    let bindings: FxHashMap<String, Value> = FxHashMap::default();
    eval_expr_with_functions(e, ev, SequenceContext::empty(), &functions, &bindings)
        .and_then(|v| v.as_bool())
        .is_some()
}

/// Known-finding class C09-not-over-valueless computed with the real evaluator (Cmp/Classes.v
/// not_over_valueless is the reference; this copy is used for shrinking and cross-checked).
fn not_over_valueless(e: &Expr, ev: &Event) -> bool {
    match e {
        Expr::Unary { op: UnaryOp::Not, expr } => !has_bool(expr, ev) || not_over_valueless(expr, ev),
        Expr::Binary { op: BinOp::And | BinOp::Or, left, right } => not_over_valueless(left, ev) || not_over_valueless(right, ev),
        _ => false,
    }
}

/// Known-finding class C09-or-with-valueless-side (reference: Cmp/Classes.v or_with_valueless).
fn or_with_valueless(e: &Expr, ev: &Event) -> bool {
    match e {
        Expr::Binary { op: BinOp::Or, left, right } => {
            !has_bool(left, ev) || !has_bool(right, ev) || or_with_valueless(left, ev) || or_with_valueless(right, ev)
        }
        Expr::Binary { op: BinOp::And, left, right } => or_with_valueless(left, ev) || or_with_valueless(right, ev),
        Expr::Unary { op: UnaryOp::Not, expr } => or_with_valueless(expr, ev),
        _ => false,
    }
}

fn filter(req: &J) -> J {
    let e = expr_from_json(&req["expr"]);
    let functions: FxHashMap<String, UserFunction> = FxHashMap::default();
    let bindings: FxHashMap<String, Value> = FxHashMap::default();
    let mut captured: FxHashMap<String, Arc<Event>> = FxHashMap::default();
    if let Some(cs) = req["captured"].as_array() {
        for c in cs {
            captured.insert(c[0].as_str().unwrap().to_string(), Arc::new(event_from_json(&c[1])));
        }
    }
    let pred = expr_to_sase_predicate(&e);
    let mut res = Vec::new();
    let mut flags = Vec::new();
    for evj in req["events"].as_array().unwrap() {
        let ev = event_from_json(evj);
        flags.push(json!([not_over_valueless(&e, &ev), or_with_valueless(&e, &ev)]));
        // crates/varpulis-runtime/src/engine/pipeline.rs RuntimeOp::WhereExpr
        let w = eval_expr_with_functions(&e, &ev, SequenceContext::empty(), &functions, &bindings)
            .and_then(|v| v.as_bool())
            .unwrap_or(false);
        // crates/varpulis-runtime/src/sase.rs event_matches_state: no predicate => accept
        let s = match &pred {
            Some(p) => sase_eval(p, &ev, &captured),
            None => true,
        };
        res.push(json!([w, s]));
    }
    json!({"acc": res, "flags": flags, "pred": pred.as_ref().map(pred_shape)})
}

fn engine(req: &J) -> J {
    let vpl = req["vpl"].as_str().unwrap();
    let program = match varpulis_parser::parse(vpl) {
        Ok(p) => p,
        Err(e) => return json!({"error": format!("parse: {}", e)}),
    };
    let rt = tokio::runtime::Builder::new_current_thread().enable_all().build().unwrap();
    rt.block_on(async {
        let (tx, mut rx) = tokio::sync::mpsc::channel(100_000);
        let mut eng = varpulis_runtime::Engine::new(tx);
        if let Err(e) = eng.load(&program) {
            return json!({"error": format!("load: {}", e)});
        }
        let mut out = Vec::new();
        for evj in req["events"].as_array().unwrap() {
            let ev = event_from_json(evj);
            if let Err(e) = eng.process(ev).await {
                return json!({"error": format!("process: {}", e)});
            }
            while let Ok(o) = rx.try_recv() {
                out.push(json!({
                    "type": &*o.event_type,
                    "fields": o.data.iter().map(|(k, v)| json!([&**k, value_to_json(v)])).collect::<Vec<_>>()
                }));
            }
        }
        json!({ "out": out })
    })
}

fn main() {
    vp_common::serve(|req| match req["op"].as_str().unwrap_or("") {
        "binall" => binall(req),
        "filter" => filter(req),
        "engine" => engine(req),
        other => json!({"error": format!("unknown op {}", other)}),
    });
}
