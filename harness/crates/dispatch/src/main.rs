//! vp-dispatch: runs the real `varpulis_runtime::Engine` through its entry points.
//!
//! Request (one JSON object per line):
//!   {"vpl": "<program>", "steps": [STEP..]}
//!   STEP = {"k":"event","e":EV}            Engine::process
//!        | {"k":"batch","es":[EV..]}       Engine::process_batch
//!        | {"k":"sync","es":[EV..]}        Engine::process_batch_sync
//!        | {"k":"reload","vpl":"<program>"} Engine::reload
//! Answer:
//!   {"routes":[[type,[stream..]]..], "streams":[{name,kind,sources,n_ops,has_process}..],
//!    "steps":[{"out":[EV..], "trace":[{stream,event,depth,emitted,outputs}..],
//!              "routes":.., "streams":.., "report":{..}|null, "error":..}..]}
//! `out` is what arrived on the engine's output channel during the step, in order.
//! `trace` comes from the cfg(varpulis_verif) hook engine::verif_trace (every hand-off of an
//! event to a stream pipeline, in order). Events are tagged JSON (see vp-common).
use serde_json::{json, Value as J};
use varpulis_runtime::engine::verif_trace;
use varpulis_runtime::event::Event;
use vp_common::{event_from_json, event_to_json};

fn routes_json(eng: &varpulis_runtime::Engine) -> J {
    json!(eng.verif_routes().into_iter().map(|(t, ss)| json!([t, ss])).collect::<Vec<_>>())
}

fn streams_json(eng: &varpulis_runtime::Engine) -> J {
    json!(eng
        .verif_streams()
        .into_iter()
        .map(|s| json!({"name": s.name, "kind": s.source_kind, "sources": s.source_names,
                        "n_ops": s.n_ops, "has_process": s.has_process}))
        .collect::<Vec<_>>())
}

fn evs(j: &J) -> Vec<Event> {
    j.as_array().map(|a| a.iter().map(event_from_json).collect()).unwrap_or_default()
}

fn run(req: &J) -> J {
    let vpl = req["vpl"].as_str().unwrap();
    let program = match varpulis_parser::parse(vpl) {
        Ok(p) => p,
        Err(e) => return json!({"error": format!("parse: {}", e)}),
    };
    let rt = tokio::runtime::Builder::new_current_thread().enable_all().build().unwrap();
    rt.block_on(async {
        let (tx, mut rx) = tokio::sync::mpsc::channel::<Event>(1_000_000);
        let mut eng = varpulis_runtime::Engine::new(tx);
        if let Err(e) = eng.load(&program) {
            return json!({"error": format!("load: {}", e)});
        }
        let routes0 = routes_json(&eng);
        let streams0 = streams_json(&eng);
        verif_trace::start();
        let mut steps = Vec::new();
        for st in req["steps"].as_array().unwrap() {
            let mut error = J::Null;
            let mut report = J::Null;
            let mut extra = serde_json::Map::new();
            match st["k"].as_str().unwrap_or("") {
                "event" => {
                    if let Err(e) = eng.process(event_from_json(&st["e"])).await {
                        error = json!(e);
                    }
                }
                "batch" => {
                    if let Err(e) = eng.process_batch(evs(&st["es"])).await {
                        error = json!(e);
                    }
                }
                "sync" => {
                    if let Err(e) = eng.process_batch_sync(evs(&st["es"])) {
                        error = json!(e);
                    }
                }
                "reload" => {
                    match varpulis_parser::parse(st["vpl"].as_str().unwrap()) {
                        Err(e) => error = json!(format!("parse: {}", e)),
                        Ok(p) => match eng.reload(&p) {
                            Err(e) => error = json!(format!("reload: {}", e)),
                            Ok(mut r) => {
                                r.streams_added.sort();
                                r.streams_removed.sort();
                                r.streams_updated.sort();
                                r.state_preserved.sort();
                                r.state_reset.sort();
                                report = json!({"added": r.streams_added, "removed": r.streams_removed,
                                    "updated": r.streams_updated, "preserved": r.state_preserved, "reset": r.state_reset});
                            }
                        },
                    }
                    extra.insert("routes".into(), routes_json(&eng));
                    extra.insert("streams".into(), streams_json(&eng));
                }
                other => error = json!(format!("unknown step {}", other)),
            }
            let mut out = Vec::new();
            while let Ok(o) = rx.try_recv() {
                out.push(event_to_json(&o));
            }
            let trace: Vec<J> = verif_trace::take()
                .into_iter()
                .map(|d| {
                    json!({"stream": d.stream, "event": event_to_json(&d.event), "depth": d.depth,
                           "emitted": d.emitted.iter().map(|e| event_to_json(e)).collect::<Vec<_>>(),
                           "outputs": d.outputs.iter().map(|e| event_to_json(e)).collect::<Vec<_>>()})
                })
                .collect();
            let mut o = serde_json::Map::new();
            o.insert("out".into(), json!(out));
            o.insert("trace".into(), json!(trace));
            o.insert("report".into(), report);
            o.insert("error".into(), error);
            o.extend(extra);
            steps.push(J::Object(o));
        }
        json!({"routes": routes0, "streams": streams0, "steps": steps})
    })
}

fn main() {
    vp_common::serve(run);
}
