//! Harness for C35/C36: drives the real MemStore / RocksStore (openraft v1 `RaftStorage`) and the
//! real `apply_command` with op sequences, and prints canonical observables.
//!
//! One JSON request per stdin line:
//!   {"mode":"ops","store":"mem"|"rocks","ops":[op..],"ground":[entry..]?}
//!       -> {"steps":[obs..]}            (obs after every op; "restart" reopens the RocksDB directory)
//!   {"mode":"crash","ops":[op..],"crash_at":k,"ground":[entry..]}
//!       -> {"writes":n,"writes_before":[..],"crashed":bool,"crashed_in":i,"post":obs,"expected_state":state}
//!          runs ops on a fresh RocksDB directory with a process-crash (panic from the cfg(varpulis_verif)
//!          crash hook, store dropped) after the k-th RocksDB write (k = 0: no crash, just count writes),
//!          then reopens; "post" = observation after reopen, "expected_state" = real apply_command folded over the
//!          ground entries with index <= the recovered applied index.
//!   {"mode":"suite","store":"mem"|"rocks"} -> {"results":[[test,"ok"|"panic: ..."|"err: ..."]..]}
//!
//! Encodings: logid [term,node,index]; vote [term,node,committed]; entry {"id":logid,"p":["blank"]|["mem",n]|["cmd",<serde ClusterCommand>]};
//! bound ["i",n]|["e",n]|["u"]. Membership id n = bitmask of voter node ids 1..=6 (0 = default/empty).
mod cluster;
mod coord;
use openraft::storage::RaftLogStorage;
use openraft::storage::RaftStateMachine;
use openraft::testing::{StoreBuilder, Suite};
use openraft::{
    CommittedLeaderId, Entry, EntryPayload, LogId, Membership, RaftLogReader, RaftSnapshotBuilder,
    RaftStorage, StorageError, StoredMembership, Vote,
};
use serde_json::{json, Value as J};
use std::collections::BTreeSet;
use std::ops::Bound;
use std::sync::atomic::{AtomicU64, Ordering};
use varpulis_cluster::raft::persistent_store::RocksStore;
use varpulis_cluster::raft::state_machine::{apply_command, CoordinatorState};
use varpulis_cluster::raft::store::{MemStore, SharedCoordinatorState};
use varpulis_cluster::raft::{ClusterCommand, NodeId, RaftNode, TypeConfig};

static DIR_SEQ: AtomicU64 = AtomicU64::new(0);

fn fresh_dir() -> String {
    let n = DIR_SEQ.fetch_add(1, Ordering::SeqCst);
    let p = format!("/tmp/raft-h-{}-{}", std::process::id(), n);
    let _ = std::fs::remove_dir_all(&p);
    p
}

struct DirGuard(String);
impl Drop for DirGuard {
    fn drop(&mut self) {
        let _ = std::fs::remove_dir_all(&self.0);
    }
}

// ---------------------------------------------------------------- decoding
fn logid(j: &J) -> LogId<NodeId> {
    LogId::new(
        CommittedLeaderId::new(j[0].as_u64().unwrap(), j[1].as_u64().unwrap()),
        j[2].as_u64().unwrap(),
    )
}

fn membership_of(n: u64) -> Membership<NodeId, RaftNode> {
    if n == 0 {
        return Membership::default();
    }
    let set: BTreeSet<NodeId> = (1..=6u64).filter(|i| n >> (i - 1) & 1 == 1).collect();
    Membership::new(vec![set], None)
}

fn membership_id(m: &Membership<NodeId, RaftNode>) -> u64 {
    m.voter_ids().map(|i| 1u64 << (i - 1)).sum()
}

fn entry(j: &J) -> Entry<TypeConfig> {
    let p = j["p"].as_array().unwrap();
    let payload = match p[0].as_str().unwrap() {
        "blank" => EntryPayload::Blank,
        "mem" => EntryPayload::Membership(membership_of(p[1].as_u64().unwrap())),
        "cmd" => EntryPayload::Normal(serde_json::from_value::<ClusterCommand>(p[1].clone()).expect("command json")),
        x => panic!("bad payload {}", x),
    };
    Entry { log_id: logid(&j["id"]), payload }
}

fn entries(j: &J) -> Vec<Entry<TypeConfig>> {
    j.as_array().unwrap().iter().map(entry).collect()
}

fn bound(j: &J) -> Bound<u64> {
    match j[0].as_str().unwrap() {
        "i" => Bound::Included(j[1].as_u64().unwrap()),
        "e" => Bound::Excluded(j[1].as_u64().unwrap()),
        _ => Bound::Unbounded,
    }
}

// ---------------------------------------------------------------- encoding
pub(crate) fn j_logid(l: &LogId<NodeId>) -> J {
    json!([l.leader_id.term, l.leader_id.node_id, l.index])
}
pub(crate) fn j_ologid(l: &Option<LogId<NodeId>>) -> J {
    l.as_ref().map(j_logid).unwrap_or(J::Null)
}
pub(crate) fn j_smem(m: &StoredMembership<NodeId, RaftNode>) -> J {
    json!([j_ologid(m.log_id()), membership_id(m.membership())])
}
pub(crate) fn j_entry(e: &Entry<TypeConfig>) -> J {
    let p = match &e.payload {
        EntryPayload::Blank => json!(["blank"]),
        EntryPayload::Membership(m) => json!(["mem", membership_id(m)]),
        EntryPayload::Normal(c) => json!(["cmd", serde_json::to_value(c).unwrap()]),
    };
    json!({"id": j_logid(&e.log_id), "p": p})
}
fn j_entries(es: &[Entry<TypeConfig>]) -> J {
    J::Array(es.iter().map(j_entry).collect())
}
/// Field-by-field rendering of the replicated state (deliberately not through `Serialize`, so that the
/// observation does not depend on the serde attributes the snapshot format depends on).
pub(crate) fn j_state(s: &CoordinatorState) -> J {
    let mut workers = serde_json::Map::new();
    for (k, w) in &s.workers {
        workers.insert(k.clone(), json!({"id": w.id, "address": w.address, "api_key": w.api_key, "status": w.status,
            "cpu_cores": w.cpu_cores, "pipelines_running": w.pipelines_running, "max_pipelines": w.max_pipelines,
            "assigned_pipelines": w.assigned_pipelines, "events_processed": w.events_processed}));
    }
    let mut connectors = serde_json::Map::new();
    for (k, c) in &s.connectors {
        let mut params = serde_json::Map::new();
        for (pk, pv) in &c.params {
            params.insert(pk.clone(), J::String(pv.clone()));
        }
        connectors.insert(k.clone(), json!({"name": c.name, "connector_type": c.connector_type, "params": params, "description": c.description}));
    }
    let mut models = serde_json::Map::new();
    for (k, m) in &s.models {
        models.insert(k.clone(), json!({"name": m.name, "s3_key": m.s3_key, "format": m.format, "inputs": m.inputs, "outputs": m.outputs,
            "size_bytes": m.size_bytes, "uploaded_at": m.uploaded_at, "description": m.description}));
    }
    let groups: serde_json::Map<String, J> = s.pipeline_groups.iter().map(|(k, v)| (k.clone(), v.clone())).collect();
    let migs: serde_json::Map<String, J> = s.active_migrations.iter().map(|(k, v)| (k.clone(), v.clone())).collect();
    json!({"workers": workers, "pipeline_groups": groups, "connectors": connectors, "active_migrations": migs,
           "scaling_policy": s.scaling_policy, "models": models})
}

/// The CoordinatorState a receiver would get out of serialized snapshot data.
fn snap_state(data: &J) -> J {
    match serde_json::from_value::<CoordinatorState>(data["state"].clone()) {
        Ok(st) => j_state(&st),
        Err(e) => json!({ "undecodable": e.to_string() }),
    }
}

fn err_str(e: StorageError<NodeId>) -> String {
    format!("storage error: {}", e)
}

// ---------------------------------------------------------------- ops
/// The leader side of a snapshot transfer: a fresh MemStore that applies `es` and builds a snapshot.
async fn leader_snapshot(es: Vec<Entry<TypeConfig>>) -> openraft::Snapshot<TypeConfig> {
    let mut l = MemStore::new();
    l.apply_to_state_machine(&es).await.unwrap();
    l.get_snapshot_builder().await.build_snapshot().await.unwrap()
}

async fn step<S: RaftStorage<TypeConfig>>(s: &mut S, op: &J) -> Result<J, String> {
    let name = op[0].as_str().unwrap();
    match name {
        "vote" => {
            let v = if op[1][2].as_bool().unwrap() {
                Vote::new_committed(op[1][0].as_u64().unwrap(), op[1][1].as_u64().unwrap())
            } else {
                Vote::new(op[1][0].as_u64().unwrap(), op[1][1].as_u64().unwrap())
            };
            s.save_vote(&v).await.map_err(err_str)?;
            Ok(J::Null)
        }
        "append" => {
            s.append_to_log(entries(&op[1])).await.map_err(err_str)?;
            Ok(J::Null)
        }
        "delete" => {
            s.delete_conflict_logs_since(logid(&op[1])).await.map_err(err_str)?;
            Ok(J::Null)
        }
        "purge" => {
            s.purge_logs_upto(logid(&op[1])).await.map_err(err_str)?;
            Ok(J::Null)
        }
        "apply" => {
            let es = entries(&op[1]);
            let r = s.apply_to_state_machine(&es).await.map_err(err_str)?;
            Ok(json!(r.iter().map(|x| matches!(x, varpulis_cluster::raft::ClusterResponse::Ok)).collect::<Vec<_>>()))
        }
        "build" => {
            let snap = s.get_snapshot_builder().await.build_snapshot().await.map_err(err_str)?;
            let data: J = serde_json::from_slice(snap.snapshot.get_ref()).unwrap();
            Ok(json!({"last": j_ologid(&snap.meta.last_log_id), "mem": j_smem(&snap.meta.last_membership),
                      "id": snap.meta.snapshot_id, "state": snap_state(&data)}))
        }
        "install" => {
            let snap = leader_snapshot(entries(&op[1])).await;
            let mut bx = s.begin_receiving_snapshot().await.map_err(err_str)?;
            *bx = *snap.snapshot;
            s.install_snapshot(&snap.meta, bx).await.map_err(err_str)?;
            Ok(J::Null)
        }
        "range" => {
            let r = (bound(&op[1]), bound(&op[2]));
            let a = s.try_get_log_entries(r).await.map_err(err_str)?;
            let mut rd = s.get_log_reader().await;
            let b = rd.try_get_log_entries(r).await.map_err(err_str)?;
            drop(rd);
            Ok(json!({"store": j_entries(&a), "reader": j_entries(&b)}))
        }
        x => Err(format!("bad op {}", x)),
    }
}

async fn observe<S: RaftStorage<TypeConfig>>(s: &mut S, shared: &SharedCoordinatorState) -> Result<J, String> {
    let vote = s.read_vote().await.map_err(err_str)?;
    let ls = s.get_log_state().await.map_err(err_str)?;
    let log = s.try_get_log_entries(..).await.map_err(err_str)?;
    let (applied, mem) = s.last_applied_state().await.map_err(err_str)?;
    let snap = s.get_current_snapshot().await.map_err(err_str)?;
    let st = shared.read().unwrap().clone();
    Ok(json!({
        "vote": vote.map(|v| json!([v.leader_id.term, v.leader_id.node_id, v.committed])),
        "purged": j_ologid(&ls.last_purged_log_id),
        "last": j_ologid(&ls.last_log_id),
        "log": j_entries(&log),
        "applied": j_ologid(&applied),
        "mem": j_smem(&mem),
        "snap": snap.map(|sn| {
            let data: J = serde_json::from_slice(sn.snapshot.get_ref()).unwrap_or(J::Null);
            json!({"last": j_ologid(&sn.meta.last_log_id), "mem": j_smem(&sn.meta.last_membership), "id": sn.meta.snapshot_id,
                   "state": snap_state(&data)})
        }),
        "state": j_state(&st),
    }))
}

/// State obtained by replaying the ground-truth committed entries up to `index` with the real apply_command.
fn expected_state(ground: &[Entry<TypeConfig>], index: Option<u64>) -> J {
    let mut st = CoordinatorState::default();
    if let Some(ix) = index {
        for e in ground {
            if e.log_id.index <= ix {
                if let EntryPayload::Normal(c) = &e.payload {
                    apply_command(&mut st, c.clone());
                }
            }
        }
    }
    j_state(&st)
}

fn run_ops(rt: &tokio::runtime::Runtime, req: &J) -> J {
    let ops = req["ops"].as_array().unwrap();
    let mut steps = Vec::new();
    if req["store"].as_str().unwrap() == "mem" {
        let (mut s, shared) = MemStore::with_shared_state();
        for op in ops {
            let r = rt.block_on(async {
                let res = step(&mut s, op).await?;
                let mut o = observe(&mut s, &shared).await?;
                o["res"] = res;
                // the pub field and the published copy must agree
                o["field_eq_shared"] = json!(j_state(&s.state) == o["state"]);
                Ok::<J, String>(o)
            });
            steps.push(r.unwrap_or_else(|e| json!({ "error": e })));
        }
    } else {
        let dir = fresh_dir();
        let _g = DirGuard(dir.clone());
        let (mut s, mut shared) = RocksStore::open_with_shared_state(&dir).expect("open");
        for op in ops {
            if op[0].as_str().unwrap() == "restart" {
                drop(s);
                let (s2, sh2) = RocksStore::open_with_shared_state(&dir).expect("reopen");
                s = s2;
                shared = sh2;
                let r = rt.block_on(async { observe(&mut s, &shared).await });
                steps.push(r.unwrap_or_else(|e| json!({ "error": e })));
                continue;
            }
            let r = rt.block_on(async {
                let res = step(&mut s, op).await?;
                let mut o = observe(&mut s, &shared).await?;
                o["res"] = res;
                Ok::<J, String>(o)
            });
            steps.push(r.unwrap_or_else(|e| json!({ "error": e })));
        }
        drop(s);
    }
    json!({ "steps": steps })
}

fn run_crash(rt: &tokio::runtime::Runtime, req: &J) -> J {
    use varpulis_cluster::raft::persistent_store::verif_crash;
    let ops = req["ops"].as_array().unwrap();
    let ground = entries(&req["ground"]);
    let crash_at = req["crash_at"].as_i64().unwrap();
    let dir = fresh_dir();
    let _g = DirGuard(dir.clone());
    let (s, _shared0) = RocksStore::open_with_shared_state(&dir).expect("open");
    let mut s = Some(s);
    verif_crash::arm(crash_at);
    let mut crashed_in: i64 = -1;
    let mut writes_before = Vec::new();
    for (i, op) in ops.iter().enumerate() {
        writes_before.push(verif_crash::writes());
        let mut st = s.take().unwrap();
        let res = std::panic::catch_unwind(std::panic::AssertUnwindSafe(|| {
            let r = rt.block_on(async { step(&mut st, op).await });
            (st, r)
        }));
        match res {
            Ok((st, r)) => {
                if let Err(e) = r {
                    return json!({ "error": e });
                }
                s = Some(st);
            }
            Err(e) => {
                let msg = e.downcast_ref::<String>().cloned().or_else(|| e.downcast_ref::<&str>().map(|x| x.to_string())).unwrap_or_default();
                if !msg.contains("varpulis_verif crash point") {
                    return json!({ "panic": msg });
                }
                // the store object moved into the closure is dropped by the unwind = process crash
                crashed_in = i as i64;
                break;
            }
        }
    }
    let writes = verif_crash::writes();
    verif_crash::arm(0);
    drop(s);
    let (mut s2, shared) = RocksStore::open_with_shared_state(&dir).expect("reopen");
    let post = rt.block_on(async { observe(&mut s2, &shared).await }).unwrap();
    let applied_ix = post["applied"].as_array().map(|a| a[2].as_u64().unwrap());
    let exp = expected_state(&ground, applied_ix);
    drop(s2);
    json!({"writes": writes, "writes_before": writes_before, "crashed": crashed_in >= 0, "crashed_in": crashed_in, "post": post, "expected_state": exp})
}

// ---------------------------------------------------------------- openraft conformance suite
struct MemBuilder;
struct RocksBuilder;
type Ad<S> = openraft::storage::Adaptor<TypeConfig, S>;

impl StoreBuilder<TypeConfig, Ad<MemStore>, Ad<MemStore>, ()> for MemBuilder {
    async fn build(&self) -> Result<((), Ad<MemStore>, Ad<MemStore>), StorageError<NodeId>> {
        let (a, b) = openraft::storage::Adaptor::new(MemStore::new());
        Ok(((), a, b))
    }
}
impl StoreBuilder<TypeConfig, Ad<RocksStore>, Ad<RocksStore>, DirGuard> for RocksBuilder {
    async fn build(&self) -> Result<(DirGuard, Ad<RocksStore>, Ad<RocksStore>), StorageError<NodeId>> {
        let dir = fresh_dir();
        let (st, _sh) = RocksStore::open_with_shared_state(&dir).expect("open");
        let (a, b) = openraft::storage::Adaptor::new(st);
        Ok((DirGuard(dir), a, b))
    }
}

fn outcome(r: std::thread::Result<Result<(), StorageError<NodeId>>>) -> String {
    match r {
        Ok(Ok(())) => "ok".into(),
        Ok(Err(e)) => format!("err: {}", e),
        Err(e) => {
            let msg = e.downcast_ref::<String>().cloned().or_else(|| e.downcast_ref::<&str>().map(|x| x.to_string())).unwrap_or_default();
            format!("panic: {}", msg.replace('\n', " "))
        }
    }
}

macro_rules! suite_tests {
    ($LS:ty, $B:ty, $G:ty, $b:expr, $out:expr; $($name:ident),* $(,)?) => {
        $(
            {
                let r = std::panic::catch_unwind(std::panic::AssertUnwindSafe(|| {
                    let rt = tokio::runtime::Builder::new_multi_thread().worker_threads(2).enable_all().build().unwrap();
                    rt.block_on(async {
                        let (_g, store, sm) = $b.build().await?;
                        Suite::<TypeConfig, $LS, $LS, $B, $G>::$name(store, sm).await
                    })
                }));
                $out.push(json!([stringify!($name), outcome(r)]));
            }
        )*
    };
}

macro_rules! suite_all {
    ($LS:ty, $B:ty, $G:ty, $b:expr, $out:expr) => {
        suite_tests!($LS, $B, $G, $b, $out;
            last_membership_in_log_initial, last_membership_in_log, last_membership_in_log_multi_step,
            get_membership_initial, get_membership_from_log_and_empty_sm, get_membership_from_empty_log_and_sm,
            get_membership_from_log_le_sm_last_applied, get_membership_from_log_gt_sm_last_applied_1,
            get_membership_from_log_gt_sm_last_applied_2, get_initial_state_without_init,
            get_initial_state_membership_from_log_and_sm, get_initial_state_with_state,
            get_initial_state_last_log_gt_sm, get_initial_state_last_log_lt_sm, get_initial_state_log_ids,
            get_initial_state_re_apply_committed, save_vote, get_log_entries, limited_get_log_entries,
            try_get_log_entry, initial_logs, get_log_state, get_log_id, last_id_in_log, last_applied_state,
            purge_logs_upto_0, purge_logs_upto_5, purge_logs_upto_20, delete_logs_since_11, delete_logs_since_0,
            append_to_log, snapshot_meta, apply_single, apply_multiple);
        {
            let r = std::panic::catch_unwind(std::panic::AssertUnwindSafe(|| {
                let rt = tokio::runtime::Builder::new_multi_thread().worker_threads(2).enable_all().build().unwrap();
                rt.block_on(Suite::<TypeConfig, $LS, $LS, $B, $G>::transfer_snapshot(&$b))
            }));
            $out.push(json!(["transfer_snapshot", outcome(r)]));
        }
    };
}

fn run_suite(req: &J) -> J {
    let mut out: Vec<J> = Vec::new();
    if req["store"].as_str().unwrap() == "mem" {
        let b = MemBuilder;
        suite_all!(Ad<MemStore>, MemBuilder, (), b, out);
    } else {
        let b = RocksBuilder;
        suite_all!(Ad<RocksStore>, RocksBuilder, DirGuard, b, out);
    }
    json!({ "results": out })
}

// silence unused-import warnings for the v2 traits used only through the Suite's bounds
#[allow(dead_code)]
fn _bounds<LS: RaftLogStorage<TypeConfig>, SM: RaftStateMachine<TypeConfig>>() {}

fn main() {
    let rt = tokio::runtime::Builder::new_current_thread().enable_all().build().unwrap();
    vp_common::serve(move |req| match req["mode"].as_str().unwrap_or("") {
        "ops" => run_ops(&rt, req),
        "crash" => run_crash(&rt, req),
        "suite" => run_suite(req),
        "coord" => {
            let rt2 = tokio::runtime::Builder::new_multi_thread().worker_threads(4).enable_all().build().unwrap();
            rt2.block_on(coord::run(req))
        }
        "cluster" => {
            // own multi-threaded runtime: openraft spawns its core and replication tasks
            let rt2 = tokio::runtime::Builder::new_multi_thread().worker_threads(4).enable_all().build().unwrap();
            if req["store"].as_str().unwrap() == "mem" {
                rt2.block_on(cluster::run(cluster::MkMem, req))
            } else {
                let dir = fresh_dir();
                let _g = DirGuard(dir.clone());
                rt2.block_on(cluster::run(cluster::MkRocks(dir), req))
            }
        }
        m => json!({"error": format!("bad mode {}", m)}),
    });
}
