//! C37: in-process 3-node clusters — the real openraft, the real MemStore / RocksStore and state machine —
//! over an in-memory network with message loss, partitions and node restarts (every RPC goes through the
//! same serde_json round trip as the HTTP transport in raft/network.rs + raft/routes.rs).
//!
//! Request: {"mode":"cluster","store":"mem"|"rocks","seed":n,"purge":bool,"steps":[step..]}
//!   step: ["write",<serde ClusterCommand>] | ["partition",[[ids..],[ids..]]] | ["heal"] | ["drop",per_mille]
//!       | ["restart",id] | ["snapshot",id] | ["sleep",ms]
//! Answer: {"acks":[{"id":logid,"cmd":..}], "failed_writes":n, "samples":[{"step":k,"node":id,"applied":logid|null,"digest":s}],
//!          "seen":[entry..] (committed entries observed in some node's log, by index), "seen_conflicts":[..],
//!          "final":[{"node":id,"applied":..,"mem":..,"state":..,"log":[entry..],"purged":..,"expected_state":..|null}],
//!          "converged":bool,"events":[..]}
use crate::{j_entry, j_ologid, j_smem, j_state};
use openraft::error::{InstallSnapshotError, RPCError, RaftError, RemoteError, Unreachable};
use openraft::network::{RPCOption, RaftNetwork, RaftNetworkFactory};
use openraft::raft::{
    AppendEntriesRequest, AppendEntriesResponse, InstallSnapshotRequest, InstallSnapshotResponse, VoteRequest, VoteResponse,
};
use openraft::storage::Adaptor;
use openraft::storage::LogState;
use openraft::{Entry, LogId, RaftLogReader, RaftStorage, Snapshot, SnapshotMeta, StorageError, StoredMembership, Vote};
use std::fmt::Debug;
use std::ops::RangeBounds;
use serde_json::{json, Value as J};
use std::collections::{BTreeMap, HashMap, HashSet};
use std::sync::{Arc, Mutex};
use std::time::Duration;
use varpulis_cluster::raft::persistent_store::RocksStore;
use varpulis_cluster::raft::state_machine::{apply_command, CoordinatorState};
use varpulis_cluster::raft::store::{MemStore, SharedCoordinatorState};
use varpulis_cluster::raft::{ClusterCommand, NodeId, RaftNode, TypeConfig};

pub type RaftT = openraft::Raft<TypeConfig>;

#[derive(Default)]
struct RouterInner {
    nodes: HashMap<NodeId, RaftT>,
    groups: Option<Vec<HashSet<NodeId>>>, // partition: only nodes in the same group talk
    drop_per_mille: u64,
    rng: u64,
}

#[derive(Clone, Default)]
struct Router(Arc<Mutex<RouterInner>>);

impl Router {
    fn next(inner: &mut RouterInner) -> u64 {
        inner.rng = inner.rng.wrapping_add(0x9E3779B97F4A7C15);
        let mut z = inner.rng;
        z = (z ^ (z >> 30)).wrapping_mul(0xBF58476D1CE4E5B9);
        z = (z ^ (z >> 27)).wrapping_mul(0x94D049BB133111EB);
        z ^ (z >> 31)
    }
    /// the target's Raft handle if the message gets through
    fn route(&self, from: NodeId, to: NodeId) -> Result<RaftT, Unreachable> {
        let mut g = self.0.lock().unwrap();
        let unreachable = |why: &str| Unreachable::new(&std::io::Error::other(why.to_string()));
        if let Some(groups) = &g.groups {
            if !groups.iter().any(|s| s.contains(&from) && s.contains(&to)) {
                return Err(unreachable("partitioned"));
            }
        }
        if g.drop_per_mille > 0 && Self::next(&mut g) % 1000 < g.drop_per_mille {
            return Err(unreachable("dropped"));
        }
        g.nodes.get(&to).cloned().ok_or_else(|| unreachable("node down"))
    }
}

struct NetFactory {
    router: Router,
    from: NodeId,
}
struct NetClient {
    router: Router,
    from: NodeId,
    to: NodeId,
}

impl RaftNetworkFactory<TypeConfig> for NetFactory {
    type Network = NetClient;
    async fn new_client(&mut self, target: NodeId, _node: &RaftNode) -> NetClient {
        NetClient { router: self.router.clone(), from: self.from, to: target }
    }
}

/// what the HTTP transport does to every request / response
fn wire<T: serde::Serialize + serde::de::DeserializeOwned>(x: &T) -> T {
    serde_json::from_slice(&serde_json::to_vec(x).expect("rpc to json")).expect("rpc from json")
}

impl RaftNetwork<TypeConfig> for NetClient {
    async fn vote(&mut self, rpc: VoteRequest<NodeId>, _o: RPCOption) -> Result<VoteResponse<NodeId>, RPCError<NodeId, RaftNode, RaftError<NodeId>>> {
        let target = self.router.route(self.from, self.to).map_err(RPCError::Unreachable)?;
        let r = target.vote(wire(&rpc)).await.map_err(|e| RPCError::RemoteError(RemoteError::new(self.to, e)))?;
        self.router.route(self.to, self.from).map_err(RPCError::Unreachable)?; // the answer can be lost too
        Ok(wire(&r))
    }
    async fn append_entries(
        &mut self,
        rpc: AppendEntriesRequest<TypeConfig>,
        _o: RPCOption,
    ) -> Result<AppendEntriesResponse<NodeId>, RPCError<NodeId, RaftNode, RaftError<NodeId>>> {
        let target = self.router.route(self.from, self.to).map_err(RPCError::Unreachable)?;
        let r = target.append_entries(wire(&rpc)).await.map_err(|e| RPCError::RemoteError(RemoteError::new(self.to, e)))?;
        self.router.route(self.to, self.from).map_err(RPCError::Unreachable)?;
        Ok(wire(&r))
    }
    async fn install_snapshot(
        &mut self,
        rpc: InstallSnapshotRequest<TypeConfig>,
        _o: RPCOption,
    ) -> Result<InstallSnapshotResponse<NodeId>, RPCError<NodeId, RaftNode, RaftError<NodeId, InstallSnapshotError>>> {
        let target = self.router.route(self.from, self.to).map_err(RPCError::Unreachable)?;
        let r = target.install_snapshot(wire(&rpc)).await.map_err(|e| RPCError::RemoteError(RemoteError::new(self.to, e)))?;
        self.router.route(self.to, self.from).map_err(RPCError::Unreachable)?;
        Ok(wire(&r))
    }
}

pub trait Mk: Send + Sync {
    type S: RaftStorage<TypeConfig>;
    /// a store for node `id`; `restart` = the process was killed and started again
    fn make(&self, id: NodeId, restart: bool) -> (Self::S, SharedCoordinatorState);
}
pub struct MkMem;
impl Mk for MkMem {
    type S = MemStore;
    fn make(&self, _id: NodeId, _restart: bool) -> (MemStore, SharedCoordinatorState) {
        MemStore::with_shared_state() // an in-memory store has nothing left after a restart
    }
}
pub struct MkRocks(pub String);
impl Mk for MkRocks {
    type S = RocksStore;
    fn make(&self, id: NodeId, _restart: bool) -> (RocksStore, SharedCoordinatorState) {
        let p = format!("{}/node-{}", self.0, id);
        for _ in 0..200 {
            match RocksStore::open_with_shared_state(&p) {
                Ok(x) => return x,
                Err(_) => std::thread::sleep(Duration::from_millis(25)), // the old handle is still closing
            }
        }
        panic!("cannot reopen {}", p)
    }
}

/// What a node's storage holds, refreshed inside every mutating storage call (so the pieces are consistent).
#[derive(Default, Clone)]
struct Mirror {
    applied: Option<LogId<NodeId>>,
    mem: J,
    state: CoordinatorState,
    log: Vec<Entry<TypeConfig>>,
    purged: Option<LogId<NodeId>>,
}
type SharedMirror = Arc<Mutex<Mirror>>;

/// Delegating wrapper around the real store that keeps the mirror up to date.
pub struct Spy<S: RaftStorage<TypeConfig>> {
    inner: S,
    shared: SharedCoordinatorState,
    mirror: SharedMirror,
}
impl<S: RaftStorage<TypeConfig>> Spy<S> {
    async fn refresh(&mut self) {
        let (applied, mem) = self.inner.last_applied_state().await.expect("applied");
        let state = self.shared.read().unwrap().clone();
        let log = self.inner.try_get_log_entries(..).await.expect("log");
        let purged = self.inner.get_log_state().await.expect("log state").last_purged_log_id;
        *self.mirror.lock().unwrap() = Mirror { applied, mem: j_smem(&mem), state, log, purged };
    }
}
impl<S: RaftStorage<TypeConfig>> RaftLogReader<TypeConfig> for Spy<S> {
    async fn try_get_log_entries<RB: RangeBounds<u64> + Clone + Debug + Send>(&mut self, range: RB) -> Result<Vec<Entry<TypeConfig>>, StorageError<NodeId>> {
        self.inner.try_get_log_entries(range).await
    }
}
impl<S: RaftStorage<TypeConfig>> RaftStorage<TypeConfig> for Spy<S> {
    type LogReader = S::LogReader;
    type SnapshotBuilder = S::SnapshotBuilder;
    async fn save_vote(&mut self, vote: &Vote<NodeId>) -> Result<(), StorageError<NodeId>> {
        self.inner.save_vote(vote).await
    }
    async fn read_vote(&mut self) -> Result<Option<Vote<NodeId>>, StorageError<NodeId>> {
        self.inner.read_vote().await
    }
    async fn get_log_state(&mut self) -> Result<LogState<TypeConfig>, StorageError<NodeId>> {
        self.inner.get_log_state().await
    }
    async fn get_log_reader(&mut self) -> Self::LogReader {
        self.inner.get_log_reader().await
    }
    async fn append_to_log<I>(&mut self, entries: I) -> Result<(), StorageError<NodeId>>
    where I: IntoIterator<Item = Entry<TypeConfig>> + Send {
        let es: Vec<Entry<TypeConfig>> = entries.into_iter().collect();
        let r = self.inner.append_to_log(es).await;
        self.refresh().await;
        r
    }
    async fn delete_conflict_logs_since(&mut self, log_id: LogId<NodeId>) -> Result<(), StorageError<NodeId>> {
        let r = self.inner.delete_conflict_logs_since(log_id).await;
        self.refresh().await;
        r
    }
    async fn purge_logs_upto(&mut self, log_id: LogId<NodeId>) -> Result<(), StorageError<NodeId>> {
        let r = self.inner.purge_logs_upto(log_id).await;
        self.refresh().await;
        r
    }
    async fn last_applied_state(&mut self) -> Result<(Option<LogId<NodeId>>, StoredMembership<NodeId, RaftNode>), StorageError<NodeId>> {
        self.inner.last_applied_state().await
    }
    async fn apply_to_state_machine(&mut self, entries: &[Entry<TypeConfig>]) -> Result<Vec<varpulis_cluster::raft::ClusterResponse>, StorageError<NodeId>> {
        let r = self.inner.apply_to_state_machine(entries).await;
        self.refresh().await;
        r
    }
    async fn get_snapshot_builder(&mut self) -> Self::SnapshotBuilder {
        self.inner.get_snapshot_builder().await
    }
    async fn begin_receiving_snapshot(&mut self) -> Result<Box<std::io::Cursor<Vec<u8>>>, StorageError<NodeId>> {
        self.inner.begin_receiving_snapshot().await
    }
    async fn install_snapshot(&mut self, meta: &SnapshotMeta<NodeId, RaftNode>, snapshot: Box<std::io::Cursor<Vec<u8>>>) -> Result<(), StorageError<NodeId>> {
        let r = self.inner.install_snapshot(meta, snapshot).await;
        self.refresh().await;
        r
    }
    async fn get_current_snapshot(&mut self) -> Result<Option<Snapshot<TypeConfig>>, StorageError<NodeId>> {
        self.inner.get_current_snapshot().await
    }
}

struct Node {
    raft: RaftT,
    mirror: SharedMirror,
}

fn config(purge: bool) -> Arc<openraft::Config> {
    let c = openraft::Config {
        heartbeat_interval: 150,
        election_timeout_min: 900,
        election_timeout_max: 1800,
        install_snapshot_timeout: 2000,
        snapshot_policy: if purge { openraft::SnapshotPolicy::LogsSinceLast(4) } else { openraft::SnapshotPolicy::Never },
        max_in_snapshot_log_to_keep: if purge { 1 } else { 100_000 },
        purge_batch_size: 1,
        replication_lag_threshold: if purge { 3 } else { 100_000 },
        ..Default::default()
    };
    Arc::new(c.validate().expect("config"))
}

async fn start<M: Mk>(mk: &M, router: &Router, id: NodeId, restart: bool, purge: bool) -> Node {
    let (store, shared) = mk.make(id, restart);
    let mirror: SharedMirror = Default::default();
    let mut spy = Spy { inner: store, shared, mirror: mirror.clone() };
    spy.refresh().await; // what a restarted node recovered
    let (log, sm) = Adaptor::new(spy);
    let raft = openraft::Raft::new(id, config(purge), NetFactory { router: router.clone(), from: id }, log, sm).await.expect("Raft::new");
    router.0.lock().unwrap().nodes.insert(id, raft.clone());
    Node { raft, mirror }
}

/// A single-node cluster on the in-memory store: always its own leader (C38).
pub async fn start_single() -> (RaftT, SharedCoordinatorState) {
    let router = Router::default();
    let (store, shared) = MemStore::with_shared_state();
    let (log, sm) = Adaptor::new(store);
    let raft = openraft::Raft::new(1, config(false), NetFactory { router: router.clone(), from: 1 }, log, sm).await.expect("Raft::new");
    let members: BTreeMap<NodeId, RaftNode> = [(1u64, RaftNode { addr: "mem://1".into() })].into_iter().collect();
    raft.initialize(members).await.expect("initialize");
    for _ in 0..400 {
        if raft.metrics().borrow().current_leader == Some(1) {
            break;
        }
        tokio::time::sleep(Duration::from_millis(25)).await;
    }
    router.0.lock().unwrap().nodes.insert(1, raft.clone());
    (raft, shared)
}

fn digest(j: &J) -> String {
    use std::hash::{Hash, Hasher};
    let mut h = std::collections::hash_map::DefaultHasher::new();
    j.to_string().hash(&mut h);
    format!("{:016x}", h.finish())
}

fn observe(n: &Node) -> Mirror {
    n.mirror.lock().unwrap().clone()
}

pub async fn run<M: Mk>(mk: M, req: &J) -> J {
    let purge = req["purge"].as_bool().unwrap_or(false);
    let router = Router::default();
    router.0.lock().unwrap().rng = req["seed"].as_u64().unwrap_or(1);
    let ids: Vec<NodeId> = vec![1, 2, 3];
    let mut nodes: BTreeMap<NodeId, Node> = BTreeMap::new();
    for &id in &ids {
        nodes.insert(id, start(&mk, &router, id, false, purge).await);
    }
    // mod.rs bootstrap_with_storage: only node 1 initializes the membership
    let members: BTreeMap<NodeId, RaftNode> = ids.iter().map(|&i| (i, RaftNode { addr: format!("mem://{}", i) })).collect();
    let mut events: Vec<J> = Vec::new();
    if let Err(e) = nodes[&1].raft.initialize(members).await {
        events.push(json!(format!("initialize: {}", e)));
    }
    let mut acks: Vec<J> = Vec::new();
    let mut failed = 0u64;
    let mut samples: Vec<J> = Vec::new();
    let mut seen: BTreeMap<u64, J> = BTreeMap::new();
    let mut conflicts: Vec<J> = Vec::new();

    macro_rules! sample {
        ($step:expr) => {
            for (id, n) in nodes.iter() {
                let o = observe(n);
                samples.push(json!({"step": $step, "node": id, "applied": j_ologid(&o.applied), "mem": o.mem, "digest": digest(&j_state(&o.state))}));
                if let Some(a) = o.applied {
                    for e in o.log.iter().filter(|e| e.log_id.index <= a.index) {
                        let je = j_entry(e);
                        match seen.get(&e.log_id.index) {
                            Some(old) if *old != je => conflicts.push(json!({"index": e.log_id.index, "a": old, "b": je, "node": id})),
                            Some(_) => {}
                            None => {
                                seen.insert(e.log_id.index, je);
                            }
                        }
                    }
                }
            }
        };
    }

    let steps = req["steps"].as_array().cloned().unwrap_or_default();
    for (k, st) in steps.iter().enumerate() {
        match st[0].as_str().unwrap() {
            "write" => {
                let cmd: ClusterCommand = serde_json::from_value(st[1].clone()).expect("command");
                let mut done = false;
                // a client retries against whichever coordinator claims to be leader (api.rs forwards to the leader)
                'attempts: for _ in 0..40 {
                    let mut order: Vec<NodeId> = Vec::new();
                    for (id, n) in nodes.iter() {
                        if n.raft.metrics().borrow().current_leader == Some(*id) {
                            order.push(*id);
                        }
                    }
                    for id in order {
                        let n = &nodes[&id];
                        match tokio::time::timeout(Duration::from_millis(3000), n.raft.client_write(cmd.clone())).await {
                            Ok(Ok(resp)) => {
                                acks.push(json!({"id": crate::j_logid(&resp.log_id), "cmd": serde_json::to_value(&cmd).unwrap(), "via": id, "step": k}));
                                done = true;
                                break 'attempts;
                            }
                            Ok(Err(_)) | Err(_) => {}
                        }
                    }
                    tokio::time::sleep(Duration::from_millis(250)).await;
                }
                if !done {
                    failed += 1;
                }
            }
            "partition" => {
                let groups: Vec<HashSet<NodeId>> =
                    st[1].as_array().unwrap().iter().map(|g| g.as_array().unwrap().iter().map(|x| x.as_u64().unwrap()).collect()).collect();
                router.0.lock().unwrap().groups = Some(groups);
            }
            "heal" => {
                let mut g = router.0.lock().unwrap();
                g.groups = None;
                g.drop_per_mille = 0;
            }
            "drop" => router.0.lock().unwrap().drop_per_mille = st[1].as_u64().unwrap(),
            "restart" => {
                let id = st[1].as_u64().unwrap();
                if let Some(n) = nodes.remove(&id) {
                    router.0.lock().unwrap().nodes.remove(&id);
                    let _ = n.raft.shutdown().await;
                    drop(n);
                    tokio::time::sleep(Duration::from_millis(100)).await;
                    nodes.insert(id, start(&mk, &router, id, true, purge).await);
                    events.push(json!(format!("restarted {}", id)));
                }
            }
            "snapshot" => {
                let id = st[1].as_u64().unwrap();
                let _ = nodes[&id].raft.trigger().snapshot().await;
                tokio::time::sleep(Duration::from_millis(200)).await;
            }
            "sleep" => tokio::time::sleep(Duration::from_millis(st[1].as_u64().unwrap())).await,
            x => panic!("bad step {}", x),
        }
        sample!(k);
    }
    // heal and let everybody catch up with the highest acknowledged index
    {
        let mut g = router.0.lock().unwrap();
        g.groups = None;
        g.drop_per_mille = 0;
    }
    let want: u64 = acks.iter().map(|a| a["id"][2].as_u64().unwrap()).max().unwrap_or(0);
    let mut converged = false;
    for _ in 0..160 {
        let mut all = true;
        let mut positions = HashSet::new();
        for n in nodes.values() {
            let a = n.raft.metrics().borrow().last_applied;
            positions.insert(a.map(|l| l.index));
            if a.map(|l| l.index).unwrap_or(0) < want || a.is_none() {
                all = false;
            }
        }
        if all && positions.len() == 1 {
            converged = true;
            break;
        }
        tokio::time::sleep(Duration::from_millis(250)).await;
    }
    sample!(steps.len());
    // final observation; expected state = the real apply_command folded over the committed entries seen, if contiguous
    let mut fin: Vec<J> = Vec::new();
    for (id, n) in nodes.iter() {
        let o = observe(n);
        let mut expected = J::Null;
        if let Some(a) = o.applied {
            if (0..=a.index).all(|i| seen.contains_key(&i)) {
                let mut st = CoordinatorState::default();
                for i in 0..=a.index {
                    if seen[&i]["p"][0] == "cmd" {
                        let c: ClusterCommand = serde_json::from_value(seen[&i]["p"][1].clone()).unwrap();
                        apply_command(&mut st, c);
                    }
                }
                expected = j_state(&st);
            }
        }
        fin.push(json!({"node": id, "applied": j_ologid(&o.applied), "mem": o.mem, "state": j_state(&o.state),
                        "log": o.log.iter().map(j_entry).collect::<Vec<_>>(), "purged": j_ologid(&o.purged), "expected_state": expected}));
    }
    for n in nodes.values() {
        let _ = n.raft.shutdown().await;
    }
    drop(nodes);
    json!({"acks": acks, "failed_writes": failed, "samples": samples, "seen": seen.values().cloned().collect::<Vec<_>>(),
           "seen_conflicts": conflicts, "final": fin, "converged": converged, "events": events})
}
