//! C38: a real Coordinator in Raft mode (single-node in-process Raft = always the leader), driven through the real
//! HTTP API filters (`cluster_routes`, via warp::test) and a copy of the coordinator health loop of
//! varpulis-cli/src/main.rs; workers are a fake HTTP server that accepts every deploy / checkpoint / delete.
//! A second Coordinator reads the same replicated state (a follower that has caught up).
//!
//! Request: {"mode":"coord","ops":[op..]}
//!   op: ["register",w] ["heartbeat",w] ["deregister",w] ["deploy",group,[pipeline..]] ["teardown",group]
//!       ["migrate",group,pipeline,w] ["rebalance"] ["drain",w] ["connector_create",n] ["connector_update",n]
//!       ["connector_delete",n] ["set_policy"] ["failover",w] (heartbeats stopped + failure branch of the loop)
//!       ["tick"] (one health-loop iteration)
//! Answer: {"steps":[{"op":..,"http":status|null,"view":leader view after the op,"after_sync":leader view after
//!          sync_from_raft,"follower":follower view after its sync,"replicated":replicated state}]}
use crate::cluster::{start_single, RaftT};
use crate::j_state;
use serde_json::{json, Value as J};
use std::collections::BTreeMap;
use std::sync::atomic::{AtomicU64, Ordering};
use std::sync::Arc;
use std::time::{Duration, Instant};
use varpulis_cluster::coordinator::{Coordinator, RaftHandle, ScalingPolicy};
use varpulis_cluster::raft::store::SharedCoordinatorState;
use varpulis_cluster::{cluster_routes, shared_coordinator, RbacConfig, SharedCoordinator, WorkerId};
use warp::Filter;

const VPL: &str = "stream S = A\n    .where(x > 1)\n    .emit(x: x)\n";

fn view(c: &Coordinator) -> J {
    let mut workers = serde_json::Map::new();
    for (id, w) in &c.workers {
        let mut a = w.assigned_pipelines.clone();
        a.sort();
        workers.insert(id.0.clone(), json!({"status": format!("{:?}", w.status).to_lowercase(), "assigned": a}));
    }
    let mut groups = serde_json::Map::new();
    for (id, g) in &c.pipeline_groups {
        let pl: BTreeMap<String, J> = g
            .placements
            .iter()
            .map(|(p, d)| (p.clone(), json!({"worker": d.worker_id.0, "status": format!("{:?}", d.status).to_lowercase()})))
            .collect();
        groups.insert(id.clone(), json!({"name": g.name, "status": format!("{:?}", g.status).to_lowercase(), "placements": pl}));
    }
    let mut conns = serde_json::Map::new();
    for (n, k) in &c.connectors {
        let params: BTreeMap<String, String> = k.params.iter().map(|(a, b)| (a.clone(), b.clone())).collect();
        conns.insert(n.clone(), json!({"type": k.connector_type, "params": params}));
    }
    json!({"workers": workers, "groups": groups, "connectors": conns, "policy": c.scaling_policy.is_some()})
}

fn attach(c: &mut Coordinator, raft: &RaftT, shared: &SharedCoordinatorState) {
    c.raft_handle = Some(RaftHandle { raft: Arc::new(raft.clone()), store_state: shared.clone(), peer_addrs: Default::default(), admin_key: None });
    c.update_raft_role();
}

/// One iteration of the coordinator health loop (varpulis-cli/src/main.rs, "Spawn periodic health sweep with
/// automatic failover and rebalancing"), statement for statement, minus metrics / logging / scaling webhook.
/// translate/replication_points.py asserts the shape of the original on every run.
async fn health_tick(coordinator: &SharedCoordinator) {
    let mut coord = coordinator.write().await;
    coord.update_raft_role();
    coord.sync_from_raft();
    if !coord.ha_role.is_writer() {
        return;
    }
    failure_branch_locked(&mut coord).await;
    let _ = coord.check_connector_health();
    coord.cleanup_completed_migrations(Duration::from_secs(3600));
    if coord.pending_rebalance {
        let _ = coord.reconcile_placements().await;
        let _ = coord.rebalance().await;
    }
    let _ = coord.evaluate_scaling();
}

async fn failure_branch(coordinator: &SharedCoordinator) {
    let mut coord = coordinator.write().await;
    failure_branch_locked(&mut coord).await;
}

async fn failure_branch_locked(coord: &mut Coordinator) {
    let result = coord.health_sweep();
    if !result.workers_marked_unhealthy.is_empty() {
        let failed_workers: Vec<WorkerId> = result.workers_marked_unhealthy.clone();
        if let Some(ref handle) = coord.raft_handle {
            for wid in &failed_workers {
                let cmd = varpulis_cluster::raft::ClusterCommand::WorkerStatusChanged { id: wid.0.clone(), status: "unhealthy".to_string() };
                let _ = handle.raft.client_write(cmd).await;
            }
        }
        for wid in failed_workers {
            coord.handle_worker_failure(&wid).await;
        }
    }
}

pub async fn run(req: &J) -> J {
    // fake workers: every deploy succeeds with a fresh id, everything else is accepted
    let counter = Arc::new(AtomicU64::new(0));
    let c2 = counter.clone();
    let deploy = warp::post().and(warp::path!("api" / "v1" / "pipelines")).and(warp::body::json()).map(move |b: J| {
        let n = c2.fetch_add(1, Ordering::SeqCst);
        warp::reply::json(&json!({"id": format!("pid-{}", n), "name": b["name"], "status": "running"}))
    });
    let other = warp::any().map(|| warp::reply::json(&json!({})));
    let (addr, server) = warp::serve(deploy.or(other)).bind_ephemeral(([127, 0, 0, 1], 0));
    let server = tokio::spawn(server);
    let worker_addr = format!("http://{}", addr);

    let (raft, shared) = start_single().await;
    let coordinator = shared_coordinator();
    attach(&mut *coordinator.write().await, &raft, &shared);
    let mut follower = Coordinator::new();
    attach(&mut follower, &raft, &shared);
    let routes = cluster_routes(coordinator.clone(), Arc::new(RbacConfig::disabled()), None);

    let mut group_ids: BTreeMap<String, String> = BTreeMap::new();
    let mut hb: u64 = 0;
    let mut steps = Vec::new();
    for op in req["ops"].as_array().unwrap() {
        let name = op[0].as_str().unwrap();
        let s = |k: usize| op[k].as_str().unwrap().to_string();
        let base = "/api/v1/cluster";
        let mut http: J = J::Null;
        macro_rules! call {
            ($m:expr, $p:expr, $b:expr) => {{
                let r = warp::test::request().method($m).path(&format!("{}{}", base, $p)).json(&$b).reply(&routes).await;
                http = json!(r.status().as_u16());
                serde_json::from_slice::<J>(r.body()).unwrap_or(J::Null)
            }};
        }
        match name {
            "register" => {
                call!("POST", "/workers/register", json!({"worker_id": s(1), "address": worker_addr, "api_key": "k",
                      "capacity": {"cpu_cores": 4, "pipelines_running": 0, "max_pipelines": 100}}));
            }
            "heartbeat" => {
                hb += 10;
                let running = coordinator.read().await.workers.get(&WorkerId(s(1))).map(|w| w.assigned_pipelines.len()).unwrap_or(0);
                call!("POST", format!("/workers/{}/heartbeat", s(1)), json!({"events_processed": hb, "pipelines_running": running}));
            }
            "deregister" => {
                call!("DELETE", format!("/workers/{}", s(1)), json!({}));
            }
            "deploy" => {
                let ps: Vec<J> = op[2].as_array().unwrap().iter().map(|p| json!({"name": p, "source": VPL})).collect();
                let r = call!("POST", "/pipeline-groups", json!({"name": s(1), "pipelines": ps}));
                if let Some(id) = r["id"].as_str() {
                    group_ids.insert(s(1), id.to_string());
                }
            }
            "teardown" => {
                let gid = group_ids.get(&s(1)).cloned().unwrap_or(s(1));
                call!("DELETE", format!("/pipeline-groups/{}", gid), json!({}));
            }
            "migrate" => {
                let gid = group_ids.get(&s(1)).cloned().unwrap_or(s(1));
                call!("POST", format!("/pipelines/{}/{}/migrate", gid, s(2)), json!({"target_worker_id": s(3)}));
            }
            "rebalance" => {
                call!("POST", "/rebalance", json!({}));
            }
            "drain" => {
                call!("POST", format!("/workers/{}/drain", s(1)), json!({}));
            }
            "connector_create" => {
                call!("POST", "/connectors", json!({"name": s(1), "connector_type": "mqtt", "params": {"host": "h1"}}));
            }
            "connector_update" => {
                call!("PUT", format!("/connectors/{}", s(1)), json!({"name": s(1), "connector_type": "mqtt", "params": {"host": "h2", "port": "1883"}}));
            }
            "connector_delete" => {
                call!("DELETE", format!("/connectors/{}", s(1)), json!({}));
            }
            "set_policy" => {
                // what varpulis-cli does at start-up from its command line
                // (every coordinator of the cluster is started with the same configuration, the follower too)
                let pol = ScalingPolicy { min_workers: 1, max_workers: 5, scale_up_threshold: 5.0, scale_down_threshold: 1.0, cooldown_secs: 60, webhook_url: None };
                coordinator.write().await.scaling_policy = Some(pol.clone());
                follower.scaling_policy = Some(pol);
            }
            "failover" => {
                // the worker's heartbeats stopped; then the failure branch of the health loop runs (health_sweep + the
                // `workers_marked_unhealthy` branch). In the real loop sync_from_raft runs first and refreshes the
                // last_heartbeat of every worker the replicated state calls ready, so this branch is only reached
                // when that refresh does not happen; it is driven directly here.
                {
                    let mut c = coordinator.write().await;
                    let timeout = c.heartbeat_timeout;
                    if let Some(w) = c.workers.get_mut(&WorkerId(s(1))) {
                        w.last_heartbeat = Instant::now().checked_sub(timeout + Duration::from_secs(5)).unwrap_or_else(Instant::now);
                    }
                }
                failure_branch(&coordinator).await;
            }
            "tick" => health_tick(&coordinator).await,
            x => panic!("bad op {}", x),
        }
        let v = view(&*coordinator.read().await);
        coordinator.write().await.sync_from_raft();
        let after = view(&*coordinator.read().await);
        follower.sync_from_raft();
        let fv = view(&follower);
        let replicated = j_state(&shared.read().unwrap().clone());
        steps.push(json!({"op": op, "http": http, "view": v, "after_sync": after, "follower": fv, "replicated": replicated}));
    }
    server.abort();
    let _ = raft.shutdown().await;
    json!({ "steps": steps })
}
