"""C23 — hot reload keeps unchanged streams working and applies changed ones."""
import copy
import json
import os

from checks import dispatch_common as D
from vplib import harness

META = {
    "technique": "Coq proof (reload on every reachable engine: identity for the running program; router = fresh router, changed/new streams = freshly loaded streams, unchanged streams keep definition and state) + model/impl differential over scenarios with reloads + before/after differential oracles (no-reload twin run, fresh engine's routing table, isolated replay of every stream lifetime in a fresh engine)",
    "design_ref": "DESIGN.md §7 C23",
    "level_text": "Theorems C23_* in coq/theories/Dispatch/Props.v: for every engine reachable by any interleaving of process / process_batch / process_batch_sync calls and earlier reloads, reload with the running program returns the same engine (routing table, every stream's definition and state) and reports no change; reload with any other program leaves the routing table of a fresh load of it, removes undeclared streams, keeps definition and state of every stream whose declaration is unchanged and installs for every changed or new stream exactly the stream of a fresh load (initial state). Tied to the Rust by a differential run with reloads at random points on every check.",
    "level_note": "Dispatch-level model: a stream's declaration is an opaque id (equal ids <-> equal ASTs) and its pipeline an abstract state machine, so 'the state a preserved stream keeps is all of its state' and 'a replaced stream really starts from scratch' are checked by the oracles (twin run without reload; replay of each stream lifetime in a fresh engine), not proved. Streams whose declaration text is unchanged but which were compiled against another stream that changed (sequence step naming a derived stream, join source) keep their old compilation -- outside the property's letter and outside the generator. functions/variables/connectors parts of reload are not modelled.",
}
CONTRA = "C23_reload_same_program_is_identity / C23_reload_applies_changes (coq/theories/Dispatch/Props.v)"


# ------------------------------------------------------------------ edits
def edit_program(rng, p):
    """One random edit; returns (new program, kind)."""
    q = copy.deepcopy(p)
    kinds = ["thr", "thr", "thr", "addop", "delop", "win", "emit", "src", "rename", "add", "remove", "swap", "seq", "join"]
    # edits that live ONLY inside the source expression (op chain and primary types unchanged)
    inl = [s for s in q if s["kind"] == "merge" and any(isinstance(m, dict) for m in s["srcs"])]
    sq = [s for s in q if s["kind"] == "sseq"]
    if (inl or sq) and rng.chance(2, 3):
        if inl and (not sq or rng.chance(1, 2)):
            m = rng.choice([m for m in rng.choice(inl)["srcs"] if isinstance(m, dict)])
            m["thr"] += rng.choice([-4, -3, 3, 4])
            return q, "merge-inline-filter"
        st = rng.choice(rng.choice(sq)["ssteps"][1:])
        st[2] = rng.range(0, 3) if st[2] is None else (None if rng.chance(1, 4) else st[2] + rng.choice([-3, 3, 4]))
        return q, "sequence-source-filter"
    for _ in range(12):
        k = rng.choice(kinds)
        s = rng.choice(q)
        ops = s.get("ops")
        if k == "thr" and ops:
            ws = [o for o in ops if o[0] == "where"]
            if ws:
                o = rng.choice(ws)
                o[1] = o[1] + rng.choice([-3, -2, 2, 3, 5])
                return q, "threshold"
        elif k == "addop" and ops is not None and not any(o[0] == "process" for o in ops):
            ops.insert(0, ["where", rng.range(0, 5)])
            return q, "add-step"
        elif k == "delop" and ops and len(ops) > 1:
            i = rng.below(len(ops))
            if ops[i][0] in ("where", "distinct", "limit"):
                del ops[i]
                return q, "remove-step"
        elif k == "win" and ops:
            ws = [o for o in ops if o[0] in ("window", "limit")]
            if ws:
                o = rng.choice(ws)
                o[1] = o[1] + 1
                return q, "window-size"
        elif k == "emit" and ops is not None and s["kind"] in ("pipe", "merge") and not any(o[0] == "process" for o in ops):
            if ops and ops[-1][0] == "emit":
                ops.pop()
            else:
                ops.append(["emit"])
            return q, "emit-toggle"
        elif k == "src" and s["kind"] == "pipe":
            i = q.index(s)
            cands = [t for t in D.RAW + [x["name"] for x in q[:i]] if t != s["src"]]
            if not any(o[0] == "twindow" for o in s["ops"]) or True:
                s["src"] = rng.choice(cands)
                s["ops"] = [o for o in s["ops"] if o[0] != "twindow" or s["src"] in D.RAW]
                return q, "source"
        elif k == "rename":
            s["name"] = "T%d" % (q.index(s) + 1)
            return q, "rename"
        elif k == "add" and len(q) < 6:
            src = rng.choice(D.RAW + [x["name"] for x in q])
            q.append({"name": "N%d" % (len(q) + 1), "kind": "pipe", "src": src, "ops": D.gen_pipe_ops(rng, src in D.RAW)})
            return q, "add-stream"
        elif k == "remove" and len(q) > 1:
            q.remove(s)
            return q, "remove-stream"
        elif k == "swap" and len(q) > 1:
            i = rng.below(len(q) - 1)
            # keep the program acyclic w.r.t. compile-time references: only swap independent neighbours
            a, b = q[i], q[i + 1]
            refs_b = D.source_refs(b)
            if a["name"] not in refs_b:
                q[i], q[i + 1] = b, a
                return q, "reorder"
        elif k == "seq" and s["kind"] == "seq":
            s["corr"] = not s.get("corr")
            return q, "sequence-filter"
        elif k == "join" and s["kind"] == "join":
            s["win"] = s.get("win", 10) + 5
            return q, "join-window"
    return q, "identity"


def gen_scenario(rng):
    p0, shape = D.gen_program(rng, 4, acyclic=True)
    if rng.chance(1, 3):
        name = "S%d" % (len(p0) + 1)
        if rng.chance(1, 2):
            a, b = rng.choice([("A", "B"), ("B", "C"), ("A", "C")])
            p0.append({"name": name, "kind": "merge",
                       "srcs": [{"n": "m1", "t": a, "thr": rng.range(1, 5)}, b if rng.chance(1, 2) else {"n": "m2", "t": b, "thr": rng.range(0, 4)}],
                       "ops": ([["window", 2], ["agg"]] if rng.chance(1, 3) else []) + [["emit"]]})
        else:
            t1, t2 = rng.choice(D.RAW), rng.choice(D.RAW)
            steps = [["a", t1, None], ["b", t2, rng.range(0, 4) if rng.chance(3, 4) else None]]
            if rng.chance(1, 3):
                steps.append(["c", rng.choice(D.RAW), rng.range(0, 4)])
            p0.append({"name": name, "kind": "sseq", "ssteps": steps})
        shape += "+source-expr"
    evs = D.gen_events(rng, p0, rng.range(4, 10))
    n_reloads = 1 if rng.chance(3, 4) else 2
    points = sorted((rng.range(1, len(evs) - 1) if rng.chance(5, 6) else rng.below(len(evs) + 1)) for _ in range(n_reloads))
    versions = [p0]
    kinds = []
    cur = p0
    for _ in points:
        if rng.chance(2, 5):
            nxt, kind = copy.deepcopy(cur), "identity"
        else:
            nxt, kind = edit_program(rng, cur)
            if len(versions) == 2 and rng.chance(1, 4):
                nxt, kind = copy.deepcopy(versions[0]), "back-to-first"
        versions.append(nxt)
        kinds.append(kind)
        cur = nxt
    mode = rng.choice(["event", "event", "batch", "sync"])
    steps = []
    seg_start = 0
    for i, pt in enumerate(points + [len(evs)]):
        seg = evs[seg_start:pt]
        if mode == "event":
            steps += [{"k": "event", "e": e} for e in seg]
        else:
            for b in D.batches(seg, D.gen_split(rng, len(seg))):
                steps.append({"k": mode, "es": b})
        if i < len(points):
            steps.append({"k": "reload", "prog": versions[i + 1]})
        seg_start = pt
    return {"p0": p0, "steps": steps, "versions": versions, "kinds": kinds, "events": evs, "shape": shape, "mode": mode}


# -------------------------------------------------------------- reference facts
def reference_report(old, new):
    o = {s["name"]: D.decl_key(s) for s in old}
    n = {s["name"]: D.decl_key(s) for s in new}
    return {"added": sorted(x for x in n if x not in o), "removed": sorted(x for x in o if x not in n),
            "updated": sorted(x for x in n if x in o and o[x] != n[x]),
            "preserved": sorted(x for x in n if x in o and o[x] == n[x])}


def interferes(p, name):
    """True when replaying the events delivered to `name` as external inputs would reach it a second time
    through another stream (it consumes a type and also something downstream of another consumer of that type)."""
    cons = dict(D.consumes(p))
    edges = {x: [y for y in cons if x in cons[y]] for x in cons}

    def reach(x, seen=None):
        seen = seen or set()
        for y in edges.get(x, []):
            if y not in seen:
                seen.add(y)
                reach(y, seen)
        return seen
    for t in cons[name]:
        for x in cons:
            if x != name and t in cons[x] and name in reach(x):
                return True
    return name in reach(name)


def lifetimes(sc, ans):
    """Per stream incarnation: (name, version index at which it was created, program of that version,
    deliveries it received until replaced/removed/end, last version index it lived in)."""
    cur = {s["name"]: (0, D.decl_key(s)) for s in sc["p0"]}
    live = {n: [] for n in cur}
    done = []
    v = 0
    for st, a in zip(sc["steps"], ans["steps"]):
        if st["k"] == "reload":
            new = st["prog"]
            newkeys = {s["name"]: D.decl_key(s) for s in new}
            for n in list(cur):
                if n not in newkeys or newkeys[n] != cur[n][1]:
                    done.append((n, cur[n][0], sc["versions"][cur[n][0]], live.pop(n), v))
                    del cur[n]
            v += 1
            for n, k in newkeys.items():
                if n not in cur:
                    cur[n] = (v, k)
                    live[n] = []
        else:
            for d in a["trace"]:
                if d["stream"] in live:
                    live[d["stream"]].append(d)
    for n in cur:
        done.append((n, cur[n][0], sc["versions"][cur[n][0]], live[n], v))
    return done


def dependency_recompiled(sc, name, v0, v1):
    """A sequence step / join source naming another stream is resolved when the stream is compiled (the step
    stands for that stream's source and first filter; a join listens to the stream's name or to its source).
    If such a referenced stream is changed, added or removed by a reload during this incarnation's life, the
    incarnation keeps its old compilation while the routing follows the new program. Its declaration did not
    change, so the property says nothing about it; it cannot be compared with a fresh engine."""
    spec = next(s for s in sc["versions"][v0] if s["name"] == name)
    refs = (list(spec.get("steps", [])) + [spec.get("l"), spec.get("r")] + [t for _, t, _ in spec.get("ssteps", [])]) if spec["kind"] in ("seq", "join", "sseq") else []
    refs = [r for r in refs if r is not None]
    for v in range(v0 + 1, v1 + 1):
        old = {x["name"]: D.decl_key(x) for x in sc["versions"][v - 1]}
        new = {x["name"]: D.decl_key(x) for x in sc["versions"][v]}
        if any(old.get(r) != new.get(r) for r in refs):
            return True
    return False


def scenario_request(sc, with_reloads=True):
    steps = [s for s in sc["steps"] if with_reloads or s["k"] != "reload"]
    return {"vpl": D.vpl_program(sc["p0"]), "steps": D.req_steps(steps)}


def describe(sc):
    out = []
    for s in sc["steps"]:
        if s["k"] == "reload":
            out.append("RELOAD\n" + D.vpl_program(s["prog"]))
        elif s["k"] == "event":
            out.append(D.short_event(s["e"]))
        else:
            out.append(s["k"] + str([D.short_event(e) for e in s["es"]]))
    return {"vpl": D.vpl_program(sc["p0"]), "steps": out, "edits": sc["kinds"]}


def judge(sc, ans, twin, fresh_routes, replays):
    """Oracles, each a before/after differential on the implementation.
    ans: the scenario run; twin: the same steps without the reloads (or None);
    fresh_routes: per reload, the routing table of a fresh engine loaded with that program;
    replays: {lifetime index: answer of the fresh-engine replay}."""
    if "panic" in ans:
        return ["implementation panicked: " + ans["panic"]], []
    if D.rejected(ans) or any(a.get("error") for s, a in zip(sc["steps"], ans.get("steps", [])) if s["k"] == "reload"):
        return [], []      # a generated program that does not parse / load is a generator problem (counted by the caller)
    if not D.answer_ok(ans):
        return ["error: " + json.dumps([s.get("error") for s in ans.get("steps", [])] or ans)[:300]], []
    it = D.Interner(e["ts_ns"] for e in sc["events"])
    fails = []
    classes = []
    # (1) same program: nothing observable changes
    if twin is not None and D.answer_ok(twin):
        a_steps = [a for s, a in zip(sc["steps"], ans["steps"]) if s["k"] != "reload"]
        for i, (x, y) in enumerate(zip(a_steps, twin["steps"])):
            if D.canon_out(it, x["out"]) != D.canon_out(it, y["out"]):
                fails.append("reload of the SAME program changed the outputs of step %d: %s with reload, %s without" % (
                    i, [D.short_event(e) for e in x["out"]], [D.short_event(e) for e in y["out"]]))
                break
    # (2) routing table after each reload (the report itself is not judged here: a reload that resets more than
    #     it must is only a violation when behaviour changes, which (1) and (3) observe; the report is compared
    #     with the model's in the correspondence)
    ri = 0
    prev = sc["p0"]
    for s, a in zip(sc["steps"], ans["steps"]):
        if s["k"] != "reload":
            continue
        got = {t: ss for t, ss in a["routes"]}
        exp = {t: ss for t, ss in fresh_routes[ri]}
        if got != exp:
            fails.append("routing table after reload %d is %s, a fresh engine loaded with the same program has %s" % (ri, got, exp))
        prev = s["prog"]
        ri += 1
    # (3) every stream incarnation behaves like the same declaration in a fresh engine fed the same events
    lts = lifetimes(sc, ans)
    for i, (name, v, prog, ds, v_end) in enumerate(lts):
        if i not in replays:
            continue
        rp = replays[i]
        if not D.answer_ok(rp):
            continue
        mine = [d for d in D.all_trace(rp) if d["stream"] == name and d["depth"] == 0]
        if len(mine) != len(ds):
            fails.append("replay of %s (version %d): %d deliveries replayed, %d observed" % (name, v, len(ds), len(mine)))
            continue
        for j, (x, y) in enumerate(zip(ds, mine)):
            if D.canon_out(it, x["emitted"]) != D.canon_out(it, y["emitted"]) or \
               [it.canon_body(o) for o in x["outputs"]] != [it.canon_body(o) for o in y["outputs"]]:
                what = "declared at load" if v == 0 else "changed/added by reload %d" % (v - 1)
                fails.append("stream %s (%s) does not behave like a freshly loaded stream of its program: delivery %d (%s) emitted %s / passed on %s, fresh engine %s / %s" % (
                    name, what, j, D.short_event(x["event"]), [D.short_event(e) for e in x["emitted"]], [D.short_event(e) for e in x["outputs"]],
                    [D.short_event(e) for e in y["emitted"]], [D.short_event(e) for e in y["outputs"]]))
                break
    return fails[:6], classes


def run_scenarios(binpath, scs):
    """Round 1: scenario, twin, fresh routing tables. Round 2: lifetime replays."""
    reqs = []
    idx = []
    for sc in scs:
        base = len(reqs)
        reqs.append(scenario_request(sc))
        twin = all(k == "identity" for k in sc["kinds"])
        if twin:
            reqs.append(scenario_request(sc, with_reloads=False))
        fr = []
        for s in sc["steps"]:
            if s["k"] == "reload":
                fr.append(len(reqs))
                reqs.append({"vpl": D.vpl_program(s["prog"]), "steps": []})
        idx.append((base, base + 1 if twin else None, fr))
    ans = harness.run_jsonl(binpath, reqs)
    out = []
    reqs2 = []
    for sc, (b, t, fr) in zip(scs, idx):
        a = ans[b]
        rec = {"ans": a, "twin": ans[t] if t is not None else None,
               "fresh": [ans[i].get("routes", []) for i in fr], "replay_idx": {}}
        if D.answer_ok(a):
            for i, (name, v, prog, ds, v_end) in enumerate(lifetimes(sc, a)):
                if ds and not interferes(prog, name) and not dependency_recompiled(sc, name, v, v_end):
                    rec["replay_idx"][i] = len(reqs2)
                    reqs2.append({"vpl": D.vpl_program(prog), "steps": [{"k": "event", "e": d["event"]} for d in ds]})
        out.append(rec)
    ans2 = harness.run_jsonl(binpath, reqs2) if reqs2 else []
    for rec in out:
        rec["replays"] = {i: ans2[j] for i, j in rec["replay_idx"].items()}
    return out


def model_expr(sc, rec):
    """Replay-oracle table: per stream incarnation from its fresh-engine replay when there is one,
    otherwise from the run itself. Returns (impl string, coq expr)."""
    it = D.Interner(e["ts_ns"] for e in sc["events"])
    tbl = D.Table(it)
    for p in sc["versions"]:
        for s in p:
            it.ty(s["name"])
            tbl.decl(s["name"], D.decl_key(s))
    a = rec["ans"]
    for i, (name, v, prog, ds, v_end) in enumerate(lifetimes(sc, a)):
        key = next(D.decl_key(s) for s in prog if s["name"] == name)
        d = tbl.decl(name, key)
        rp = rec["replays"].get(i)
        if rp is not None and D.answer_ok(rp):
            mine = [x for x in D.all_trace(rp) if x["stream"] == name and x["depth"] == 0]
            tbl.feed(d, mine)
        else:
            tbl.feed(d, ds)
    impl = D.r_answer(it, a)
    return impl, D.g_scenario(it, tbl, sc["p0"], sc["steps"]), tbl


CORPUS = [
    # edits ONLY inside the source expression (op chain and primary event types unchanged): the stream must be replaced
    {"p0": [{"name": "S1", "kind": "merge", "srcs": [{"n": "hi", "t": "A", "thr": 1}, {"n": "lo", "t": "B", "thr": 0}], "ops": [["emit"]]}],
     "evs": [("A", 3, 0), ("A", 3, 0), ("B", 2, 0), ("A", 9, 0)], "reload_at": 1, "kind": "merge-inline-filter",
     "edit": [{"name": "S1", "kind": "merge", "srcs": [{"n": "hi", "t": "A", "thr": 5}, {"n": "lo", "t": "B", "thr": 0}], "ops": [["emit"]]}]},
    {"p0": [{"name": "S1", "kind": "sseq", "ssteps": [["a", "A", None], ["b", "B", 1]]}],
     "evs": [("A", 1, 0), ("B", 3, 0), ("A", 2, 0), ("B", 3, 0), ("A", 4, 0), ("B", 9, 0)], "reload_at": 2, "kind": "sequence-source-filter",
     "edit": [{"name": "S1", "kind": "sseq", "ssteps": [["a", "A", None], ["b", "B", 5]]}]},
    # sequence + join: the routing table was rebuilt from the primary source only
    {"p0": [{"name": "S1", "kind": "seq", "steps": ["A", "B"], "corr": False, "emit": True},
            {"name": "S2", "kind": "join", "l": "A", "r": "B", "emit": True}],
     "evs": [("A", 1, 0), ("B", 2, 0), ("A", 3, 0), ("B", 4, 0)], "reload_at": 2, "edit": None},
    # threshold edit with the same operation count kept the old filter
    {"p0": [{"name": "S1", "kind": "pipe", "src": "A", "ops": [["where", 1], ["emit"]]}],
     "evs": [("A", 3, 0), ("A", 3, 0), ("A", 9, 0)], "reload_at": 1,
     "edit": [{"name": "S1", "kind": "pipe", "src": "A", "ops": [["where", 5], ["emit"]]}]},
    # unchanged stateful stream next to a changed one keeps its window
    {"p0": [{"name": "S1", "kind": "pipe", "src": "A", "ops": [["window", 2], ["agg"], ["emit"]]},
            {"name": "S2", "kind": "pipe", "src": "A", "ops": [["where", 1], ["emit"]]}],
     "evs": [("A", 3, 0), ("A", 4, 0), ("A", 5, 0), ("A", 6, 0)], "reload_at": 1,
     "edit": [{"name": "S1", "kind": "pipe", "src": "A", "ops": [["window", 2], ["agg"], ["emit"]]},
              {"name": "S2", "kind": "pipe", "src": "A", "ops": [["where", 4], ["emit"]]}]},
]


def corpus_scenarios():
    out = []
    for c in CORPUS:
        evs = D.mk_events(c["evs"])
        p1 = c["edit"] if c["edit"] is not None else copy.deepcopy(c["p0"])
        steps = [{"k": "event", "e": e} for e in evs[:c["reload_at"]]] + [{"k": "reload", "prog": p1}] + \
                [{"k": "event", "e": e} for e in evs[c["reload_at"]:]]
        out.append({"p0": c["p0"], "steps": steps, "versions": [c["p0"], p1], "kinds": ["identity" if c["edit"] is None else c.get("kind", "threshold")],
                    "events": evs, "shape": "corpus", "mode": "event"})
    return out


def shrink(sc, still_fails):
    """Drop non-reload steps greedily."""
    changed = True
    budget = 40
    while changed and budget > 0:
        changed = False
        for i in range(len(sc["steps"]) - 1, -1, -1):
            if sc["steps"][i]["k"] == "reload":
                continue
            budget -= 1
            cand = dict(sc)
            cand["steps"] = sc["steps"][:i] + sc["steps"][i + 1:]
            if still_fails(cand):
                sc = cand
                changed = True
                break
            if budget <= 0:
                break
    return sc


def check(run):
    run.rule = ("acyclic programs of 1..4 streams (pipelines, sequences, joins, merges, derived sources) x 3..9 events fed through process / "
                "process_batch / process_batch_sync x 1..2 reloads at random points with the same program or an edited one (threshold, added/removed "
                "step, window size, emit toggle, source, rename, added/removed/reordered stream, sequence filter, join window, back to the first "
                "version); non-trivial = some output after a reload and >= 1 delivery before it; distinct = distinct scenario")
    binpath = D.build_all(run, "C23.v")
    if binpath is None:
        return
    rng = run.rng
    scs = corpus_scenarios()
    n = 110 if run.tier == "quick" else 2500
    for _ in range(n):
        scs.append(gen_scenario(rng))
    recs = run_scenarios(binpath, scs)
    exprs = []
    impls = []
    n_oracle = 0
    for sc, rec in zip(scs, recs):
        run.count("shape=" + sc["shape"])
        run.count("mode=" + sc["mode"])
        run.count("reloads=%d" % len(sc["kinds"]))
        for k in sc["kinds"]:
            run.count("edit=" + k)
        for s in sc["p0"]:
            run.count("kind=" + s["kind"])
        fails, classes = judge(sc, rec["ans"], rec["twin"], rec["fresh"], rec["replays"])
        if D.rejected(rec["ans"]) or any(a.get("error") for s, a in zip(sc["steps"], rec["ans"].get("steps", [])) if s["k"] == "reload"):
            run.count("program-rejected")
            if run.hist["program-rejected"] <= 2:
                run.tie_broken("generated program rejected by parse/load/reload", json.dumps(describe(sc))[:600] + json.dumps(rec["ans"])[:300])
        run.count("replayed-lifetimes", len(rec["replays"]))
        if fails:
            n_oracle += 1
            run.count("oracle_fail")
            if n_oracle <= 3:
                def still(c):
                    r = run_scenarios(binpath, [c])[0]
                    return bool(judge(c, r["ans"], r["twin"], r["fresh"], r["replays"])[0])
                small = shrink(sc, still)
                r = run_scenarios(binpath, [small])[0]
                sf = judge(small, r["ans"], r["twin"], r["fresh"], r["replays"])[0] or fails
                run.violation("; ".join(sf)[:700], {"scenario": small, "readable": describe(small), "fails": sf, "contradicts": CONTRA}, classes=classes)
        a = rec["ans"]
        if D.answer_ok(a) and len(D.all_trace(a)) <= D.MAX_TRACE:
            impl, ex, tbl = model_expr(sc, rec)
            impls.append((sc, impl))
            exprs.append(ex)
            seen_reload = False
            before = 0
            after_out = 0
            for s, st in zip(sc["steps"], a["steps"]):
                if s["k"] == "reload":
                    seen_reload = True
                elif seen_reload:
                    after_out += len(st["out"])
                else:
                    before += len(st["trace"])
            nontrivial = json.dumps(describe(sc), sort_keys=True) if (after_out and before) else None
            run.case(nontrivial, sample=describe(sc) if len(run.samples) < 3 and nontrivial else None)
        else:
            run.case(None)
    run.extra["oracle_failures"] = n_oracle
    model = D.eval_model(run, "C23", exprs)
    nd = 0
    for (sc, impl), mo in zip(impls, model):
        if mo is not None and mo != impl:
            nd += 1
            if nd <= 3:
                run.tie_broken("correspondence Dispatch/Model.v (reload) vs Engine::reload on %s" % json.dumps(describe(sc))[:1500], D.first_diff(impl, mo))
    run.extra["disagreements"] = nd


def replay(run, path):
    r = json.load(open(path))["replay"]
    ok, bindir, lg = harness.build("vp-dispatch")
    binpath = os.path.join(bindir, "vp-dispatch")
    sc = r["scenario"]
    rec = run_scenarios(binpath, [sc])[0]
    fails, classes = judge(sc, rec["ans"], rec["twin"], rec["fresh"], rec["replays"])
    run.case(("replay",), describe(sc))
    run.case(("replay2",))
    if fails:
        run.violation("; ".join(fails)[:700], {"scenario": sc, "readable": describe(sc), "fails": fails}, classes=classes)
