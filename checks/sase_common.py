"""Shared machinery for C01-C05 (crates/varpulis-runtime/src/sase.rs).

Programs: 2-4 step sequences (optional `all` steps, Compare / CompareRef / And / Or / Not
filters, optional partition_by, optional .not clauses), streams over a small alphabet.
Three judges per case: the real SaseEngine (harness vp-sase), the Coq model (Sase/Run.v,
vm_compute) and the Python reference semantics of the property texts.
"""
import json
import os
import struct

from vplib import coqtools, harness

IMPORTS = ("From Coq Require Import String.\nFrom VP Require Import Base.Tactics Base.Render Zdd.Model Sase.Model Sase.Run.\n"
           "Open Scope string_scope.\nOpen Scope N_scope.\n")
TYPES = ["A", "B", "C", "D"]
FIELDS = {"id": 0, "x": 1, "y": 2, "s": 3, "k": 4}
ALIASES = ["a", "b", "c", "d"]
OPS = ["eq", "ne", "lt", "le", "gt", "ge"]
GOPS = {"eq": "OEq", "ne": "ONe", "lt": "OLt", "le": "OLe", "gt": "OGt", "ge": "OGe"}
STRS = ["s0", "s1", "s2", "s3"]


# ------------------------------------------------------------------ values
# python-side value: ("i", int) | ("h", halves:int) | ("s", idx) | ("b", bool)
def v_json(v):
    t, x = v
    if t == "i":
        return {"i": str(x)}
    if t == "h":
        return {"f": str(struct.unpack("<Q", struct.pack("<d", x / 2.0))[0])}
    if t == "s":
        return {"s": STRS[x]}
    return {"b": bool(x)}


def v_coq(v):
    t, x = v
    if t == "i":
        return "(VInt (%d)%%Z)" % x
    if t == "h":
        return "(VHalf (%d)%%Z)" % x
    if t == "s":
        return "(VStr %d)" % x
    return "(VBool %s)" % ("true" if x else "false")


def num2(v):
    if v[0] == "i":
        return 2 * v[1]
    if v[0] == "h":
        return v[1]
    return None


def values_equal(l, r):
    a, b = num2(l), num2(r)
    if a is not None and b is not None:
        return a == b
    if l[0] == r[0] and l[0] in ("s", "b"):
        return l[1] == r[1]
    return False


def values_compare(l, r):
    a, b = num2(l), num2(r)
    if a is not None and b is not None:
        return (a > b) - (a < b)
    if l[0] == "s" and r[0] == "s":
        return (l[1] > r[1]) - (l[1] < r[1])
    return None


def compare_values(l, r, op):
    if op == "eq":
        return values_equal(l, r)
    if op == "ne":
        return not values_equal(l, r)
    c = values_compare(l, r)
    if c is None:
        return False
    return {"lt": c < 0, "le": c <= 0, "gt": c > 0, "ge": c >= 0}[op]


# -------------------------------------------------------------- predicates
# ("cmp", field, op, value) | ("ref", field, op, alias, rfield) | ("and", p, q) | ("or", p, q) | ("not", p)
def p_json(p):
    if p is None:
        return None
    k = p[0]
    if k == "cmp":
        return {"cmp": [p[1], p[2], v_json(p[3])]}
    if k == "ref":
        return {"ref": [p[1], p[2], p[3], p[4]]}
    if k in ("and", "or"):
        return {k: [p_json(p[1]), p_json(p[2])]}
    return {"not": p_json(p[1])}


def p_coq(p):
    k = p[0]
    if k == "cmp":
        return "(PCmp %d %s %s)" % (FIELDS[p[1]], GOPS[p[2]], v_coq(p[3]))
    if k == "ref":
        return "(PRef %d %s %d %d)" % (FIELDS[p[1]], GOPS[p[2]], ALIASES.index(p[3]), FIELDS[p[4]])
    if k == "and":
        return "(PAnd %s %s)" % (p_coq(p[1]), p_coq(p[2]))
    if k == "or":
        return "(POr %s %s)" % (p_coq(p[1]), p_coq(p[2]))
    return "(PNot %s)" % p_coq(p[1])


def op_coq(p):
    return "None" if p is None else "(Some %s)" % p_coq(p)


def p_vpl(p):
    k = p[0]
    if k == "cmp":
        t, x = p[3]
        lit = str(x) if t == "i" else (repr(x / 2.0) if t == "h" else ('"%s"' % STRS[x] if t == "s" else ("true" if x else "false")))
        return "%s %s %s" % (p[1], {"eq": "==", "ne": "!=", "lt": "<", "le": "<=", "gt": ">", "ge": ">="}[p[2]], lit)
    if k == "ref":
        return "%s %s %s.%s" % (p[1], {"eq": "==", "ne": "!=", "lt": "<", "le": "<=", "gt": ">", "ge": ">="}[p[2]], p[3], p[4])
    if k == "and":
        return "(%s and %s)" % (p_vpl(p[1]), p_vpl(p[2]))
    if k == "or":
        return "(%s or %s)" % (p_vpl(p[1]), p_vpl(p[2]))
    return "not (%s)" % p_vpl(p[1])


def eval_pred(p, ev, cap):
    """ev: event dict {"id","ty","f":{name:value}}; cap: dict alias -> event"""
    k = p[0]
    if k == "cmp":
        v = ev["f"].get(p[1])
        return v is not None and compare_values(v, p[3], p[2])
    if k == "ref":
        v = ev["f"].get(p[1])
        r = cap.get(p[3])
        rv = r["f"].get(p[4]) if r is not None else None
        return v is not None and rv is not None and compare_values(v, rv, p[2])
    if k == "and":
        return eval_pred(p[1], ev, cap) and eval_pred(p[2], ev, cap)
    if k == "or":
        return eval_pred(p[1], ev, cap) or eval_pred(p[2], ev, cap)
    return not eval_pred(p[1], ev, cap)


def refs_alias(p, alias):
    if p is None:
        return False
    k = p[0]
    if k == "cmp":
        return False
    if k == "ref":
        return p[3] == alias
    if k in ("and", "or"):
        return refs_alias(p[1], alias) or refs_alias(p[2], alias)
    return refs_alias(p[1], alias)


# ------------------------------------------------------------------ events
def ev_json(e):
    fs = [["id", {"i": str(e["id"])}]] + [[k, v_json(v)] for k, v in e["f"].items()]
    return {"type": e["ty"], "ts_ns": 1000 * e["id"], "fields": fs}


def ev_coq(e):
    fs = ["(0, VInt (%d)%%Z)" % e["id"]] + ["(%d, %s)" % (FIELDS[k], v_coq(v)) for k, v in e["f"].items()]
    return "(mkEv %d %d [%s])" % (e["id"], TYPES.index(e["ty"]), "; ".join(fs))


# ---------------------------------------------------------------- programs
def prog_request(prog, events):
    return {"mode": "sase",
            "steps": [{"ty": s["ty"], "alias": s["alias"], "all": s["all"], "pred": p_json(s["pred"]), "not": bool(s.get("not"))} for s in prog["steps"]],
            "negs": [{"ty": n["ty"], "pred": p_json(n["pred"])} for n in prog["negs"]],
            "partition": prog["partition"], "max_runs": prog["max_runs"],
            "strategy": prog["strategy"] if not isinstance(prog["strategy"], tuple) else {"sample": list(prog["strategy"][1:])},
            "max_kleene": prog["max_kleene"], "max_results": prog["max_results"],
            "events": [ev_json(e) for e in events]}


def prog_coq(prog, events):
    steps = "; ".join("mkStep %d %s %s %s" % (TYPES.index(s["ty"]), op_coq(s["pred"]),
                                               "None" if s["alias"] is None else "(Some %d)" % ALIASES.index(s["alias"]),
                                               "true" if s["all"] else "false") for s in prog["steps"])
    negs = "; ".join("(%d, %s)" % (TYPES.index(n["ty"]), op_coq(n["pred"])) for n in prog["negs"])
    part = "None" if prog["partition"] is None else "(Some %d)" % FIELDS[prog["partition"]]
    st = prog["strategy"]
    if isinstance(st, tuple):
        stc = "(SSample %d %d)" % (st[1], st[2])
    else:
        stc = {"drop": "SDrop", "error": "SError", "oldest": "SEvictOldest", "least": "SEvictLeast"}[st]
    return "sase_case [%s] [%s] %s (N.to_nat %d) %s %d (N.to_nat %d) [%s]" % (
        steps, negs, part, prog["max_runs"], stc, prog["max_kleene"], prog["max_results"], "; ".join(ev_coq(e) for e in events))


def prog_vpl(prog):
    """VPL text of the same program (steps with aliases; filters as .where on the step)."""
    parts = []
    for i, s in enumerate(prog["steps"]):
        t = ("all " if s["all"] else "NOT " if s.get("not") else "") + s["ty"] + (" as " + s["alias"] if s["alias"] else "")
        if s["pred"] is not None:
            t += " .where(%s)" % p_vpl(s["pred"])
        parts.append(t)
    src = "stream S = " + " -> ".join(parts) + "\n"
    if prog["partition"]:
        src += "    .partition_by(%s)\n" % prog["partition"]
    for n in prog["negs"]:
        src += "    .not(%s%s)\n" % (n["ty"], " where " + p_vpl(n["pred"]) if n["pred"] is not None else "")
    emits = ", ".join("%s_id: %s.id" % (s["alias"], s["alias"]) for s in prog["steps"] if s["alias"])
    src += "    .emit(%s)\n" % emits
    return src


def default_prog(steps, negs=(), partition=None, max_runs=10000, strategy="drop", max_kleene=20, max_results=10000):
    return {"steps": list(steps), "negs": list(negs), "partition": partition, "max_runs": max_runs,
            "strategy": strategy, "max_kleene": max_kleene, "max_results": max_results}


# -------------------------------------------------------------- generation
def gen_value(rng, field):
    if field == "s":
        return ("s", rng.below(3))
    if field == "y" and rng.chance(1, 4):
        return ("h", rng.range(0, 8))       # halves: 0.0 .. 4.0
    return ("i", rng.range(0, 4))


def gen_pred(rng, earlier_aliases, own_alias, depth, allow_self):
    k = rng.below(10)
    if depth > 0 and k < 3:
        c = rng.choice(["and", "or", "not"])
        if c == "not":
            return ("not", gen_pred(rng, earlier_aliases, own_alias, depth - 1, allow_self))
        return (c, gen_pred(rng, earlier_aliases, own_alias, depth - 1, allow_self), gen_pred(rng, earlier_aliases, own_alias, depth - 1, allow_self))
    targets = list(earlier_aliases) + ([own_alias] if allow_self and own_alias else [])
    if targets and k < 7:
        f = rng.choice(["x", "y", "s"])
        return ("ref", f, rng.choice(OPS), rng.choice(targets), f if rng.chance(3, 4) else rng.choice(["x", "y"]))
    f = rng.choice(["x", "x", "y", "s"])
    return ("cmp", f, rng.choice(OPS), gen_value(rng, f))


def gen_prog(rng, allow_all=True, allow_self=False, ntypes=3, min_steps=2, max_steps=4):
    n = rng.range(min_steps, max_steps)
    steps = []
    for i in range(n):
        alias = ALIASES[i] if rng.chance(5, 6) else None
        is_all = allow_all and rng.chance(1, 4)
        pred = None
        if rng.chance(3, 5):
            earlier = [s["alias"] for s in steps if s["alias"]]
            pred = gen_pred(rng, earlier, alias, 1, allow_self and is_all)
        steps.append({"ty": TYPES[rng.below(ntypes)], "alias": alias, "all": is_all, "pred": pred})
    negs = []
    if rng.chance(1, 3):
        al = [s["alias"] for s in steps if s["alias"]]
        p = gen_pred(rng, al[:rng.below(len(al) + 1)], None, 0, False) if rng.chance(1, 2) else None
        negs.append({"ty": TYPES[rng.below(ntypes + 1)], "pred": p})
    part = "k" if rng.chance(1, 3) else None
    return default_prog(steps, negs, part)


def gen_events(rng, n, ntypes=3, keys=None, with_neg_type=True, prog=None):
    evs = []
    pos = 0
    for i in range(n):
        if prog is not None and rng.chance(3, 5):
            # follow the pattern's step types (repeat `all` steps) so that completions are frequent
            st = prog["steps"][pos % len(prog["steps"])]
            ty = st["ty"]
            if not (st["all"] and rng.chance(1, 2)):
                pos += 1
        elif prog is not None and prog["negs"] and rng.chance(1, 4):
            ty = prog["negs"][0]["ty"]
        else:
            ty = TYPES[rng.below(ntypes + (1 if with_neg_type and rng.chance(1, 3) else 0))]
        f = {}
        for name in ("x", "y", "s"):
            if rng.chance(9, 10):
                f[name] = gen_value(rng, name)
        if keys is not None and rng.chance(9, 10):
            f["k"] = rng.choice(keys)
        evs.append({"id": i, "ty": ty, "f": f})
    return evs


# ---------------------------------------------------------------- running
def impl_str(ans):
    """canonical string of an implementation answer, same format as Sase/Run.v"""
    if "panic" in ans:
        return "PANIC"
    if ans.get("slow"):
        return "SLOW"
    out = []
    for e in ans["events"]:
        ms = []
        for m in e["matches"]:
            cap = ",".join("%d:%d" % (ALIASES.index(a), i) for a, i in m["cap"])
            combo = "-" if m["combo"] is None else "c" + ".".join(str(x) for x in m["combo"])
            ms.append("M%s|%s|%s" % (".".join(str(x) for x in m["stack"]), cap, combo))
        out.append(";".join(ms) + "#%d,%d,%d,%d,%d" % (e["active"], e["created"], e["dropped"], e["evicted"], e["completed"]))
    return "/".join(out) + "@%d" % ans["nfa_states"]


def canon_model(s):
    """model prints captured newest-first with shadowed bindings; canonicalise to the map the code exposes"""
    if s in ("PANIC",):
        return s
    body, states = s.rsplit("@", 1)
    out = []
    for ev in body.split("/"):
        mpart, stats = ev.rsplit("#", 1)
        ms = []
        for m in (mpart.split(";") if mpart else []):
            stack, cap, combo = m.split("|")
            seen = {}
            for kv in (cap.split(",") if cap else []):
                a, i = kv.split(":")
                if a not in seen:
                    seen[a] = i
            cap2 = ",".join("%s:%s" % (a, seen[a]) for a in sorted(seen, key=int))
            ms.append("%s|%s|%s" % (stack, cap2, combo))
        out.append(";".join(ms) + "#" + stats)
    return "/".join(out) + "@" + states


def parse_matches(ans):
    """per event: list of {"stack":[ids], "cap":{alias:id}, "combo":list|None}"""
    return [[{"stack": m["stack"], "cap": dict(m["cap"]), "combo": m["combo"]} for m in e["matches"]] for e in ans["events"]]


def build(run, audit_file, allow=()):
    coqtools.prove(run, ["theories/Sase/Props.vo", "theories/Sase/Run.vo"], audit_file, allow)
    okb, bindir, blog = harness.build("vp-sase")
    if not okb:
        run.tie_broken("harness build vp-sase", blog[-3000:])
        return None
    return os.path.join(bindir, "vp-sase")


def run_cases(run, binpath, cases, tag):
    """cases: list of (prog, events). Returns list of (prog, events, answer, impl_string, model_string_or_None)."""
    answers = harness.run_jsonl(binpath, [prog_request(p, e) for p, e in cases], timeout=3000)
    impl = [impl_str(a) for a in answers]
    try:
        model = coqtools.coq_eval(tag, IMPORTS, [prog_coq(p, e) for p, e in cases], shard=max(10, min(120, len(cases) // 16 + 1)), timeout=1800)
        model = [canon_model(m) for m in model]
    except RuntimeError as ex:
        run.tie_broken("model evaluation (coqc cases)", str(ex))
        model = [None] * len(cases)
    return [(p, e, a, si, sm) for (p, e), a, si, sm in zip(cases, answers, impl, model)]


def describe(prog, events):
    return {"program": {"steps": prog["steps"], "negs": prog["negs"], "partition": prog["partition"], "max_runs": prog["max_runs"],
                        "strategy": prog["strategy"], "max_kleene": prog["max_kleene"], "max_results": prog["max_results"]},
            "vpl": prog_vpl(prog),
            "events": [{"id": e["id"], "type": e["ty"], "fields": {k: list(v) for k, v in e["f"].items()}} for e in events]}


# -------------------------------------------------------- reference (oracle)
def step_ok(step, ev, cap):
    return ev["ty"] == step["ty"] and (step["pred"] is None or eval_pred(step["pred"], ev, cap))


def key_of(prog, ev):
    if prog["partition"] is None:
        return None
    v = ev["f"].get(prog["partition"])
    return ("missing",) if v is None else v


def neg_hit(prog, ev, cap):
    return any(ev["ty"] == n["ty"] and (n["pred"] is None or eval_pred(n["pred"], ev, cap)) for n in prog["negs"])


def ref_matches_no_all(prog, events):
    """C02 reference: per start event, earliest continuation at each step in the same partition; aborted by a
    .not event arriving before the completion. Returns {completion index: [stack ids]} lists per event index."""
    out = [[] for _ in events]
    steps = prog["steps"]
    for i, e0 in enumerate(events):
        if not step_ok(steps[0], e0, {}):
            continue
        cap = {}
        if steps[0]["alias"]:
            cap[steps[0]["alias"]] = e0
        stack = [i]
        k = 1
        key = key_of(prog, e0)
        j = i + 1
        dead = False
        while k < len(steps) and j < len(events):
            ev = events[j]
            advances = key_of(prog, ev) == key and step_ok(steps[k], ev, cap)
            # property text: no .not event *before* the completion -- the completing event itself does not count
            if neg_hit(prog, ev, cap) and not (advances and k == len(steps) - 1):
                dead = True
                break
            if advances:
                stack.append(j)
                if steps[k]["alias"]:
                    cap[steps[k]["alias"]] = ev
                k += 1
            j += 1
        if not dead and k == len(steps):
            capb = {a: ev for a, ev in cap.items() if ev["id"] != stack[-1]}
            out[stack[-1]].append({"stack": stack, "cap": {a: ev["id"] for a, ev in cap.items()},
                                   "completer_is_not_event": neg_hit(prog, events[stack[-1]], capb)})
    return out


def parses(prog, events, st):
    """All ways of reading the stack (list of event indices) as an occurrence of the pattern: returns a list of
    alias-binding histories [(event index, alias)], one per successful parse. Non-all steps take exactly one
    event, `all` steps one or more; each event must have its step's type and satisfy the step filter under the
    captures made before it."""
    steps = prog["steps"]
    out = []

    def go(si, pos, cap, hist, entered):
        if pos == len(st):
            if si == len(steps) - 1 and entered:
                out.append(hist)
            return
        if si >= len(steps):
            return
        s = steps[si]
        ev = events[st[pos]]
        if step_ok(s, ev, cap):
            cap2 = dict(cap)
            if s["alias"]:
                cap2[s["alias"]] = ev
            h2 = hist + [(st[pos], s["alias"])]
            if s["all"]:
                go(si, pos + 1, cap2, h2, True)          # stay in the Kleene step
            if pos + 1 == len(st):
                go(si, pos + 1, cap2, h2, True)
            else:
                go(si + 1, pos + 1, cap2, h2, False) if not s["all"] else go_next(si, pos + 1, cap2, h2)

    def go_next(si, pos, cap, hist):
        # leave the Kleene step si (which has consumed at least one event) for step si+1
        go2(si + 1, pos, cap, hist)

    def go2(si, pos, cap, hist):
        if si >= len(steps) or pos >= len(st):
            return
        s = steps[si]
        ev = events[st[pos]]
        if step_ok(s, ev, cap):
            cap2 = dict(cap)
            if s["alias"]:
                cap2[s["alias"]] = ev
            h2 = hist + [(st[pos], s["alias"])]
            if pos + 1 == len(st):
                if si == len(steps) - 1:
                    out.append(h2)
                return
            if s["all"]:
                go2(si, pos + 1, cap2, h2)
            go2(si + 1, pos + 1, cap2, h2)

    go2(0, 0, {}, [])
    return out


def check_match_genuine(prog, events, m):
    """C01 judge for one reported match (stack = event ids in the order captured)."""
    st = m["stack"]
    if not st or any(i < 0 or i >= len(events) for i in st):
        return ["stack refers to unknown events: %s" % st]
    if any(b <= a for a, b in zip(st, st[1:])):
        return ["stack not in arrival order: %s" % st]
    hists = parses(prog, events, st)
    if not hists:
        return ["stack %s is not an occurrence of the pattern (step order / event type / step filter)" % st]
    probs = []
    if prog["partition"] is not None:
        ks = {json.dumps(key_of(prog, events[i])) for i in st}
        if len(ks) > 1:
            probs.append("stack %s mixes partition values %s" % (st, sorted(ks)))
    if prog["negs"]:
        inside = set(st)
        # a .not event strictly between first and last event, judged under the captures made before it;
        # the match is bad only if this holds for every way of reading the stack
        def bad(h):
            for j in range(st[0] + 1, st[-1]):
                if j in inside:
                    continue
                cap = {}
                for i, a in h:
                    if i < j and a:
                        cap[a] = events[i]
                if neg_hit(prog, events[j], cap):
                    return j
            return None
        hits = [bad(h) for h in hists]
        if all(x is not None for x in hits):
            probs.append("event %d satisfies a .not clause between the first (%d) and last (%d) event of the match %s" % (hits[0], st[0], st[-1], st))
    return probs


# ------------------------------------------------------------ check driver
def renumber(events):
    return [{"id": i, "ty": e["ty"], "f": e["f"]} for i, e in enumerate(events)]


def shrink_case(binpath, prog, events, fails):
    """Drop events (then steps' filters) while `fails(prog, events, answer)` stays non-empty."""
    def failing(p, evs):
        ans = harness.run_jsonl(binpath, [prog_request(p, evs)])[0]
        return ans, fails(p, evs, ans)
    changed = True
    while changed and len(events) > 1:
        changed = False
        for i in range(len(events) - 1, -1, -1):
            cand = renumber(events[:i] + events[i + 1:])
            _, f = failing(prog, cand)
            if f:
                events = cand
                changed = True
                break
    ans, f = failing(prog, events)
    return prog, events, ans, f


def drive(run, binpath, cases, tag, judge, classify=None, contradicts=""):
    """judge(prog, events, answer) -> list of failure strings (property violated by the implementation).
    classify(prog, events, answer, failures) -> list of known-finding class ids."""
    n_or = 0
    n_corr = 0
    answers = []
    for k, (prog, events, ans, si, sm) in enumerate(run_cases(run, binpath, cases, tag)):
        answers.append(None if si == "SLOW" else ans)
        nmatch = sum(len(e["matches"]) for e in ans.get("events", []))
        key = json.dumps(describe(prog, events), sort_keys=True) if nmatch else None
        run.case(key, sample=describe(prog, events) if k < 2 else None)
        run.count("steps=%d" % len(prog["steps"]))
        run.count("matches=%s" % ("0" if nmatch == 0 else "1" if nmatch == 1 else "2-5" if nmatch <= 5 else "6+"))
        run.count("events=%d" % (len(events) // 4 * 4))
        for s in prog["steps"]:
            if s["all"]:
                run.count("has_all")
                break
        if prog["negs"]:
            run.count("has_not")
        if prog["partition"]:
            run.count("partitioned")
        if prog["strategy"] != "drop" or prog["max_runs"] < 10000:
            run.count("backpressure:%s" % (prog["strategy"] if not isinstance(prog["strategy"], tuple) else "sample"))
        if si == "SLOW":
            run.count("slow-case-skipped")
            continue
        fails = judge(prog, events, ans)
        if fails:
            n_or += 1
            if n_or <= 4:
                p2, e2, a2, f2 = shrink_case(binpath, prog, events, judge)
                classes = classify(p2, e2, a2, f2) if classify else []
                run.violation("; ".join(f2)[:700], dict(describe(p2, e2), implementation=a2, failures=f2, contradicts=contradicts), classes=classes)
        if sm is not None and si != sm:
            n_corr += 1
            if n_corr <= 3:
                run.tie_broken("correspondence Sase/Model.v vs sase.rs", json.dumps(describe(prog, events))[:1500] + "\n impl  " + si + "\n model " + sm)
    run.extra["oracle_failures"] = n_or
    run.extra["disagreements"] = n_corr
    return answers


def replay_case(run, path, judge):
    r = json.load(open(path))["replay"]
    okb, bindir, blog = harness.build("vp-sase")
    prog = r["program"]
    if isinstance(prog["strategy"], list):
        prog["strategy"] = tuple(prog["strategy"])
    for s in prog["steps"] + prog["negs"]:
        s["pred"] = _tup(s["pred"])
    events = [{"id": e["id"], "ty": e["type"], "f": {k: tuple(v) for k, v in e["fields"].items()}} for e in r["events"]]
    ans = harness.run_jsonl(os.path.join(bindir, "vp-sase"), [prog_request(prog, events)])[0]
    fails = judge(prog, events, ans)
    run.case(("replay", 1), describe(prog, events))
    run.case(("replay", 2))
    if fails:
        run.violation("; ".join(fails)[:700], dict(describe(prog, events), implementation=ans, failures=fails))


def _tup(p):
    if p is None:
        return None
    if isinstance(p, list):
        return tuple(_tup(x) for x in p)
    return p
