"""C21 — checkpoint storage recovers the newest complete checkpoint after any crash."""
import json
import os

from checks import store_common as S
from vplib import coqtools, harness

META = {
    "technique": "Coq proof (invariant by induction over all histories of saves, restarts, crash points and corruption faults) about an "
                 "executable model of FileStore + CheckpointManager over a file-system model with atomic rename and torn writes; model tied "
                 "to the code by a differential run on a real temp directory with crash points injected through a cfg(varpulis_verif) hook",
    "level_text": "proof about model + differential correspondence + independent oracle on the implementation",
    "level_note": "Proved for every history (any length, any max_checkpoints >= 1), every crash point between two file-system mutations "
                  "and every torn temp-file write: recovery returns the newest checkpoint whose rename completed, never a partial one; "
                  "with unreadable bytes put in place of newest files recovery returns the newest readable stored checkpoint, which was "
                  "completely written; after each completed checkpoint() at most max files are kept; ids of completely written "
                  "checkpoints strictly increase across restarts and faults. Modelled: the serialised form is abstract (any codec "
                  "with 'what was encoded decodes to itself, no proper prefix decodes'; serde_json is checked against that contract on "
                  "every run), process-crash semantics only (completed syscalls persist, rename atomic), I/O errors are outside the "
                  "model. RocksDbStore (feature 'persistence', not compiled by default) is not covered.",
    "design_ref": "DESIGN.md §7 C21",
}


def judge(case, ans):
    return S.oracle21(case, ans)


def cases_for(run):
    rng = run.rng
    cases = list(S.CORPUS21)
    if run.tier == "quick":
        cases += S.exhaustive21(max_saves=8, torn_values=(None, 0, 7, 100000))
        n = 300
    else:
        cases += S.exhaustive21(max_saves=8, torn_values=(None, 0, 1, 7, 60, 133, 134, 100000))
        n = 6000
    for _ in range(n):
        cases.append(S.gen_case21(rng))
    return cases


def check(run):
    run.rule = ("histories of <= 8 checkpoint saves with max_checkpoints 1-3 on a real temp directory: every crash point (0..4 mutations, "
                "torn temp-file writes of several lengths) of the i-th save for every i < 8, each followed by restart and two saves; every "
                "corruption kind of the newest file after i saves; plus seeded random histories mixing saves, crashes, restarts and "
                "corruption; non-trivial = history with a crash or a corruption and >= 2 saves; distinct = distinct (max, event list)")
    run.trusted += ["Coq 8.16.1 kernel + vm_compute",
                    "hand-written model coq/theories/Store/Model.v tied by differential run (per event: result and number of file-system "
                    "mutations, directory listing with readable/unreadable classification, result of a fresh CheckpointManager::new + recover)",
                    "codec contract (Section hypotheses of the theorems: decode (encode c) = Some c, no proper prefix of encode c decodes, "
                    "fault bytes do not decode) — serde_json/codec.rs is tested against it on every run, not proved",
                    "process-crash semantics: completed std::fs::write/rename/remove_file persist, rename is atomic (POSIX); no power loss",
                    "crash injection hook persistence.rs verif_crash (cfg varpulis_verif), harness harness/crates/store, driver checks/store_common.py"]
    run.assumptions += ["max_checkpoints >= 1", "u64 checkpoint ids do not overflow", "no I/O errors other than the injected crash"]
    binpath = S.build(run, ["theories/Store/Props.vo"], "C21.v")
    if binpath is None:
        return
    # codec contract on the real serialiser
    con = harness.run_jsonl(binpath, [{"prop": "codec_contract", "id": i, "data": d} for i, d in ((1, 0), (12, 345), (18446744073709551615, 18446744073709551615))])
    for c in con:
        run.case(("contract", c.get("len")))
        if not c.get("roundtrip") or c.get("prefixes_accepted") != 0:
            run.tie_broken("codec contract (roundtrip, no proper prefix deserialises) on codec::serialize/deserialize", json.dumps(c))
    cases = cases_for(run)
    answers = harness.run_jsonl(binpath, [dict(prop="C21", **c) for c in cases])
    impl = [S.impl_str21(a) for a in answers]
    try:
        model = coqtools.coq_eval("C21", S.IMPORTS21, [S.g_case21(c) for c in cases], shard=max(20, len(cases) // 16 + 1))
    except RuntimeError as e:
        run.tie_broken("model evaluation (coqc cases)", str(e))
        model = [None] * len(cases)
    n_or = n_co = 0
    for k, (c, a, si, sm) in enumerate(zip(cases, answers, impl, model)):
        evs = c["events"]
        kinds = [e[0] for e in evs]
        nsaves = sum(1 for x in kinds if x in ("save", "savecrash"))
        nontriv = (c["max"], json.dumps(evs)) if nsaves >= 2 and ("savecrash" in kinds or "corrupt" in kinds) else None
        run.case(nontriv, sample={"case": c, "impl": si[:400]} if k in (0, 5) else None)
        run.count("max=%d" % c["max"])
        run.count("saves=%d" % nsaves)
        for e in evs:
            if e[0] == "savecrash":
                run.count("crash@%d%s" % (min(e[2], 5), "" if e[3] is None else "+torn"))
            elif e[0] == "corrupt":
                run.count("corrupt=" + e[1])
            else:
                run.count("ev=" + e[0])
        if "steps" in a:
            for s in a["steps"]:
                if s["res"] == "crash":
                    run.count("outcome=crashed")
                elif s["res"].startswith("ok:"):
                    run.count("outcome=completed(%s mutations)" % s["res"][3:])
        fails = judge(c, a)
        if fails:
            n_or += 1
            run.count("oracle_fail")
            if n_or <= 3:
                def still(cc):
                    aa = harness.run_jsonl(binpath, [dict(prop="C21", **cc)])[0]
                    return bool(judge(cc, aa))
                small = S.shrink21(c, still)
                aa = harness.run_jsonl(binpath, [dict(prop="C21", **small)])[0]
                run.violation("; ".join(judge(small, aa))[:700],
                              {"case": small, "implementation": aa,
                               "contradicts": "theorems C21_* in coq/theories/Store/Props.v"})
        if sm is not None and si != sm:
            n_co += 1
            if n_co <= 3:
                run.tie_broken("correspondence Store/Model.v vs persistence.rs on %s" % json.dumps(c),
                               "model and implementation differ:\n impl  %s\n model %s" % (si, sm))
    run.extra["oracle_failures"] = n_or
    run.extra["disagreements"] = n_co


def replay(run, path):
    r = json.load(open(path))["replay"]
    ok, bindir, lg = harness.build("vp-store")
    c = r["case"]
    a = harness.run_jsonl(os.path.join(bindir, "vp-store"), [dict(prop="C21", **c)])[0]
    run.case(("replay",), {"case": c})
    run.case(("replay2",))
    fails = judge(c, a)
    if fails:
        run.violation("; ".join(fails)[:700], {"case": c, "implementation": a})
