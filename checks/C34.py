"""C34 — event routing to pipelines and replicas is deterministic and sticky."""
import json
import os

from checks import coord_common as C
from vplib import coqtools, harness

META = {
    "technique": "Coq proof (first-matching-route, key-hash stickiness across the single and batch injection paths, round-robin balance) over an executable "
                 "routing model incl. SipHash-1-3 + model/implementation differential through resolve_inject_target and inject_batch",
    "design_ref": "DESIGN.md §7 C34",
    "level_text": "Coq theorems: first matching route / default, trailing-wildcard semantics, same key value => same replica on the single and batch paths (any hash), round-robin loads differ by at most one; no axioms. Routing model incl. SipHash-1-3 tied to routing.rs / pipeline_group.rs / coordinator.rs inject paths by a differential run on every check",
    "level_note": "Theorems are about coq/theories/Coord/Route.v (event_type_matches, find_target_pipeline, ReplicaGroup::select_replica, replica-group registration "
                  "of commit_deploy_group, the key text of both injection paths); stickiness and balance are proved for an arbitrary hash function, the "
                  "differential run instantiates it with a Gallina SipHash-1-3 that is compared with std's DefaultHasher. Modelled, not proved: the .evt/JSONL "
                  "parser (batch events enter the model as parsed values; C46 covers the reader), serde_json's float printing (float text is an input of the model), "
                  "string escaping beyond quote and backslash.",
}

IMPORTS = ("From Coq Require Import String.\nFrom VP Require Import Base.Tactics Base.Render Coord.Model Coord.Route Coord.RouteRun.\n"
           "Open Scope string_scope.\nOpen Scope N_scope.\n")

I64_MAX = 2 ** 63 - 1
TYPES = ["A", "AB", "ABC", "B", "Bx", "C", "D", "*", "A*"]
PATTERNS = ["A", "AB", "ABC", "B", "Bx", "C", "A*", "AB*", "B*", "*", "A*B", "**", "", "D*"]


# ---------------------------------------------------------------- keys
# a key is ("int", n) | ("float", f) | ("str", s) | ("bool", b) | ("null",) | ("missing",)
def float_text(f):
    """serde_json text of a finite f64 in the ranges the generator uses (plain decimals in
    1e-4..1e16, exponent form with explicit sign above: 1e+20, 1.8446744073709552e+19)."""
    r = repr(float(f))
    if "e" in r:
        m, e = r.split("e")
        sign = e[0] if e[0] in "+-" else "+"
        e = e.lstrip("+-").lstrip("0") or "0"
        return m + "e" + sign + e
    return r


def key_json(key):
    """JSON text of the key as a client of the single-injection endpoint writes it."""
    k = key[0]
    if k == "int":
        return str(key[1])
    if k == "float":
        return float_text(key[1])
    if k == "str":
        return json.dumps(key[1])
    if k == "bool":
        return "true" if key[1] else "false"
    if k == "null":
        return "null"
    return None


def key_evt(key, rng):
    """A spelling of the same key in the .evt syntax."""
    k = key[0]
    if k == "int":
        return ("+" if key[1] >= 0 and rng.chance(1, 8) else "") + str(key[1])
    if k == "float":
        return float_text(key[1])
    if k == "str":
        s = key[1]
        if s.isalpha() and s.islower() and s not in ("true", "false", "null", "nil", "nan", "inf", "infinity") and rng.chance(1, 3):
            return s
        if "'" not in s and "\\" not in s and '"' not in s and rng.chance(1, 4):
            return "'" + s + "'"
        return '"' + s.replace("\\", "\\\\").replace('"', '\\"') + '"'
    if k == "bool":
        return "true" if key[1] else "false"
    if k == "null":
        return rng.choice(["null", "nil"])
    return None


def g_str(s):
    assert all(32 <= ord(c) < 127 for c in s), s
    return '"%s"' % s.replace('"', '""')


def key_jval_single(key):
    """What serde_json holds for the key on the single path (numbers beyond i64 are still exact integers there)."""
    k = key[0]
    if k == "int":
        if -2 ** 63 <= key[1] <= I64_MAX:
            return "JInt (%d)%%Z" % key[1]
        if key[1] <= 2 ** 64 - 1:
            return "JBig (%d)%%Z %s" % (key[1], g_str(float_text(float(key[1]))))
        return "JFloat %s" % g_str(float_text(float(key[1])))
    if k == "float":
        return "JFloat %s" % g_str(float_text(key[1]))
    if k == "str":
        return "JStr %s" % g_str(key[1])
    if k == "bool":
        return "JBool %s" % ("true" if key[1] else "false")
    return "JNull"


def key_rvalue_batch(key):
    """The engine Value the event-file parser produces for the key (i64 or else f64), as the model's input."""
    k = key[0]
    if k == "int" and not (-2 ** 63 <= key[1] <= I64_MAX):
        return "VJson (JFloat %s)" % g_str(float_text(float(key[1])))
    return "VJson (%s)" % key_jval_single(key)


def gen_key(rng):
    x = rng.below(100)
    if x < 30:
        return ("int", rng.below(4))
    if x < 40:
        return ("int", rng.choice([-1, -7, I64_MAX, -2 ** 63, I64_MAX + 1, 2 ** 64 - 1, 2 ** 64, 10 ** 20, 123456789012]))
    if x < 55:
        return ("float", rng.choice([0.5, 2.5, 5.0, 1000.0, 100.25, -1.5, 0.001, 3.0, 1e19, 2.5e17, 123456.789]))
    if x < 80:
        return ("str", rng.choice(["a", "b", "5", "a b", "x", "key", 'a"b', "a\\b", "true", "1e3", ""]))
    if x < 86:
        return ("bool", rng.chance(1, 2))
    if x < 90:
        return ("null",)
    return ("missing",)


# ---------------------------------------------------------------- reference routing (oracle)
def ref_matches(ty, pat):
    if pat == "*":
        return True
    if pat.endswith("*"):
        return ty.startswith(pat[:-1])
    return ty == pat


def ref_target(case, ty):
    for to, pats in case["routes"]:
        if any(ref_matches(ty, p) for p in pats):
            return 16 * to
    return 16 * case["pipelines"][0][0]


def ok_replicas(case, logical):
    i = 0
    for l, r, k in case["pipelines"]:
        c = max(1, r)
        if 16 * l == logical:
            return [16 * l + j + 1 for j in range(c) if case["outcomes"][i + j]] if c > 1 else [16 * l]
        i += c
    return []


def canon(key):
    if key[0] == "float":
        import struct
        return ("float", struct.pack(">d", key[1]))
    return key


# ---------------------------------------------------------------- generation
def gen_case(rng, big=False):
    np_ = rng.range(1, 3)
    ls = rng.shuffle([1, 2, 3])[:np_]
    pipelines = [[l, rng.choice([1, 2, 2, 3, 3, 4, 5]), "k" if rng.chance(3, 5) else None] for l in ls]
    ntasks = sum(max(1, p[1]) for p in pipelines)
    outcomes = [not rng.chance(1, 7) for _ in range(ntasks)]
    routes = []
    for _ in range(rng.below(4)):
        routes.append([rng.choice(ls + ([9] if rng.chance(1, 8) else [])), [rng.choice(PATTERNS) for _ in range(rng.range(1, 2))]])
    # a small pool of keys so that repeats (stickiness) are frequent
    pool = [gen_key(rng) for _ in range(rng.range(2, 6))]
    events = []
    seq = 0
    for _ in range(rng.range(8, 40 if big else 22)):
        if rng.chance(3, 5):
            seq += 1
            events.append({"mode": "single", "evs": [(seq, rng.choice(TYPES), rng.choice(pool))]})
        else:
            evs = []
            for _ in range(rng.range(1, 6)):
                seq += 1
                evs.append((seq, rng.choice(TYPES), rng.choice(pool)))
            events.append({"mode": "batch", "evs": evs, "jsonl": rng.chance(1, 4)})
    return {"pipelines": pipelines, "routes": routes, "outcomes": outcomes, "events": events}


def batch_text(ev, rng):
    lines = []
    for seq, ty, key in ev["evs"]:
        if ev.get("jsonl"):
            kj = key_json(key)
            data = '"seq":%d' % seq + ("" if kj is None else ',"k":%s' % kj)
            lines.append('{"event_type":%s,"data":{%s}}' % (json.dumps(ty), data))
        else:
            ke = key_evt(key, rng)
            lines.append("%s { seq: %d%s }" % (ty, seq, "" if ke is None else ", k: " + ke))
    return "\n".join(lines)


def request_of(case, rng):
    evs = []
    for ev in case["events"]:
        if ev["mode"] == "single":
            seq, ty, key = ev["evs"][0]
            kj = key_json(key)
            fields = '{"seq":%d%s}' % (seq, "" if kj is None else ',"k":%s' % kj)
            evs.append('{"single":{"type":%s,"fields":%s}}' % (json.dumps(ty), fields))
        else:
            evs.append('{"batch":%s}' % json.dumps(batch_text(ev, rng)))
    # assembled as text so that big integers and float spellings reach the harness verbatim
    return '{"kind":"route","pipelines":%s,"routes":%s,"outcomes":%s,"events":[%s]}' % (
        json.dumps(case["pipelines"]), json.dumps(case["routes"]), json.dumps(case["outcomes"]), ",".join(evs))


def g_fields_single(seq, key):
    fs = ['("seq", JInt (%d)%%Z)' % seq]
    if key[0] != "missing":
        fs.append('("k", %s)' % key_jval_single(key))
    return "[" + "; ".join(fs) + "]"


def g_fields_batch(seq, key):
    fs = ['("seq", VJson (JInt (%d)%%Z))' % seq]
    if key[0] != "missing":
        fs.append('("k", %s)' % key_rvalue_batch(key))
    return "[" + "; ".join(fs) + "]"


def g_case(case):
    routes = "[" + "; ".join("mkRoute %d [%s]" % (16 * to, "; ".join(g_str(p) for p in pats)) for to, pats in case["routes"]) + "]"
    spec = "[" + "; ".join("mkRSpec %d %d %s" % (l, r, "None" if k is None else "(Some %s)" % g_str(k)) for l, r, k in case["pipelines"]) + "]"
    outs = C.g_bools(case["outcomes"])
    evs = []
    for ev in case["events"]:
        if ev["mode"] == "single":
            seq, ty, key = ev["evs"][0]
            evs.append("ESingle %s %s" % (g_str(ty), g_fields_single(seq, key)))
        else:
            evs.append("EBatch [%s]" % "; ".join("(%s, %s)" % (g_str(ty), g_fields_batch(seq, key)) for seq, ty, key in ev["evs"]))
    return "route_case %s %s %s [%s]" % (routes, spec, outs, "; ".join(evs))


def impl_str(case, ans):
    if "panic" in ans:
        return "PANIC " + ans["panic"]
    out = []
    for ev, r in zip(case["events"], ans["results"]):
        if ev["mode"] == "single":
            out.append(r if isinstance(r, str) else json.dumps(r))
        else:
            if isinstance(r, str):
                out.append(r)
                continue
            parts = []
            for seq, ty, key in ev["evs"]:
                t = r["targets"].get(str(seq))
                parts.append("nd" if t is None else "t%d" % t["t"])
            out.append(",".join(parts) + ";E:" + ",".join(str(e) for e in r["errors"]))
    return "|".join(out)


# ---------------------------------------------------------------- oracle
def judge(case, ans):
    """Property text on the implementation's answers. Returns list of failure strings."""
    if "panic" in ans:
        return ["implementation panicked: " + ans["panic"]]
    fails = []
    reps = {16 * l: (max(1, r), k) for l, r, k in case["pipelines"]}
    sticky = {}      # (logical, canon key) -> (replica, how)
    rr = {}          # logical -> list of chosen replicas in injection order
    for ev, r in zip(case["events"], ans["results"]):
        items = []
        if ev["mode"] == "single":
            seq, ty, key = ev["evs"][0]
            if isinstance(r, str) and r.startswith("t"):
                items.append((seq, ty, key, int(r[1:]), "single"))
            elif isinstance(r, str) and r.startswith("nd"):
                items.append((seq, ty, key, int(r[2:]), "single-notdeployed"))
            else:
                fails.append("event %d: unexpected answer %s" % (seq, r))
        else:
            if isinstance(r, str):
                fails.append("batch failed: " + r)
                continue
            for seq, ty, key in ev["evs"]:
                t = r["targets"].get(str(seq))
                if t is not None:
                    items.append((seq, ty, key, t["t"], "batch"))
        for seq, ty, key, tgt, how in items:
            want = ref_target(case, ty)
            if tgt // 16 * 16 != want:
                fails.append("event %d of type %r (%s) went to %s but the first matching route / default is %s" % (seq, ty, how, C.pn(tgt), C.pn(want)))
                continue
            if want in reps and reps[want][0] > 1 and tgt % 16 != 0:
                if reps[want][1] is not None:
                    ck = (want, canon(key))
                    if ck in sticky and sticky[ck][0] != tgt:
                        fails.append("key %r for %s reached replica %s (%s, event %d) and replica %s (%s, event %d)" % (
                            key, C.pn(want), C.pn(sticky[ck][0]), sticky[ck][1], sticky[ck][2], C.pn(tgt), how, seq))
                    sticky.setdefault(ck, (tgt, how, seq))
                else:
                    rr.setdefault(want, []).append(tgt)
    for l, seqs in rr.items():
        # every contiguous run of injections: loads of the deployed replicas differ by at most one
        allnames = sorted(set(ok_replicas(case, l)) | set(seqs))
        n = len(seqs)
        for a in range(n):
            loads = {x: 0 for x in allnames}
            for b in range(a, n):
                loads[seqs[b]] += 1
                if max(loads.values()) - min(loads.values()) > 1:
                    fails.append("round-robin %s: injections %d..%d give loads %s" % (C.pn(l), a, b, {C.pn(k): v for k, v in loads.items()}))
                    break
            else:
                continue
            break
    return fails


KNOWN = ()

CORPUS = [
    # integer key above i64::MAX: exact text on the single path, f64 text on the batch path (fixed)
    {"pipelines": [[1, 3, "k"]], "routes": [], "outcomes": [True, True, True],
     "events": [{"mode": "single", "evs": [(1, "A", ("int", 2 ** 64 - 1))]}, {"mode": "batch", "evs": [(2, "A", ("int", 2 ** 64 - 1))]},
                {"mode": "batch", "evs": [(3, "A", ("int", 2 ** 64 - 1))], "jsonl": True}, {"mode": "single", "evs": [(4, "A", ("int", I64_MAX + 1))]},
                {"mode": "batch", "evs": [(5, "A", ("int", I64_MAX + 1))]}]},
    # route order, wildcard, default
    {"pipelines": [[1, 1, None], [2, 2, None]], "routes": [[2, ["AB*", "C"]], [1, ["A*"]], [2, ["*"]]], "outcomes": [True, True, True],
     "events": [{"mode": "single", "evs": [(1, "ABC", ("missing",))]}, {"mode": "single", "evs": [(2, "A", ("missing",))]},
                {"mode": "batch", "evs": [(3, "C", ("missing",)), (4, "D", ("missing",)), (5, "AB", ("missing",)), (6, "B", ("missing",))]}]},
]


def gen_cases(run):
    rng = run.rng
    cases = list(CORPUS)
    n = 700 if run.tier == "quick" else 15000
    for i in range(n):
        cases.append(gen_case(rng.fork(), big=(i % 5 == 0)))
    return cases


def build(run):
    hits = coqtools.banned_scan()
    run.oblige("no Admitted/admit/Axiom/Parameter/guard-off anywhere in coq/", not hits, str(hits[:5]))
    ok, lg = coqtools.make(["theories/Coord/RouteProps.vo"])
    run.oblige("make theories/Coord/RouteProps.vo", ok, lg[-3000:])
    if ok:
        a = coqtools.audit("C34.v")
        run.axioms |= a["axioms"]
        run.oblige("audit C34.v: %d Check pins, %d/%d Print Assumptions, axioms allowed" % (a["n_pins"], a["n_print"], a["n_expected"]), a["ok"], a["log"] + str(a["bad_axioms"]))
        run.extra["theorems_audited"] = a["n_print"]
    run.checker_cmd = "coqc 8.16.1 (full .vo) theories/Coord/RouteProps.vo; coqc coq/audit/C34.v"
    okm, lgm = coqtools.make(["theories/Coord/RouteRun.vo"])
    if not okm:
        run.tie_broken("make theories/Coord/RouteRun.vo", lgm[-3000:])
    okb, bindir, blog = harness.build("vp-coord")
    if not okb:
        run.tie_broken("harness build vp-coord", blog[-3000:])
        return None
    return os.path.join(bindir, "vp-coord")


def run_impl(binpath, cases, rng):
    inp = "\n".join(request_of(c, rng) for c in cases) + "\n"
    from vplib.common import sh
    p = sh([binpath], input=inp, timeout=1200)
    if p.returncode != 0:
        raise RuntimeError("harness exited %s: %s" % (p.returncode, p.stderr[-2000:]))
    outs = [json.loads(l) for l in p.stdout.split("\n") if l.strip()]
    if len(outs) != len(cases):
        raise RuntimeError("harness: %d answers for %d requests" % (len(outs), len(cases)))
    return outs


def check(run):
    run.rule = ("groups of 1-3 pipelines (replicas 1-5, key-hash or round-robin, some replica deploys failing) with 0-3 routes over exact / trailing-wildcard / "
                "odd patterns and 8-40 injected events (types over a small alphabet; keys int incl. i64/u64 boundaries, float, string incl. quote/backslash, "
                "bool, null, missing) through resolve_inject_target and inject_batch (.evt and JSONL spellings); non-trivial = case reaches a replicated pipeline "
                "through both paths; distinct = distinct case")
    run.trusted += ["Coq 8.16.1 kernel + vm_compute",
                    "hand-written model coq/theories/Coord/Route.v tied by differential run (target of every event compared verbatim, incl. replica index = SipHash-1-3 mod n)",
                    "Gallina SipHash-1-3 compared with std DefaultHasher on every run (hash requests)",
                    "event-file parser and serde_json number/float printing: batch events enter the model as parsed values, float text computed by the driver (Python repr, ranges 1e-4..1e16 and >= 1e16)",
                    "Rust harness harness/crates/coord (loopback stub records events-batch deliveries), Python driver checks/C34.py (generators, reference router, oracle)"]
    run.assumptions += ["key strings contain only printable ASCII; escapes other than quote and backslash are not generated", "round-robin counter does not wrap at 2^64 within a case"]
    binpath = build(run)
    if binpath is None:
        return
    rng = run.rng
    # pin the hash model
    samples = ["", "5", "\"a\"", "1.8446744073709552e19", "true", "null", "\"a\\\"b\"", "x" * 23] + ["%d" % rng.below(10 ** 12) for _ in range(12)]
    hs = harness.run_jsonl(binpath, [{"kind": "hash", "s": s} for s in samples])
    try:
        hm = coqtools.coq_eval("C34h", IMPORTS, ["hash_case %s" % g_str(s) for s in samples], shard=50)
        bad = [(s, a["hash"], m) for s, a, m in zip(samples, hs, hm) if a["hash"] != m]
        run.oblige("Gallina SipHash-1-3 = std DefaultHasher on %d strings" % len(samples), not bad, str(bad[:3]))
    except RuntimeError as e:
        run.tie_broken("hash model evaluation", str(e))
    cases = gen_cases(run)
    rng2 = rng.fork()
    answers = run_impl(binpath, cases, rng2)
    try:
        model = coqtools.coq_eval("C34", IMPORTS, [g_case(c) for c in cases], shard=max(10, min(120, len(cases) // 16 + 1)))
    except RuntimeError as e:
        run.tie_broken("model evaluation (coqc cases)", str(e))
        model = [None] * len(cases)
    n_or = n_corr = 0
    for k, (case, ans, sm) in enumerate(zip(cases, answers, model)):
        si = impl_str(case, ans)
        modes = {ev["mode"] for ev in case["events"]}
        replicated = any(max(1, r) > 1 for l, r, kk in case["pipelines"])
        run.case(json.dumps(case) if replicated and len(modes) == 2 else None,
                 sample={"case": case, "impl": si[:300]} if k in (0, len(CORPUS)) else None)
        run.count("routes=%d" % len(case["routes"]))
        for l, r, kk in case["pipelines"]:
            run.count("replicas=%d,%s" % (r, "hash" if kk else "rr"))
        for ev in case["events"]:
            run.count("mode=" + ev["mode"] + (",jsonl" if ev.get("jsonl") else ""), len(ev["evs"]))
            for seq, ty, key in ev["evs"]:
                run.count("key=" + key[0] + (",beyond-i64" if key[0] == "int" and not (-2 ** 63 <= key[1] <= I64_MAX) else ""))
        fails = judge(case, ans)
        if fails:
            run.count("oracle_fail")
            n_or += 1
            if len(run.violations) < 3:
                small = shrink(case, lambda c: bool(judge(c, run_impl(binpath, [c], rng2.fork())[0])))
                a = run_impl(binpath, [small], rng2.fork())[0]
                run.violation("; ".join(judge(small, a))[:600], {"case": small, "request": request_of(small, rng2.fork()), "implementation": a,
                                                                 "contradicts": "C34 theorems in coq/theories/Coord/RouteProps.v"})
        if sm is not None and si != sm:
            n_corr += 1
            if n_corr <= 3:
                run.tie_broken("correspondence Coord/Route.v vs crates/varpulis-cluster routing on %s" % json.dumps(case)[:1500],
                               "impl  %s\n model %s" % (si, sm))
    run.extra["oracle_failures"] = n_or
    run.extra["disagreements"] = n_corr


def shrink(case, still):
    case = json.loads(json.dumps(case))
    for ev in case["events"]:
        ev["evs"] = [tuple(e[:2]) + (tuple(e[2]),) for e in ev["evs"]]
    changed = True
    while changed:
        changed = False
        for i in range(len(case["events"]) - 1, -1, -1):
            cand = dict(case, events=case["events"][:i] + case["events"][i + 1:])
            if cand["events"] and still(cand):
                case = cand
                changed = True
                break
    return case


def replay(run, path):
    r = json.load(open(path))["replay"]
    ok, bindir, lg = harness.build("vp-coord")
    binpath = os.path.join(bindir, "vp-coord")
    case = r["case"]
    for ev in case["events"]:
        ev["evs"] = [tuple(e[:2]) + (tuple(e[2]),) for e in ev["evs"]]
    a = run_impl(binpath, [case], run.rng)[0]
    f = judge(case, a)
    run.case(("replay",), {"case": case})
    run.case(("replay2",))
    if f:
        run.violation("; ".join(f)[:600], {"case": case, "implementation": a})
