"""C12 — tumbling, count and session windows partition their input exactly."""
from checks import window_common as W

META = {
    "technique": "Coq proof (induction over arbitrary op sequences on the window state machines) + model/impl differential on the window API and the Engine",
    "level_text": "Theorems C12_* in coq/theories/Window/Props.v about the executable model of the window state machines, for every op sequence (arrivals in any order, watermark advances, expiry checks, flushes): exact partition (plain and partitioned forms), count windows close with exactly their size, tumbling span (time-ordered ops), session gaps and session closing condition; the model is tied to window.rs / engine/types.rs by comparing every op's output and the final buffer verbatim, on the window API and through Engine programs",
    "level_note": "Size/duration >= 1 and gap >= 0 in the count/span/gap theorems (size 0 is degenerate and only compared). 'In-order' for the span clause = every arrival timestamp >= earlier arrivals and >= earlier watermark instants. Engine path is add-only and observes windows through count/sum/first/last of x = 2^id; Engine watermark-driven closes and flush_expired_sessions (wall clock) are not exercised. Which key goes to which partition is not judged here (C04). Trusted: Coq kernel + vm_compute, hand-written model (differential tie), harness, Python oracle",
    "design_ref": "DESIGN.md §7 C12, §12 Window",
}


def judge(c, ans):
    return W.oracle_c12(c, ans)


def cases_for(run):
    rng = run.rng
    cases = []
    # the shapes the property text names, first
    cases.append(W.mk_case("win", "tumbling", 3, 0, [["add", 0, 0, -1], ["add", 1, 2, -1], ["add", 2, 3, -1], ["wm", 10], ["add", 3, 5, -1], ["add", 4, 12, -1], ["add", 5, 13, -1]], "ooo"))
    cases.append(W.mk_case("win", "session", 2, 0, [["add", 0, 0, -1], ["add", 1, 2, -1], ["add", 2, 5, -1], ["wm", 7], ["add", 3, 7, -1], ["expire", 9], ["expire", 10], ["add", 4, 11, -1]], "inorder"))
    cases.append(W.mk_case("win", "count", 2, 0, [["add", 0, 0, -1], ["add", 1, 2, -1], ["add", 2, 3, -1], ["flush"], ["add", 3, 3, -1]], "inorder"))
    n = 700 if run.tier == "quick" else 20000
    for i in range(n):
        cases.append(W.gen_case(rng, W.C12_KINDS, 9 if i % 3 else 16))
    cases += W.exhaustive_small(("tumbling", "count", "session", "ptumbling", "psession"), apis=("win",))
    if run.tier == "thorough":
        cases += W.exhaustive_small(W.C12_KINDS, apis=("eng",))
    return cases


def check(run):
    run.rule = ("op sequences (add / watermark / expiry / flush, seeded) on TumblingWindow, CountWindow, SessionWindow and their partitioned forms, "
                "directly and through Engine programs `.window(..).aggregate(..)`, sizes/gaps 0-5 ticks, in-order streams with ties and out-of-order streams; "
                "plus every in-order stream of <= 4 events with steps 0..3 for sizes 1..3; non-trivial = >= 3 arrivals and >= 2 windows observed; "
                "distinct = distinct (api, kind, size, op list)")
    run.trusted += ["Coq 8.16.1 kernel + vm_compute",
                    "hand-written model coq/theories/Window/Model.v tied by differential run (every op's output and the final buffer compared verbatim, ids in order)",
                    "Rust harness harness/crates/window, Python driver checks/window_common.py (generators, brute-force oracle)",
                    "ColumnarBuffer modelled as the list of pushed events; FxHashMap partition order not modelled (partition results compared sorted by key)",
                    "Engine path observes windows only through count/sum/first/last of x = 2^id"]
    run.assumptions += ["chrono DateTime/Duration arithmetic does not overflow on the explored timestamps (model uses unbounded Z)",
                        "window sizes/durations >= 1 and session gaps >= 0 for the count/span/gap clauses (size 0 is degenerate: closes on every event)"]
    binpath = W.build_all(run, ["theories/Window/Props.vo"], "C12.v")
    if binpath is None:
        return
    W.report(run, binpath, cases_for(run), judge, "C12", "theorems C12_* in coq/theories/Window/Props.v")


def replay(run, path):
    W.replay(run, path, judge)
