"""Shared machinery for C32 / C33 / C34 (crates/varpulis-cluster coordinator, placement, routing).

Pipeline: build Coq (Coord area) -> audit -> build harness vp-coord -> generate histories ->
run the real Coordinator (harness) -> feed the observed HashMap orders / honest heartbeat counts
into the model ops -> evaluate the model by vm_compute -> compare state strings step by step;
independent oracles (Python, on the implementation's state dumps) judge the property text.

Pipeline names: 16*l is "p<l>", 16*l+k+1 is "p<l>#k".
"""
import json
import os

from vplib import coqtools, harness

IMPORTS = ("From Coq Require Import String.\nFrom VP Require Import Base.Tactics Base.Render Coord.Model Coord.Run.\n"
           "Open Scope string_scope.\nOpen Scope N_scope.\n")


# ---------------------------------------------------------------- Gallina rendering
def g_bools(bs):
    return "[" + "; ".join("true" if b else "false" for b in bs) + "]"


def g_ns(ns):
    return "[" + "; ".join(str(n) for n in ns) + "]"


def g_pairs(ps):
    return "[" + "; ".join("(%d, %d)" % (a, b) for a, b in ps) + "]"


def g_spec(spec):
    return "[" + "; ".join("mkP %d %s %d" % (l, "None" if a is None else "(Some %d)" % a, r) for l, a, r in spec) + "]"


def g_op(op, step):
    """op: generator op (list); step: the implementation's step record (orders, honest heartbeat count)."""
    n = op[0]
    word = g_ns(step["word"])
    pord = g_pairs(step["pord"])
    if n == "register":
        return "ORegister %d %d %d %d" % (op[1], op[2], op[3], op[4])
    if n == "deregister":
        return "ODeregister %d" % op[1]
    if n == "heartbeat":
        return "OHeartbeat %d %d" % (op[1], step["hb_n"])
    if n == "advance":
        return "OAdvance (%d)%%Z" % op[1]
    if n == "sweep":
        return "OSweep"
    if n == "set_status":
        return "OSetStatus %d %s" % (op[1], {"G": "WRegistering", "R": "WReady", "U": "WUnhealthy", "D": "WDraining"}[op[2]])
    if n == "plan_deploy":
        return "OPlanDeploy %s %s" % (g_spec(op[1]), word)
    if n == "commit_deploy":
        return "OCommitDeploy %d%%nat %s" % (op[1], g_bools(op[2]))
    if n == "plan_teardown":
        return "OPlanTeardown %d" % op[1]
    if n == "commit_teardown":
        return "OCommitTeardown %d%%nat" % op[1]
    if n == "plan_migrate":
        return "OPlanMigrate %d %d %d" % (op[1], op[2], op[3])
    if n == "commit_migrate":
        return "OCommitMigrate %d%%nat %s" % (op[1], "true" if op[2] else "false")
    if n == "migrate":
        return "OMigrate %d %d %d %s" % (op[1], op[2], op[3], "true" if op[4] else "false")
    if n == "failover":
        return "OFailover %d %s %s %s" % (op[1], g_bools(op[2]), word, pord)
    if n == "drain":
        return "ODrain %d %s %s %s" % (op[1], g_bools(op[2]), word, pord)
    if n == "rebalance":
        return "ORebalance %s %s %s" % (g_bools(op[1]), word, pord)
    raise ValueError(n)


def g_case(timeout, ops, steps):
    return "coord_case (%d)%%Z [%s]" % (timeout, "; ".join(g_op(o, s) for o, s in zip(ops, steps)))


def state_str(st):
    ws = []
    for w in st["workers"]:
        ws.append("w%d:%s:%d:%d:%d:%s:%d" % (w["id"], w["st"], w["run"], w["max"], w["cores"], ".".join(str(x) for x in w["asg"]), w["age"]))
    gs = []
    for g in st["groups"]:
        pls = ["%d@%d,%s,%d,%d" % (p["name"], p["w"], p["st"], 1 if p["hasid"] else 0, p["epoch"]) for p in g["pl"]]
        gs.append("g%d:%s:%s" % (g["g"], g["st"], "/".join(pls)))
    return "W[" + ";".join(ws) + "]G[" + ";".join(gs) + "]"


def impl_str(ans):
    if "panic" in ans:
        return "PANIC " + ans["panic"]
    return "|".join(s["res"] + "~" + state_str(s["state"]) for s in ans["steps"])


# ---------------------------------------------------------------- oracle for C32 (bookkeeping invariant)
def running_on(st, w):
    return sorted(p["name"] for g in st["groups"] for p in g["pl"] if p["st"] == "R" and p["w"] == w)


def inv_failures(st, check_count=True):
    """The property text on one state dump: every running replica on a registered worker; each
    worker's assigned list / running count = the running placements on it."""
    fails = []
    ids = {w["id"] for w in st["workers"]}
    for g in st["groups"]:
        for p in g["pl"]:
            if p["st"] == "R" and p["w"] not in ids:
                fails.append("running replica %s of group g%d is placed on w%d which is not registered" % (pn(p["name"]), g["g"], p["w"]))
    for w in st["workers"]:
        want = running_on(st, w["id"])
        if sorted(w["asg"]) != want:
            fails.append("w%d: assigned %s but running placements on it are %s" % (w["id"], [pn(x) for x in w["asg"]], [pn(x) for x in want]))
        elif check_count and w["run"] != len(want):
            fails.append("w%d: running count %d but %d running placements on it" % (w["id"], w["run"], len(want)))
    return fails


def pn(code):
    return "p%d" % (code // 16) if code % 16 == 0 else "p%d#%d" % (code // 16, code % 16 - 1)


EMPTY = {"workers": [], "groups": []}


def honest(ops):
    """No heartbeat with a made-up count and no registration claiming running pipelines."""
    for o in ops:
        if o[0] == "heartbeat" and o[2] is not None:
            return False
        if o[0] == "register" and o[4] != 0:
            return False
    return True


def c32_judge(ops, ans):
    """Returns (failures, classes) for the first step after which the invariant does not hold.
    classes = known-finding classes the failing step belongs to (decided from the step's own shape)."""
    if "panic" in ans:
        return ["implementation panicked: " + ans["panic"]], [], None
    prev = EMPTY
    chk = honest(ops)
    for k, (op, step) in enumerate(zip(ops, ans["steps"])):
        st = step["state"]
        fails = inv_failures(st, chk)
        if fails:
            classes = []
            if op[0] == "register" and running_on(prev, op[1]):
                classes.append("reregister-live-worker")
            if op[0] == "deregister" and running_on(prev, op[1]) and step["res"] == "b1":
                classes.append("deregister-live-worker")
            if op[0] == "drain" and step["res"].startswith("drain:") and running_on(st, op[1]) and op[1] not in {w["id"] for w in st["workers"]}:
                classes.append("drain-force-deregister")
            return ["after step %d %s: %s" % (k, json.dumps(op), f) for f in fails], classes, k
        prev = st
    return [], [], None


# ---------------------------------------------------------------- oracle for C33 (placement + failure detection)
def wmap(st):
    return {w["id"]: w for w in st["workers"]}


def placements(st):
    return {(g["g"], p["name"]): p for g in st["groups"] for p in g["pl"]}


def c33_judge(timeout, ops, ans):
    """Judges every step against the C33 text. Returns list of failure strings."""
    if "panic" in ans:
        return ["implementation panicked: " + ans["panic"]]
    fails = []
    prev = EMPTY
    specs = {}          # plan slot -> spec
    nplan = 0
    for k, (op, step) in enumerate(zip(ops, ans["steps"])):
        st = step["state"]
        pw = wmap(prev)
        nw = wmap(st)
        res = step["res"]
        name = op[0]
        tag = "step %d %s: " % (k, json.dumps(op))

        def placeable(w):
            return w in pw and pw[w]["st"] == "R"

        if name == "plan_deploy" and res.startswith("plan"):
            tasks = [t.split("@") for t in res.split(":", 1)[1].split("/") if t]
            for (l, aff, reps) in op[1]:
                pass
            for nm, w in tasks:
                nm, w = int(nm), int(w)
                if not (w in pw and pw[w]["available"]):
                    fails.append(tag + "new pipeline %s planned on w%d which is %s" % (pn(nm), w, "not registered" if w not in pw else "status %s run %d max %d" % (pw[w]["st"], pw[w]["run"], pw[w]["max"])))
                aff = next((a for (l, a, r) in op[1] if l == nm // 16), None)
                if aff is not None and aff in pw and pw[aff]["available"] and w != aff:
                    fails.append(tag + "pipeline %s is pinned to available worker w%d but planned on w%d" % (pn(nm), aff, w))
        if name == "deploy" and res.startswith("g"):
            gnew = int(res[1:])
            for g in st["groups"]:
                if g["g"] != gnew:
                    continue
                for p in g["pl"]:
                    w = p["w"]
                    if not (w in pw and pw[w]["available"]):
                        fails.append(tag + "new pipeline %s placed on w%d which is %s" % (pn(p["name"]), w, "not registered" if w not in pw else "status %s run %d max %d" % (pw[w]["st"], pw[w]["run"], pw[w]["max"])))
                    aff = next((a for (l, a, r) in op[1] if l == p["name"] // 16), None)
                    if aff is not None and aff in pw and pw[aff]["available"] and w != aff:
                        fails.append(tag + "pipeline %s is pinned to available worker w%d but placed on w%d" % (pn(p["name"]), aff, w))
        if name == "manual_migrate" and res == "b1":
            tgt = op[3]
            if not placeable(tgt):
                fails.append(tag + "migration of %s onto w%d which is %s" % (pn(op[1]), tgt, "not registered" if tgt not in pw else "status " + pw[tgt]["st"]))
        if name == "plan_migrate" and res.startswith("plan"):
            tgt = op[3]
            if not placeable(tgt):
                fails.append(tag + "migration of %s planned onto w%d which is %s" % (pn(op[1]), tgt, "not registered" if tgt not in pw else "status " + pw[tgt]["st"]))
        if name in ("migrate", "failover", "drain", "rebalance"):
            before = placements(prev)
            for key, p in placements(st).items():
                b = before.get(key)
                if b is not None and (b["w"], b["epoch"]) != (p["w"], p["epoch"]) and p["st"] == "R":
                    if not placeable(p["w"]) or (name in ("failover", "drain") and p["w"] == op[1]):
                        fails.append(tag + "pipeline %s of g%d migrated onto w%d which is %s" % (
                            pn(key[1]), key[0], p["w"], "not registered" if p["w"] not in pw else "status " + pw[p["w"]]["st"]))
        # failure detection
        if name == "sweep":
            marked = [int(x) for x in res.split(":", 1)[1].split(".") if x]
            for w, b in pw.items():
                if w not in nw:
                    fails.append(tag + "sweep removed w%d" % w)
                    continue
                should = b["st"] == "R" and b["age"] > timeout
                if should and (nw[w]["st"] != "U" or w not in marked):
                    fails.append(tag + "w%d ready with heartbeat age %d > timeout %d not marked unhealthy" % (w, b["age"], timeout))
                if not should and (nw[w]["st"] != b["st"] or w in marked):
                    fails.append(tag + "w%d (status %s, heartbeat age %d, timeout %d) changed to %s by the sweep" % (w, b["st"], b["age"], timeout, nw[w]["st"]))
        elif name != "set_status":
            for w, b in pw.items():
                if w in nw and b["st"] == "R" and nw[w]["st"] == "U":
                    fails.append(tag + "w%d marked unhealthy by an operation that is not a health sweep" % w)
        if name == "heartbeat" and res == "b1":
            w = op[1]
            if w in pw and w in nw:
                if pw[w]["st"] == "U" and nw[w]["st"] != "R":
                    fails.append(tag + "heartbeat from unhealthy w%d left it %s" % (w, nw[w]["st"]))
                if pw[w]["st"] in ("U", "R") and nw[w]["available"] != (nw[w]["run"] < nw[w]["max"]):
                    fails.append(tag + "w%d not available after its heartbeat" % w)
                if nw[w]["age"] != 0:
                    fails.append(tag + "heartbeat did not refresh w%d's heartbeat time (age %d)" % (w, nw[w]["age"]))
        prev = st
    return fails


# ---------------------------------------------------------------- generation
WORKERS = [1, 2, 3]


def gen_spec(rng, dup_bias=False):
    n = rng.range(1, 3)
    ls = rng.shuffle([1, 2, 3])[:n]
    spec = []
    for l in ls:
        aff = rng.choice(WORKERS + [4]) if rng.chance(1, 3) else None
        reps = rng.choice([0, 1, 1, 1, 2, 2, 3])
        spec.append([l, aff, reps])
    return spec


def names_of(spec):
    out = []
    for l, a, r in spec:
        c = max(r, 1)
        out += [16 * l] if c == 1 else [16 * l + k + 1 for k in range(c)]
    return out


class Gen:
    """Stateful random history generator. Keeps a light shadow (which plan slot is of which kind,
    how many groups exist, which names were deployed) only to aim the ops; correctness never
    depends on the shadow."""

    def __init__(self, rng, known_ops=False, dishonest=False, interleave=True, workers=WORKERS, crowded=False):
        self.rng = rng
        # crowded: every group deploys the same pipeline name pinned to one worker, deploys fail half of the time and
        # no worker leaves -- so Running and Failed copies of one name from different groups share a worker
        self.crowded = crowded
        self.ops = []
        self.plans = []        # kind per slot: ("D", ntasks) | ("T",) | ("M",)
        self.open = []         # uncommitted slots
        self.ngroups = 0
        self.names = []        # names seen in specs
        self.known_ops = known_ops
        self.dishonest = dishonest
        self.interleave = interleave
        self.workers = workers

    def w(self):
        return self.rng.choice(self.workers)

    def g(self):
        return self.rng.below(max(1, self.ngroups + (1 if self.rng.chance(1, 8) else 0)))

    def p(self):
        if self.names and not self.rng.chance(1, 10):
            return self.rng.choice(self.names)
        return self.rng.choice([16, 32, 33, 34, 48, 49])

    def outs(self, n):
        if self.crowded:
            return [self.rng.chance(1, 2) for _ in range(n)]
        return [not self.rng.chance(1, 4) for _ in range(n)]

    def register(self, w=None):
        w = w if w is not None else self.w()
        self.ops.append(["register", w, self.rng.choice([1, 2, 4]), self.rng.choice([1, 2, 3, 10, 10, 10]), 0 if not (self.dishonest and self.rng.chance(1, 4)) else self.rng.below(3)])

    def plan_deploy(self):
        spec = [[1, 1, 1]] if self.crowded and not self.rng.chance(1, 4) else gen_spec(self.rng)
        self.ops.append(["plan_deploy", spec])
        self.plans.append(("D", len(names_of(spec)), spec))
        self.open.append(len(self.plans) - 1)

    def commit(self, k):
        kind = self.plans[k]
        if kind[0] == "D":
            self.ops.append(["commit_deploy", k, self.outs(kind[1])])
            self.ngroups += 1
            self.names += names_of(kind[2])
        elif kind[0] == "T":
            self.ops.append(["commit_teardown", k])
        else:
            self.ops.append(["commit_migrate", k, not self.rng.chance(1, 5)])
        if k in self.open:
            self.open.remove(k)

    def random_op(self):
        r = self.rng
        x = r.below(100)
        if self.crowded:
            x = r.choice([35, 35, 55, 55, 55, 66, 75, 75, 22, 28])     # deploys, migrations, commits, a little clock
        if x < 8:
            self.register()
        elif x < 12:
            if self.known_ops or r.chance(1, 3):
                self.ops.append(["deregister", self.w()])
            else:
                self.ops.append(["heartbeat", self.w(), None])
        elif x < 20:
            self.ops.append(["heartbeat", self.w(), r.below(4) if self.dishonest and r.chance(1, 2) else None])
        elif x < 26:
            self.ops.append(["advance", r.range(1, 4)])
        elif x < 32:
            self.ops.append(["sweep"])
        elif x < 42:
            self.plan_deploy()
            if not self.interleave or r.chance(1, 2):
                self.commit(len(self.plans) - 1)
        elif x < 50:
            self.ops.append(["plan_teardown", self.g()])
            self.plans.append(("T",))
            self.open.append(len(self.plans) - 1)
            if not self.interleave or r.chance(1, 2):
                self.commit(len(self.plans) - 1)
        elif x < 62:
            self.ops.append(["plan_migrate", self.p(), self.g(), self.w()])
            self.plans.append(("M",))
            self.open.append(len(self.plans) - 1)
            if not self.interleave or r.chance(1, 2):
                self.commit(len(self.plans) - 1)
        elif x < 72:
            if self.open:
                self.commit(r.choice(self.open))
            else:
                self.ops.append(["sweep"])
        elif x < 78:
            self.ops.append(["migrate", self.p(), self.g(), self.w(), not r.chance(1, 5)])
        elif x < 86:
            self.ops.append(["failover", self.w(), self.outs(4)])
        elif x < 92:
            if self.known_ops or r.chance(1, 2):
                self.ops.append(["drain", self.w(), self.outs(4) if not r.chance(1, 2) else [True] * 6])
            else:
                self.ops.append(["failover", self.w(), self.outs(4)])
        else:
            self.ops.append(["rebalance", self.outs(4)])

    def history(self, n):
        r = self.rng
        for w in r.shuffle(self.workers)[: r.range(2, len(self.workers))]:
            self.register(w)
        for _ in range(r.range(1, 2)):
            self.plan_deploy()
            self.commit(len(self.plans) - 1)
        for _ in range(n):
            self.random_op()
        # finish some in-flight plans
        for k in list(self.open):
            if r.chance(2, 3):
                self.commit(k)
        return self.ops


def kinds(ops):
    return [o[0] for o in ops]


# ---------------------------------------------------------------- running
def build_all(run, targets, audit_file, allow=()):
    hits = coqtools.banned_scan()
    run.oblige("no Admitted/admit/Axiom/Parameter/guard-off anywhere in coq/", not hits, str(hits[:5]))
    ok, lg = coqtools.make(targets)
    run.oblige("make " + " ".join(targets), ok, lg[-3000:])
    if ok and audit_file:
        a = coqtools.audit(audit_file, allow_axioms=allow)
        run.axioms |= a["axioms"]
        run.oblige("audit %s: %d Check pins, %d/%d Print Assumptions, axioms allowed" % (audit_file, a["n_pins"], a["n_print"], a["n_expected"]),
                   a["ok"], a["log"] + str(a["bad_axioms"]))
        run.extra["theorems_audited"] = a["n_print"]
    run.checker_cmd = "coqc 8.16.1 (full .vo) %s; coqc coq/audit/%s" % (" ".join(targets), audit_file)
    okm, lgm = coqtools.make(["theories/Coord/Run.vo"])
    if not okm:
        run.tie_broken("make theories/Coord/Run.vo", lgm[-3000:])
    okb, bindir, blog = harness.build("vp-coord")
    if not okb:
        run.tie_broken("harness build vp-coord", blog[-3000:])
        return None
    return os.path.join(bindir, "vp-coord")


def run_impl(binpath, cases):
    """cases: list of (timeout, ops)."""
    return harness.run_jsonl(binpath, [{"kind": "coord", "timeout": t, "ops": o} for t, o in cases])


def run_model(run, tag, cases, answers):
    exprs = []
    idx = []
    for k, ((t, ops), ans) in enumerate(zip(cases, answers)):
        if "steps" in ans:
            exprs.append(g_case(t, ops, ans["steps"]))
            idx.append(k)
    out = [None] * len(cases)
    try:
        res = coqtools.coq_eval(tag, IMPORTS, exprs, shard=max(10, min(120, len(exprs) // 16 + 1)))
        for k, r in zip(idx, res):
            out[k] = r
    except RuntimeError as e:
        run.tie_broken("model evaluation (coqc cases)", str(e))
    return out


def first_diff(si, sm):
    a = si.split("|")
    b = sm.split("|")
    for k, (x, y) in enumerate(zip(a, b)):
        if x != y:
            return "step %d:\n impl  %s\n model %s" % (k, x, y)
    return "lengths differ: impl %d steps, model %d" % (len(a), len(b))


def shrink_ops(ops, still_fails):
    """Greedy removal of single ops (plan slots are renumbered)."""
    def renumber(ops, i):
        # removing op i: if it is a plan op, later commit indices above its slot shift down; commits of that slot are dropped
        slot = sum(1 for o in ops[:i] if o[0].startswith("plan_"))
        is_plan = ops[i][0].startswith("plan_")
        out = []
        for j, o in enumerate(ops):
            if j == i:
                continue
            if is_plan and o[0].startswith("commit_"):
                if o[1] == slot:
                    continue
                if o[1] > slot:
                    o = [o[0], o[1] - 1] + o[2:]
            out.append(o)
        return out
    changed = True
    while changed:
        changed = False
        for i in range(len(ops) - 1, -1, -1):
            cand = renumber(ops, i)
            if cand and still_fails(cand):
                ops = cand
                changed = True
                break
    return ops


# ---------------------------------------------------------------- REST mode (api.rs handlers)
def to_api_ops(ops):
    """Turn a non-interleaved history (every plan immediately followed by its commit) into REST-level
    operations: deploy / teardown / manual_migrate are single requests."""
    out = []
    i = 0
    while i < len(ops):
        o = ops[i]
        nxt = ops[i + 1] if i + 1 < len(ops) else None
        if o[0] == "plan_deploy" and nxt and nxt[0] == "commit_deploy":
            out.append(["deploy", o[1], nxt[2]])
            i += 2
        elif o[0] == "plan_teardown" and nxt and nxt[0] == "commit_teardown":
            out.append(["teardown", o[1]])
            i += 2
        elif o[0] == "plan_migrate" and nxt and nxt[0] == "commit_migrate":
            out.append(["manual_migrate", o[1] // 16 * 16, o[2], o[3], nxt[2]])
            i += 2
        elif o[0] == "migrate":
            out.append(["manual_migrate", o[1] // 16 * 16, o[2], o[3], o[4]])
            i += 1
        elif o[0].startswith("plan_") or o[0].startswith("commit_"):
            i += 1          # a stray phase: not expressible as one request
        else:
            out.append(o)
            i += 1
    return out


def api_expand(ops):
    """REST-level ops -> (model ops, for each REST op the indices of its model ops)."""
    mops = []
    idx = []
    nplans = 0
    for o in ops:
        if o[0] == "deploy":
            mops += [["plan_deploy", o[1]], ["commit_deploy", nplans, o[2]]]
            idx.append((len(mops) - 2, len(mops) - 1))
            nplans += 1
        elif o[0] == "teardown":
            mops += [["plan_teardown", o[1]], ["commit_teardown", nplans]]
            idx.append((len(mops) - 2, len(mops) - 1))
            nplans += 1
        elif o[0] == "manual_migrate":
            mops += [["plan_migrate", o[1], o[2], o[3]], ["commit_migrate", nplans, o[4]]]
            idx.append((len(mops) - 2, len(mops) - 1))
            nplans += 1
        else:
            mops.append(o)
            idx.append((len(mops) - 1,))
    return mops, idx


def run_impl_api(binpath, cases):
    return harness.run_jsonl(binpath, [{"kind": "coord", "via": "api", "timeout": t, "ops": o} for t, o in cases])


def run_model_api(run, tag, cases, answers):
    """Model strings aligned with the REST-level steps (a request = plan phase + commit phase of the model)."""
    exprs = []
    meta = []
    for k, ((t, ops), ans) in enumerate(zip(cases, answers)):
        if "steps" not in ans:
            continue
        mops, idx = api_expand(ops)
        steps = []
        for ix, st in zip(idx, ans["steps"]):
            steps += [st] * len(ix)
        exprs.append(g_case(t, mops, steps))
        meta.append((k, idx))
    out = [None] * len(cases)
    try:
        res = coqtools.coq_eval(tag, IMPORTS, exprs, shard=max(10, min(120, len(exprs) // 16 + 1)))
    except RuntimeError as e:
        run.tie_broken("model evaluation (coqc cases)", str(e))
        return out
    for (k, idx), r in zip(meta, res):
        msteps = r.split("|") if r else []
        view = []
        for ix in idx:
            last = msteps[ix[-1]]
            if len(ix) == 2:
                first_res = msteps[ix[0]].split("~", 1)[0]
                if first_res.startswith("err"):
                    last = first_res + "~" + last.split("~", 1)[1]
            view.append(last)
        out[k] = "|".join(view)
    return out
