"""C24 — watermarks never regress per source; late data is handled as configured."""
import json
import os

from vplib import coqtools, harness

META = {
    "technique": "Coq proof (per-step and whole-sequence invariants of the watermark tracker and the late-data gate) + model/impl differential on PerSourceWatermarkTracker and on Engine programs with .watermark/.allowed_lateness",
    "level_text": 'Theorems C24_* in coq/theories/Watermark/Props.v about the executable model of PerSourceWatermarkTracker and of the late-data gate of Engine::process_inner: per-source watermarks never decrease over any op sequence, the effective watermark is the minimum over the sources that have one, and for every program and history an event is dropped only if ts < wm and ts < wm - lateness for every consuming stream; model tied to watermark.rs / engine/mod.rs by comparing the full tracker state after every op and the delivered streams per event',
    "level_note": 'Side condition: a name is registered again only while it has no watermark (register_source replaces the entry = a new source); such sequences are compared but not judged. Streams without .allowed_lateness count as lateness 0. Diversion to a side output is unreachable (side_output_stream always None), only dropping is modelled. Tracker state is read through checkpoint() in whole seconds. Trusted: Coq kernel + vm_compute, hand-written model (differential tie), harness, Python oracle',
    "design_ref": "DESIGN.md §7 C24",
}

IMPORTS = ("From Coq Require Import String.\nFrom VP Require Import Base.Tactics Base.Render Watermark.Model Watermark.Run.\n"
           "Open Scope string_scope.\nOpen Scope Z_scope.\n")


def name(i):
    return chr(65 + i)


# ---------------------------------------------------------------- rendering
def g_oz(x):
    return "None" if x is None else "(Some (%d))" % x


def g_case(c):
    if c["api"] == "tracker":
        m = {"reg": "Reg", "obs": "Obs", "adv": "Adv"}
        return "tracker_case [%s]" % "; ".join("%s %d (%d)" % (m[o[0]], o[1], o[2]) for o in c["ops"])
    m = {"ev": "Ev", "extwm": "ExtWm", "reg": "EReg"}
    streams = "; ".join("mkCfg %d %s %s" % (s["src"], g_oz(s["wm"]), g_oz(s["late"])) for s in c["streams"])
    return "engine_case [%s] [%s]" % (streams, "; ".join("%s %d (%d)" % (m[o[0]], o[1], o[2]) for o in c["ops"]))


def vpl_program(c):
    out = []
    for i, s in enumerate(c["streams"]):
        out.append("stream S%d = %s\n" % (i, name(s["src"])))
        if s["wm"] is not None:
            out.append("    .watermark(out_of_order: %ds)\n" % s["wm"])
        if s["late"] is not None:
            out.append("    .allowed_lateness(%ds)\n" % s["late"])
        out.append("    .emit(id: id)\n")
    return "".join(out)


def request(c):
    if c["api"] == "tracker":
        return {"kind": "tracker", "ops": [[o[0], name(o[1]), o[2]] for o in c["ops"]]}
    ops = []
    for k, o in enumerate(c["ops"]):
        if o[0] == "ev":
            ops.append(["ev", name(o[1]), o[2], k])
        else:
            ops.append([o[0], name(o[1]), o[2]])
    return {"kind": "engine", "program": vpl_program(c), "ops": ops}


def s_oz(x):
    return "n" if x is None else str(x)


def src_str(src):
    if src == "off":
        return "off"
    return ",".join("%d:%s:%s:%d" % (ord(n) - 65, s_oz(w), s_oz(m), o) for n, w, m, o in src)


def impl_str(c, ans):
    if "panic" in ans:
        return "PANIC " + ans["panic"][:80]
    if "error" in ans:
        return "ERROR " + ans["error"][:200]
    parts = []
    for st in ans["steps"]:
        if c["api"] == "tracker":
            parts.append("%s|%s" % (s_oz(st["eff"]), src_str(st["src"])))
        else:
            head = "off" if st["src"] == "off" else "%s|%s" % (s_oz(st["eff"]), src_str(st["src"]))
            outs = sorted(int(o[0][1:]) if o[0].startswith("S") and o[0][1:].isdigit() else 99 for o in st["out"])
            parts.append(head + "|" + ",".join(str(x) for x in outs))
    return ";".join(parts)


# ------------------------------------------------------------------- oracle
def lower(a, b):
    """a < b on option-ordered watermarks (None below everything)"""
    if b is None:
        return False
    return a is None or a < b


def oracle(c, ans):
    """Property C24 judged on the implementation's reported states / outputs."""
    if "panic" in ans:
        return [("panic", "implementation panicked: " + ans["panic"][:200])]
    if "error" in ans:
        return [("error", ans["error"][:200])]
    if c.get("rereg"):
        return []     # a source registered again is a new source; correspondence only
    fails = []
    prev = {}
    prev_eff = None
    tracking = False
    for k, (op, st) in enumerate(zip(c["ops"], ans["steps"])):
        src = st["src"]
        if src == "off":
            cur = {}
        else:
            tracking = True
            cur = {n: w for n, w, _, _ in src}
        # 1. per-source monotonicity
        for n, w in cur.items():
            if n in prev and lower(w, prev[n]):
                fails.append(("monotone", "step %d %s: watermark of source %s went from %s to %s" % (k, op, n, prev[n], w)))
        for n in prev:
            if n not in cur:
                fails.append(("monotone", "step %d %s: source %s disappeared" % (k, op, n)))
        # 2. effective = min over the sources that have a watermark
        have = [w for w in cur.values() if w is not None]
        if have and st["eff"] != min(have):
            fails.append(("effective", "step %d %s: effective watermark %s, minimum over sources with a watermark is %s (sources %s)" % (
                k, op, st["eff"], min(have), src)))
        # 3. late-data decision
        if c["api"] == "engine" and op[0] == "ev":
            cons = [(i, s) for i, s in enumerate(c["streams"]) if s["src"] == op[1]]
            got = sorted(o[0] for o in st["out"])
            if any(o[1] != k for o in st["out"]):
                fails.append(("late", "step %d: outputs %s do not belong to this event" % (k, st["out"])))
            if cons and not got:
                # dropped (the only reason a routed event produces no output in these programs)
                wm = prev_eff
                ts = op[2]
                if wm is None:
                    fails.append(("late", "step %d: event %s@%d dropped although there is no effective watermark" % (k, name(op[1]), ts)))
                else:
                    for i, s in cons:
                        lat = s["late"] if s["late"] is not None else 0
                        if not ts < wm - lat:
                            fails.append(("late", "step %d: event %s@%d dropped with effective watermark %d, but consumer S%d allows lateness %d (threshold %d)" % (
                                k, name(op[1]), ts, wm, i, lat, wm - lat)))
            elif got and got != sorted("S%d" % i for i, _ in cons):
                fails.append(("late", "step %d: event delivered to %s, consumers are %s" % (k, got, [i for i, _ in cons])))
        prev = cur
        prev_eff = st["eff"]
    return fails


# ---------------------------------------------------------------- generation
def gen_tracker(rng, maxlen, rereg):
    nsrc = rng.range(1, 4)
    ops = []
    registered = set()
    now = rng.range(0, 5)
    for n in range(nsrc):
        if rng.chance(2, 3):
            ops.append(["reg", n, rng.choice([0, 0, 1, 2, 3, 5])])
            registered.add(n)
    for _ in range(rng.range(1, maxlen)):
        r = rng.below(100)
        n = rng.below(nsrc + (1 if rng.chance(1, 6) else 0))
        if r < 70:
            now += rng.choice([0, 0, 1, 1, 2, 4])
            ts = now - rng.choice([0, 0, 0, 1, 2, 3, 6])
            ops.append(["obs", n, ts])
            registered.add(n)
        elif r < 90:
            ops.append(["adv", n, now + rng.choice([-4, -2, -1, 0, 1, 3])])
        else:
            if n in registered and not rereg:
                continue
            ops.append(["reg", n, rng.choice([0, 1, 2])])
            registered.add(n)
    c = {"api": "tracker", "ops": ops}
    seen = set()
    for o in ops:
        if o[0] == "reg" and o[1] in seen:
            c["rereg"] = True
        if o[0] in ("reg", "obs"):
            seen.add(o[1])
    return c


def gen_engine(rng, maxlen):
    ntypes = rng.range(1, 3)
    streams = []
    for _ in range(rng.range(1, 4)):
        streams.append({"src": rng.below(ntypes),
                        "wm": rng.choice([None, 0, 1, 2, 3]) if rng.chance(3, 4) else None,
                        "late": rng.choice([None, None, 0, 1, 2, 4])})
    ops = []
    now = rng.range(0, 4)
    if rng.chance(1, 8):
        ops.append(["reg", 25, 0])
    for _ in range(rng.range(1, maxlen)):
        r = rng.below(100)
        if r < 92:
            ty = rng.below(ntypes + (1 if rng.chance(1, 5) else 0))
            now += rng.choice([0, 0, 1, 1, 2, 3])
            ts = now - rng.choice([0, 0, 1, 2, 3, 4, 5, 6, 7, 8])
            ops.append(["ev", ty, ts])
        else:
            ops.append(["extwm", rng.choice([25, 0, 1]), now + rng.choice([-3, -1, 0, 2])])
    c = {"api": "engine", "streams": streams, "ops": ops}
    return c


def directed():
    """the shapes the property text names"""
    cs = []
    # lateness boundary: wm = 8 (A max 10, ooo 2), lateness 3: ts 5 allowed, ts 4 dropped; B unconfigured consumer
    cs.append({"api": "engine", "streams": [{"src": 0, "wm": 2, "late": 3}, {"src": 1, "wm": None, "late": None}, {"src": 0, "wm": None, "late": None}],
               "ops": [["ev", 0, 10], ["ev", 1, 5], ["ev", 0, 5], ["ev", 0, 4], ["ev", 1, 20], ["ev", 1, 6], ["ev", 0, 6], ["ev", 0, 8], ["ev", 0, 7], ["ev", 2, 1]]})
    # no lateness configured anywhere: nothing is ever dropped
    cs.append({"api": "engine", "streams": [{"src": 0, "wm": 2, "late": None}, {"src": 1, "wm": None, "late": None}],
               "ops": [["ev", 0, 10], ["ev", 1, 5], ["ev", 0, 5], ["ev", 0, 4]]})
    # two sources, min, late first watermark of a new source lowers the effective watermark
    cs.append({"api": "tracker", "ops": [["reg", 0, 2], ["reg", 1, 0], ["obs", 0, 10], ["obs", 1, 5], ["obs", 2, 3], ["adv", 0, 9], ["adv", 5, 4], ["obs", 0, 7], ["obs", 1, 6]]})
    cs.append({"api": "tracker", "rereg": True, "ops": [["reg", 0, 2], ["obs", 0, 10], ["obs", 1, 12], ["reg", 0, 1], ["obs", 1, 13], ["obs", 0, 4]]})
    return cs


def shrink(case, still_fails):
    ops = list(case["ops"])
    changed = True
    while changed:
        changed = False
        for i in range(len(ops) - 1, -1, -1):
            cand = dict(case, ops=ops[:i] + ops[i + 1:])
            if still_fails(cand):
                ops = cand["ops"]
                changed = True
                break
    case = dict(case, ops=ops)
    if case["api"] == "engine":
        for i in range(len(case["streams"]) - 1, -1, -1):
            if len(case["streams"]) > 1:
                cand = dict(case, streams=case["streams"][:i] + case["streams"][i + 1:])
                if still_fails(cand):
                    case = cand
    return case


def check(run):
    run.rule = ("op sequences register/observe/advance over 1-5 sources on PerSourceWatermarkTracker and event sequences (1-4 event types, disorder 0-8 ticks, "
                "external watermark advances) on Engine programs with 1-4 streams, out_of_order 0-3 and allowed_lateness none/0-4 (seeded); "
                "non-trivial = >= 2 sources with a watermark, or an engine run in which at least one event is dropped and one late event is admitted; "
                "distinct = distinct case")
    run.trusted += ["Coq 8.16.1 kernel + vm_compute",
                    "hand-written model coq/theories/Watermark/Model.v tied by differential run (effective watermark, every source's watermark / max timestamp / bound after every op, delivered streams per event)",
                    "Rust harness harness/crates/watermark (reads tracker state through checkpoint(), Engine state through create_checkpoint()), Python driver checks/C24.py",
                    "checkpoint() reports milliseconds: all generated instants are whole seconds, so nothing is rounded",
                    "FxHashMap order of sources not modelled (min is order-independent; states compared sorted by name)",
                    "side-output diversion is unreachable from VPL (side_output_stream is always None): only dropping is exercised"]
    run.assumptions += ["a source registered again under the same name is a new source (register_source replaces the entry); such sequences are compared with the model but not judged for monotonicity",
                        "streams without .allowed_lateness count as lateness 0 in 'the allowed lateness of the streams consuming it'"]
    hits = coqtools.banned_scan()
    run.oblige("no Admitted/admit/Axiom/Parameter/guard-off anywhere in coq/", not hits, str(hits[:5]))
    targets = ["theories/Watermark/Props.vo"]
    ok, lg = coqtools.make(targets)
    run.oblige("make " + " ".join(targets), ok, lg[-3000:])
    if ok:
        a = coqtools.audit("C24.v")
        run.axioms |= a["axioms"]
        run.oblige("audit C24.v: %d Check pins, %d/%d Print Assumptions, axioms allowed" % (a["n_pins"], a["n_print"], a["n_expected"]),
                   a["ok"], a["log"] + str(a["bad_axioms"]))
        run.extra["theorems_audited"] = a["n_print"]
    run.checker_cmd = "coqc 8.16.1 (full .vo) theories/Watermark/Props.vo; coqc coq/audit/C24.v"
    okm, lgm = coqtools.make(["theories/Watermark/Run.vo"])
    if not okm:
        run.tie_broken("model build Watermark/Run.vo", lgm[-2000:])
    okb, bindir, blog = harness.build("vp-watermark")
    if not okb:
        run.tie_broken("harness build vp-watermark", blog[-3000:])
        return
    binpath = os.path.join(bindir, "vp-watermark")
    rng = run.rng
    cases = directed()
    n = 500 if run.tier == "quick" else 15000
    for i in range(n):
        if i % 5 < 2:
            cases.append(gen_tracker(rng, 12 if i % 2 else 20, rereg=(i % 10 == 0)))
        else:
            cases.append(gen_engine(rng, 14 if i % 3 else 24))
    answers = harness.run_jsonl(binpath, [request(c) for c in cases])
    impl = [impl_str(c, a) for c, a in zip(cases, answers)]
    try:
        model = coqtools.coq_eval("C24", IMPORTS, [g_case(c) for c in cases], shard=min(600, max(100, len(cases) // 6 + 1)))
    except RuntimeError as e:
        run.tie_broken("model evaluation (coqc cases)", str(e))
        model = [None] * len(cases)
    n_or = n_co = 0
    for k, (c, ans, si, sm) in enumerate(zip(cases, answers, impl, model)):
        steps = ans.get("steps", [])
        nontrivial = None
        if c["api"] == "tracker":
            if any(isinstance(st["src"], list) and sum(1 for s in st["src"] if s[1] is not None) >= 2 for st in steps):
                nontrivial = json.dumps(c, sort_keys=True)
        else:
            dropped = admitted_late = 0
            prev_eff = None
            for op, st in zip(c["ops"], steps):
                if op[0] == "ev" and any(s["src"] == op[1] for s in c["streams"]):
                    if not st["out"]:
                        dropped += 1
                    elif prev_eff is not None and op[2] < prev_eff:
                        admitted_late += 1
                prev_eff = st["eff"]
            run.count("engine_dropped", dropped)
            run.count("engine_late_admitted", admitted_late)
            if dropped and admitted_late:
                nontrivial = json.dumps(c, sort_keys=True)
        run.case(nontrivial, sample={"case": c, "impl": si[:300]} if k < 3 else None)
        run.count("api=" + c["api"])
        run.count("len=%02d" % min(len(c["ops"]), 24))
        if c.get("rereg"):
            run.count("reregistration(correspondence only)")
        for o in c["ops"]:
            run.count("op=" + o[0])
        if c["api"] == "engine":
            run.count("streams=%d" % len(c["streams"]))
            run.count("late_cfgs=%d" % sum(1 for s in c["streams"] if s["late"] is not None))
            run.count("wm_cfgs=%d" % sum(1 for s in c["streams"] if s["wm"] is not None))
        fails = oracle(c, ans)
        if fails:
            n_or += 1
            run.count("oracle_fail")
            if n_or <= 3:
                def still(cc):
                    return bool(oracle(cc, harness.run_jsonl(binpath, [request(cc)])[0]))
                small = shrink(c, still)
                a2 = harness.run_jsonl(binpath, [request(small)])[0]
                f2 = oracle(small, a2)
                run.violation("; ".join(m for _, m in f2)[:700],
                              {"case": small, "program": vpl_program(small) if small["api"] == "engine" else None,
                               "implementation": impl_str(small, a2), "contradicts": "theorems C24_* in coq/theories/Watermark/Props.v"})
        if sm is not None and si != sm:
            n_co += 1
            if n_co <= 3:
                run.tie_broken("correspondence Watermark/Model.v vs crates/varpulis-runtime watermark/engine gate on %s" % json.dumps(c),
                               "model and implementation differ:\n impl  %s\n model %s" % (si, sm))
    run.extra["oracle_failures"] = n_or
    run.extra["disagreements"] = n_co


def replay(run, path):
    r = json.load(open(path))["replay"]
    ok, bindir, lg = harness.build("vp-watermark")
    c = r["case"]
    ans = harness.run_jsonl(os.path.join(bindir, "vp-watermark"), [request(c)])[0]
    fails = oracle(c, ans)
    run.case(("replay",), {"case": c, "impl": impl_str(c, ans)})
    run.case(("replay2",))
    if fails:
        run.violation("; ".join(m for _, m in fails)[:700], {"case": c, "implementation": impl_str(c, ans)})
