"""C25 — trend aggregation counts are correct and unaffected by sharing."""
import itertools
import json
import os
import re

from vplib import coqtools, harness

BIN = "vp-trend"
META = {
    "technique": "Coq: specification of trend counts by explicit enumeration, GRETA-style DP proved equal to it, faithful executable models of "
                 "GretaExecutor and HamletAggregator with machine-checked refutations of the property on minimal streams (known findings) and the "
                 "theorem for the complement class; model/implementation differential + brute-force trend enumeration as oracle on the "
                 "GretaExecutor, the HamletAggregator and Engine .trend_aggregate() programs",
    "design_ref": "DESIGN.md §7 C25",
    "level_text": "proof",
    "level_note": "The property FAILS on the unchanged tree (algorithmic, recorded as known findings with input classes): Hamlet's counts are wrong as "
                  "soon as an event of a Kleene type arrives and differ between shared and non-shared mode; GretaExecutor's final counts accumulate over "
                  "process() calls and its predecessor edges are shared by all queries; the Engine's shared aggregator never recognises an event. "
                  "Proved: dp = enumeration (C25_dp_spec), the refutation witnesses on the models that the check runs, and C25_hamlet_correct for "
                  "streams outside the finding class. Modelled, not proved equal to the code: GretaExecutor / HamletAggregator (tied by the differential "
                  "run); the optimizer's re-evaluation and u64 saturation are outside the model (cannot trigger on streams of <= 12 events).",
}
IMPORTS = ("From Coq Require Import String.\nFrom VP Require Import Base.Tactics Base.Render Trend.Model Trend.Run.\n"
           "Open Scope string_scope.\nOpen Scope N_scope.\n")
ALPHA = "ABCD"


# ---------------------------------------------------------------- oracle: brute-force trend enumeration
def trends(q, stream):
    """number of index subsets of the stream whose events, in order, spell T0 T1+ .. (Kleene plus at q['kleene'])"""
    pat = re.compile("^" + "".join("(?:%s)%s" % (t, "+" if j in q["kleene"] else "") for j, t in enumerate(q["types"])) + "$")
    n = 0
    for r in range(1, len(stream) + 1):
        for idx in itertools.combinations(range(len(stream)), r):
            if pat.match("".join(stream[i] for i in idx)):
                n += 1
    return n


_tc = {}


def T(q, stream):
    k = (tuple(q["types"]), tuple(q["kleene"]), "".join(stream))
    if k not in _tc:
        _tc[k] = trends(q, stream)
    return _tc[k]


# ---------------------------------------------------------------- finding classes: predicates on the input
def kleene_types(q):
    return {q["types"][k] for k in q["kleene"]}


def pred_types(q, t):
    if t not in q["types"]:
        return set()
    pos = q["types"].index(t)
    return ({q["types"][pos - 1]} if pos > 0 else set()) | ({t} if t in kleene_types(q) else set())


def cls_hamlet_count(qs, i, stream):
    return any(t in kleene_types(qs[i]) for t in stream)


def cls_hamlet_sharing(qs, i, stream):
    return any(j != i and (kleene_types(qs[j]) & kleene_types(qs[i]) & set(stream)) for j in range(len(qs)))


def cls_greta_cumulative(qs, i, stream):
    known = [t for t in stream if any(t in q["types"] for q in qs)]
    return len(known) >= 2 and T(qs[i], known[:-1]) > 0


def cls_greta_edges(qs, i, stream):
    return any(j != i and any(pred_types(qs[j], t) - pred_types(qs[i], t) for t in set(stream) & set(qs[i]["types"])) for j in range(len(qs)))


def cls_hamlet_boundaries(qs, i, stream):
    """an event of a type that only other queries know lies between two events of a Kleene type of query i"""
    mine = set(qs[i]["types"])
    others = {t for j, q in enumerate(qs) if j != i for t in q["types"]} - mine
    for t in kleene_types(qs[i]):
        idx = [k for k, e in enumerate(stream) if e == t]
        if idx and any(stream[k] in others for k in range(idx[0], idx[-1])):
            return True
    return False


def cls_greta_cumulative_sharing(qs, i, stream):
    """an event that only other queries know arrives after a trend of query i is complete: it re-adds the end counts"""
    mine = set(qs[i]["types"])
    others = {t for j, q in enumerate(qs) if j != i for t in q["types"]} - mine
    own = []
    for e in stream:
        if e in others and T(qs[i], own) > 0:
            return True
        if e in mine:
            own.append(e)
    return False


def engine_group_key(q):
    # engine/mod.rs groups streams by the sorted names "type_<index of the Kleene type in the stream's own template>"
    return tuple(sorted("type_%d" % k for k in q["kleene"]))


def cls_engine_silent(qs, i, stream):
    """another stream of the program has the same non-empty set of Kleene positions (the harness writes `all` exactly
    at the query's Kleene positions, the source included, so the positions are those of the VPL program)"""
    key = engine_group_key(qs[i])
    return bool(key) and any(j != i and engine_group_key(qs[j]) == key for j in range(len(qs)))


# ---------------------------------------------------------------- generation
def gen_query(rng):
    m = rng.choice([2, 2, 3, 3, 3])
    types = rng.shuffle(list(ALPHA))[:m]
    nk = rng.choice([1, 1, 1, 2]) if m == 3 else 1
    positions = list(range(m)) if rng.chance(1, 6) else list(range(1, m))      # Kleene on the first element is rare
    kleene = sorted(rng.shuffle(positions)[:nk])
    return {"types": types, "kleene": kleene}


def gen_queries(rng):
    n = rng.choice([1, 1, 2, 2, 3, 4])
    qs = [gen_query(rng)]
    while len(qs) < n:
        if rng.chance(2, 3):
            # overlapping pattern: share a Kleene type (and sometimes everything but the first type) with an earlier query
            base = rng.choice(qs)
            q = {"types": list(base["types"]), "kleene": list(base["kleene"])}
            others = [c for c in ALPHA if c not in q["types"]]
            k = rng.below(len(q["types"]))
            if others and k not in q["kleene"]:
                q["types"][k] = rng.choice(others)
            elif others and rng.chance(1, 2) and len(q["types"]) == 2:
                q["types"].append(rng.choice(others))
        else:
            q = gen_query(rng)
        if q not in qs:
            qs.append(q)
    return qs


def gen_stream(rng, qs):
    used = sorted({t for q in qs for t in q["types"]})
    n = rng.range(1, 12)
    out = []
    while len(out) < n:
        t = rng.choice(used + ["Z"]) if rng.chance(1, 12) else rng.choice(used)
        burst = rng.choice([1, 1, 2, 3, 4]) if any(t in kleene_types(q) for q in qs) else rng.choice([1, 1, 2])
        out += [t] * burst
    return out[:n]


CORPUS = [
    ([{"types": ["A", "B"], "kleene": [1]}], list("AB")),                    # Hamlet flush 3, one trend
    ([{"types": ["A", "B"], "kleene": [1]}], list("ABB")),                   # GRETA 4 (1 + 3), Hamlet 5, three trends
    ([{"types": ["A", "B"], "kleene": [1]}, {"types": ["C", "B"], "kleene": [1]}], list("ABB")),   # sharing changes q0 (5 -> 3) and gives q1 a trend
    ([{"types": ["A", "B", "C"], "kleene": [1]}], list("ABC")),              # incremental report 2, one trend
    ([{"types": ["A", "B"], "kleene": [1]}, {"types": ["B", "A"], "kleene": [1]}], list("ABAB")),  # GRETA: edges of one query feed the other (C25_greta_sharing_refuted)
    ([{"types": ["A", "B"], "kleene": [1]}], list("BAZ")),                   # no trend, nothing reported
    ([{"types": ["C", "B"], "kleene": [1]}, {"types": ["A", "C"], "kleene": [1]}], list("CBBAB")),
    ([{"types": ["A", "D", "B"], "kleene": [0, 1]}, {"types": ["A", "D", "C"], "kleene": [0, 1]}, {"types": ["D", "B", "C"], "kleene": [1]}], list("DDDBBCCAADB")),  # Kleene on the source: `all A`   # A splits the B burst only next to the second query
]


def g_query(q):
    return "{| q_types := [%s]; q_kleene := [%s] |}" % (";".join(str(ord(t)) for t in q["types"]), ";".join("%d%%nat" % k for k in q["kleene"]))


def render_impl(qs, h, g):
    nq = len(qs)

    def per_q(pairs, none):
        d = {int(p[0]): p[1] for p in pairs}
        return ",".join(d.get(i, none) for i in range(nq))
    return ("/".join(per_q(st, "0") for st in g["steps"]), per_q(g["flush"], "0"),
            "/".join(per_q(st, "-") for st in h["steps"]), per_q(h["flush"], "0"))


def check(run):
    run.rule = ("1-4 concurrent queries over 2-3 of the event types A-D (pairwise distinct within a query), one or two Kleene-plus steps (first element "
                "rarely), later queries mostly derived from earlier ones so that Kleene sub-patterns overlap; bursty streams of 1-12 events over the "
                "queries' types (plus an unknown type); for each case the HamletAggregator and the GretaExecutor run with all queries and with each "
                "query alone, and the Engine runs the VPL programs; oracle = brute-force enumeration of index subsets; non-trivial = some query has "
                ">= 2 trends; distinct = distinct (queries, stream)")
    run.trusted += ["Coq 8.16.1 kernel + vm_compute",
                    "hand-written models coq/theories/Trend/Model.v of GretaExecutor and HamletAggregator tied by differential run (per-event reports and flush values compared verbatim)",
                    "Hamlet optimizer re-evaluation and u64 saturation are outside the model (unreachable on streams <= 12 events; a disagreement would show as a broken tie)",
                    "Rust harness harness/crates/trend (template built as engine/mod.rs builds it for one stream), Python driver checks/C25.py (generators, brute-force oracle, finding-class predicates)"]
    run.assumptions += ["queries have pairwise distinct event types (pattern membership is then unambiguous)"]
    coqtools.prove(run, ["theories/Trend/Props.vo", "theories/Trend/Run.vo"], "C25.v")
    okb, bindir, blog = harness.build(BIN)
    if not okb:
        run.tie_broken("harness build " + BIN, blog[-3000:])
        return
    binpath = os.path.join(bindir, BIN)
    rng = run.rng
    n = 170 if run.tier == "quick" else 6000
    cases = list(CORPUS) + [(qs, gen_stream(rng, qs)) for qs in (gen_queries(rng) for _ in range(n))]
    if run.tier == "thorough":
        # exhaustive small scope: one query A B+ / A B+ C, all streams over its types up to length 7
        for q in ({"types": ["A", "B"], "kleene": [1]}, {"types": ["A", "B", "C"], "kleene": [1]}):
            for ln in range(1, 8):
                for s in itertools.product(q["types"], repeat=ln):
                    cases.append(([q], list(s)))
    reqs = []
    for qs, es in cases:
        reqs.append({"kind": "hamlet", "queries": qs, "stream": es, "incremental": True})
        reqs.append({"kind": "greta", "queries": qs, "stream": es})
        reqs.append({"kind": "engine", "queries": qs, "stream": es})
        for q in qs if len(qs) > 1 else []:
            reqs.append({"kind": "hamlet", "queries": [q], "stream": es, "incremental": True})
            reqs.append({"kind": "greta", "queries": [q], "stream": es})
            reqs.append({"kind": "engine", "queries": [q], "stream": es})
    answers = harness.run_jsonl(binpath, reqs, timeout=3000)
    it = iter(answers)
    exprs, impl = [], []
    seen = {}

    def report(kind, what, qs, es, i, classes, observed):
        key = (kind, tuple(classes))
        seen[key] = seen.get(key, 0) + 1
        run.count("oracle_fail:%s" % kind)
        if seen[key] <= 2:
            run.violation(what, {"kind": kind, "queries": qs, "stream": es, "query": i, "trends_of_prefixes": [T(qs[i], es[:k + 1]) for k in range(len(es))],
                                 "observed": observed, "contradicts": "C25 property text; see C25_*_refuted in coq/theories/Trend/Props.v"},
                          classes=classes)

    for qs, es in cases:
        h, g, e = next(it), next(it), next(it)
        alone = [(next(it), next(it), next(it)) for _ in qs] if len(qs) > 1 else [(h, g, e)]
        run.count("queries=%d" % len(qs))
        run.count("stream_len=%d" % len(es))
        run.count("kleene_steps=%d" % max(len(q["kleene"]) for q in qs))
        tr = [T(q, es) for q in qs]
        run.count("max_trends=" + ("0" if max(tr) == 0 else "1" if max(tr) == 1 else "2-9" if max(tr) < 10 else ">=10"))
        run.case((json.dumps(qs), "".join(es)) if max(tr) >= 2 else None,
                 sample={"queries": qs, "stream": "".join(es), "trends": tr, "hamlet_flush": h["flush"], "greta_flush": g["flush"]} if max(tr) >= 2 and len(run.samples) < 3 else None)
        exprs.append("trend_case [%s] [%s]" % ("; ".join(g_query(q) for q in qs), ";".join(str(ord(t)) for t in es)))
        impl.append((qs, es, render_impl(qs, h, g), tr))
        for i, q in enumerate(qs):
            # ---- correctness against the enumeration
            hf = int(dict((int(a), b) for a, b in h["flush"]).get(i, "0"))
            if hf != tr[i]:
                report("hamlet-flush", "HamletAggregator.flush reports %d trends for query %d, enumeration gives %d" % (hf, i, tr[i]), qs, es, i,
                       ["hamlet-kleene-count"] if cls_hamlet_count(qs, i, es) else [], h)
            for k, st in enumerate(h["steps"]):
                for a, b in st:
                    if int(a) == i and int(b) != T(q, es[:k + 1]):
                        report("hamlet-incremental", "HamletAggregator.process reports %s trends for query %d after event %d, enumeration gives %d" % (b, i, k, T(q, es[:k + 1])),
                               qs, es, i, ["hamlet-kleene-count"] if cls_hamlet_count(qs, i, es[:k + 1]) else [], h)
            gf = int(dict((int(a), b) for a, b in g["flush"]).get(i, "0"))
            bad_g = gf != tr[i] or any(int(a) == i and int(b) != T(q, es[:k + 1]) for k, st in enumerate(g["steps"]) for a, b in st)
            if bad_g:
                cl = (["greta-cumulative-final-count"] if cls_greta_cumulative(qs, i, es) else []) + (["greta-shared-predecessor-edges"] if cls_greta_edges(qs, i, es) else [])
                report("greta", "GretaExecutor reports %d trends for query %d at the end, enumeration gives %d (per event: %s)" % (gf, i, tr[i], g["steps"]), qs, es, i, cl, g)
            # ---- sharing: the query alone
            ha, ga, ea = alone[i] if len(qs) > 1 else (h, g, e)
            if len(qs) > 1:
                own = lambda res, key: [[b for a, b in st if int(a) == key] for st in res["steps"]] + [[b for a, b in res["flush"] if int(a) == key]]
                if own(h, i) != own(ha, 0):
                    report("hamlet-sharing", "HamletAggregator: query %d reports %s alone and %s next to the other queries" % (i, own(ha, 0), own(h, i)), qs, es, i,
                           (["hamlet-sharing-mode"] if cls_hamlet_sharing(qs, i, es) else []) + (["hamlet-burst-boundaries"] if cls_hamlet_boundaries(qs, i, es) else []),
                           {"shared": h, "alone": ha})
                if own(g, i) != own(ga, 0):
                    report("greta-sharing", "GretaExecutor: query %d reports %s alone and %s next to the other queries" % (i, own(ga, 0), own(g, i)), qs, es, i,
                           (["greta-shared-predecessor-edges"] if cls_greta_edges(qs, i, es) else []) + (["greta-cumulative-final-count"] if cls_greta_cumulative_sharing(qs, i, es) else []),
                           {"shared": g, "alone": ga})
            # ---- Engine
            if "error" in e or "error" in ea:
                run.tie_broken("engine harness", json.dumps(e)[:300])
                continue
            eng_sh = engine_counts(e, i, len(qs))
            eng_al = engine_counts(ea, 0, 1) if len(qs) > 1 else eng_sh
            for k, vals in enumerate(eng_al):
                for v in vals:
                    if v != T(q, es[:k + 1]):
                        report("engine", "Engine: stream Q%d alone reports cnt=%d after event %d, enumeration gives %d" % (i, v, k, T(q, es[:k + 1])), qs, es, i,
                               ["hamlet-kleene-count"] if cls_hamlet_count(qs, i, es[:k + 1]) else [], ea)
            if len(qs) > 1 and eng_sh != eng_al:
                report("engine-sharing", "Engine: stream Q%d reports %s alone and %s next to the other streams" % (i, eng_al, eng_sh), qs, es, i,
                       ["engine-shared-aggregator-silent"] if cls_engine_silent(qs, i, es) else [], {"shared": e.get("steps"), "alone": ea.get("steps")})
    run.extra["oracle_failures"] = {"%s %s" % (k[0], list(k[1])): v for k, v in seen.items()}
    # every listed finding class must have been re-confirmed against the implementation in this run (the corpus holds a witness of each)
    hit = {c for k in seen for c in k[1]}
    for f in run.known:
        if f["class"] not in hit:
            run.tie_broken("known finding %s not re-confirmed" % f["class"],
                           "no failing input of this class was observed; the Coq witnesses (C25_*_refuted) or known_findings.json are out of date")
    # ---- correspondence
    try:
        model = coqtools.coq_eval("C25", IMPORTS, exprs, shard=max(10, len(exprs) // 16 + 1))
    except RuntimeError as ex:
        run.tie_broken("model evaluation (coqc cases)", str(ex))
        return
    ndis = 0
    for (qs, es, r, tr), m in zip(impl, model):
        parts = m.split("|")
        diffs = []
        want_tr = ",".join(str(x) for x in tr)
        if parts[0] != want_tr:
            diffs.append("Coq trends %s, Python enumeration %s" % (parts[0], want_tr))
        if parts[1] != want_tr:
            diffs.append("Coq dp_count %s, Python enumeration %s" % (parts[1], want_tr))
        for name, k, got in (("greta per event", 2, r[0]), ("greta flush", 3, r[1]), ("hamlet per event", 4, r[2]), ("hamlet flush", 5, r[3])):
            if parts[k] != got:
                diffs.append("%s: impl %s model %s" % (name, got, parts[k]))
        if diffs:
            ndis += 1
            if ndis <= 3:
                run.tie_broken("correspondence Trend/Model.v vs greta.rs / hamlet on queries %s stream %s" % (json.dumps(qs), "".join(es)), "\n".join(diffs))
    run.extra["disagreements"] = ndis


def engine_counts(res, i, nq):
    """per event: the cnt values the engine emits for stream Q<i> (the emitted event type is the stream name)"""
    out = []
    for st in res["steps"]:
        vals = []
        for ev in st:
            if ev.get("type") == "Q%d" % i:
                f = dict((x[0], x[1]) for x in ev.get("fields", []))
                if "cnt" in f and "i" in f["cnt"]:
                    vals.append(int(f["cnt"]["i"]))
        out.append(vals)
    return out


def replay(run, path):
    r = json.load(open(path))["replay"]
    okb, bindir, blog = harness.build(BIN)
    binpath = os.path.join(bindir, BIN)
    qs, es, i = r["queries"], r["stream"], r["query"]
    h, g = harness.run_jsonl(binpath, [{"kind": "hamlet", "queries": qs, "stream": es, "incremental": True}, {"kind": "greta", "queries": qs, "stream": es}])
    run.case(("replay",), {"queries": qs, "stream": "".join(es)})
    hf = int(dict((int(a), b) for a, b in h["flush"]).get(i, "0"))
    gf = int(dict((int(a), b) for a, b in g["flush"]).get(i, "0"))
    if hf != T(qs[i], es):
        run.violation("HamletAggregator.flush reports %d trends, enumeration gives %d" % (hf, T(qs[i], es)), r, classes=["hamlet-kleene-count"] if cls_hamlet_count(qs, i, es) else [])
    if gf != T(qs[i], es):
        run.violation("GretaExecutor reports %d trends, enumeration gives %d" % (gf, T(qs[i], es)), r,
                      classes=(["greta-cumulative-final-count"] if cls_greta_cumulative(qs, i, es) else []) + (["greta-shared-predecessor-edges"] if cls_greta_edges(qs, i, es) else []))
