"""Shared machinery for C06 / C07 (crates/varpulis-zdd).

Pipeline: build Coq (Zdd area) -> audit theorems -> build harness -> generate op
sequences -> run implementation, run model (vm_compute), run explicit
set-of-sets oracle -> compare all three.
"""
import itertools
import json
import os

from vplib import coqtools, harness
from vplib.common import log

IMPORTS = "From Coq Require Import String.\nFrom VP Require Import Base.Tactics Base.Render Zdd.Model Zdd.Run.\nOpen Scope string_scope.\nOpen Scope N_scope.\n"
NVARS = 5


# ---------------------------------------------------------------- rendering
def g_op(op):
    n = op[0]
    if n == "base":
        return "OBase"
    if n == "empty":
        return "OEmpty"
    if n == "single":
        return "OSingle %d" % op[1]
    if n == "fromset":
        return "OFromSet [%s]" % "; ".join(str(x) for x in op[1])
    if n == "pwo":
        return "OPwo %d%%nat %d" % (op[1], op[2])
    if n in ("union", "inter", "diff", "product"):
        return "O%s %d%%nat %d%%nat" % ({"union": "Union", "inter": "Inter", "diff": "Diff", "product": "Product"}[n], op[1], op[2])
    if n == "count":
        return "OCount %d%%nat" % op[1]
    if n == "gc":
        return "OGc [%s]" % "; ".join("%d%%nat" % x for x in op[1])
    raise ValueError(n)


def g_case(api, ops):
    return "%s [%s]" % ("arena_case" if api == "arena" else "zdd_case", "; ".join(g_op(o) for o in ops))


def fam_str(sets):
    return "/".join("e" if not s else ".".join(str(x) for x in s) for s in sets)


def impl_str(ans):
    """Canonical string of an implementation answer, same format as Zdd/Run.v."""
    if "panic" in ans:
        return "PANIC"
    steps = []
    for root, nc, extra in ans["steps"]:
        if extra is None:
            e = ""
        elif isinstance(extra, list):
            e = "/".join(extra)
        else:
            e = str(extra)
        steps.append("%s,%d,%s" % (root, nc, e))
    fins = ["%s,%s,%d,%s" % (f["root"], fam_str(f["iter"]), f["count"], f["mem"]) for f in ans["final"]]
    nodes = ["%d,%s,%s" % (v, l, h) for v, l, h in ans["nodes"]]
    return "S:" + ";".join(steps) + "|F:" + ";".join(fins) + "|N:" + ";".join(nodes)


# ------------------------------------------------------------------- oracle
def oracle(api, ops):
    """Explicit sets of sets. Returns list of frozenset-of-frozenset per final handle."""
    hs = []
    for op in ops:
        n = op[0]
        if n == "base":
            hs.append(frozenset([frozenset()]))
        elif n == "empty":
            hs.append(frozenset())
        elif n == "single":
            hs.append(frozenset([frozenset([op[1]])]))
        elif n == "fromset":
            hs.append(frozenset([frozenset(op[1])]))
        elif n == "pwo":
            a = hs[op[1]]
            hs.append(a | frozenset(s | {op[2]} for s in a))
        elif n == "union":
            hs.append(hs[op[1]] | hs[op[2]])
        elif n == "inter":
            hs.append(hs[op[1]] & hs[op[2]])
        elif n == "diff":
            hs.append(hs[op[1]] - hs[op[2]])
        elif n == "product":
            hs.append(frozenset(x | y for x in hs[op[1]] for y in hs[op[2]]))
        elif n == "count":
            pass
        elif n == "gc":
            hs = [hs[i] for i in op[1]]
    return hs


SUBSETS5 = [frozenset(i for i in range(5) if m >> i & 1) for m in range(32)]


def check_against_oracle(api, ops, ans):
    """Judges the implementation's observables against explicit set algebra and
    the C07 structural claims. Returns list of failure descriptions."""
    fails = []
    if "panic" in ans:
        return [("panic", "implementation panicked: " + ans["panic"])]
    want = oracle(api, ops)
    if len(want) != len(ans["final"]):
        return [("algebra", "handle count differs")]
    roots = {}
    for k, (w, f) in enumerate(zip(want, ans["final"])):
        got = [frozenset(s) for s in f["iter"]]
        if len(set(got)) != len(got):
            fails.append(("iter", "handle %d: iteration yields a member twice: %s" % (k, f["iter"])))
        if any(list(s) != sorted(set(s)) for s in f["iter"]):
            fails.append(("iter", "handle %d: iteration member not in ascending order: %s" % (k, f["iter"])))
        if frozenset(got) != w:
            fails.append(("algebra", "handle %d: iter gives %s, explicit sets give %s" % (k, sorted(map(sorted, got)), sorted(map(sorted, w)))))
        if f["count"] != len(w) or f["count_uncached"] != len(w):
            fails.append(("algebra", "handle %d: count %s/%s, explicit %d" % (k, f["count"], f["count_uncached"], len(w))))
        if max((max(s) for s in w if s), default=0) < 5:
            mem = "".join("1" if s in w else "0" for s in SUBSETS5)
            if mem != f["mem"]:
                fails.append(("algebra", "handle %d: membership bitmap %s, explicit %s" % (k, f["mem"], mem)))
        if api == "arena":
            # canonicity: same family <=> same root (same arena)
            if w in roots and roots[w] != f["root"]:
                fails.append(("canon", "handles with equal families have roots %s and %s" % (roots[w], f["root"])))
            for w2, r2 in roots.items():
                if r2 == f["root"] and w2 != w:
                    fails.append(("canon", "handles with different families share root %s" % r2))
            roots[w] = f["root"]
    if api == "arena":
        # structural: reducedness, ordering, unique triples
        nodes = ans["nodes"]
        seen = set()
        for i, (v, l, h) in enumerate(nodes):
            if h == "E":
                fails.append(("struct", "node %d has empty include-branch" % i))
            for c in (l, h):
                if c.startswith("N"):
                    j = int(c[1:])
                    if j >= i:
                        fails.append(("struct", "node %d refers to node %d (not older)" % (i, j)))
                    elif nodes[j][0] <= v:
                        fails.append(("struct", "node %d var %d not below child %d var %d" % (i, v, j, nodes[j][0])))
            if (v, l, h) in seen:
                fails.append(("struct", "duplicate triple %s" % ((v, l, h),)))
            seen.add((v, l, h))
    return fails


def check_count_steps(ops, ans):
    """count / gc step outputs vs oracle, for arena sequences."""
    fails = []
    if "panic" in ans:
        return fails
    for k, (op, st) in enumerate(zip(ops, ans["steps"])):
        if op[0] == "count":
            hs = oracle("arena", ops[:k])
            if st[2] != len(hs[op[1]]):
                fails.append(("algebra", "step %d: count %s, explicit %d" % (k, st[2], len(hs[op[1]]))))
    return fails


# ---------------------------------------------------------------- generation
def gen_ops(rng, api, maxlen, nvars=NVARS):
    ops = []
    nh = 0
    n = rng.range(3, maxlen)
    for _ in range(n):
        ctor = nh < 2 or rng.chance(1, 4)
        if ctor:
            k = rng.below(10)
            if k == 0:
                ops.append(["base"])
            elif k == 1:
                ops.append(["empty"])
            elif k == 2:
                ops.append(["single", rng.below(nvars)])
            else:
                ops.append(["fromset", [rng.below(nvars) for _ in range(rng.below(nvars + 1))]])
            nh += 1
            continue
        kinds = ["pwo", "pwo", "union", "union", "inter", "diff", "diff"]
        if api == "zdd":
            kinds += ["product", "product"]
        else:
            kinds += ["count", "gc"]
        k = rng.choice(kinds)
        if k == "pwo":
            ops.append(["pwo", rng.below(nh), rng.below(nvars)])
            nh += 1
        elif k in ("union", "inter", "diff", "product"):
            ops.append([k, rng.below(nh), rng.below(nh)])
            nh += 1
        elif k == "count":
            ops.append(["count", rng.below(nh)])
        elif k == "gc":
            keep = [i for i in range(nh) if rng.chance(2, 3)]
            keep = rng.shuffle(keep)
            if rng.chance(1, 4) and keep:
                keep.append(keep[0])
            ops.append(["gc", keep])
            nh = len(keep)
    return ops


def family_ops(fam):
    """ops building an explicit family (list of sets) as a union of from_set; returns (ops, handle index)"""
    if not fam:
        return [["empty"]], 0
    ops = [["fromset", sorted(s)] for s in fam]
    cur = 0
    for i in range(1, len(fam)):
        ops.append(["union", cur, i])
        cur = len(ops) - 1
    return ops, cur


def exhaustive_pairs(nv, ops_kinds, api, limit=None, rng=None):
    """All pairs of families over nv variables x binary ops (families as bitmasks over subsets)."""
    subsets = [frozenset(i for i in range(nv) if m >> i & 1) for m in range(1 << nv)]
    nf = 1 << len(subsets)
    pairs = [(a, b) for a in range(nf) for b in range(nf)]
    if limit and len(pairs) > limit:
        pairs = [pairs[rng.below(len(pairs))] for _ in range(limit)]
    cases = []
    for a, b in pairs:
        fa = [subsets[i] for i in range(len(subsets)) if a >> i & 1]
        fb = [subsets[i] for i in range(len(subsets)) if b >> i & 1]
        oa, ia = family_ops(fa)
        ob, ib = family_ops(fb)
        shift = len(oa)
        ob2 = []
        for o in ob:
            if o[0] == "union":
                ob2.append(["union", o[1] + shift, o[2] + shift])
            else:
                ob2.append(o)
        ops = oa + ob2
        for k in ops_kinds:
            ops = ops + [[k, ia, ib + shift]]
        cases.append((api, ops))
    return cases


def shrink(case, still_fails):
    """Greedy removal of ops that keeps handle indices valid."""
    api, ops = case
    changed = True
    while changed:
        changed = False
        for i in range(len(ops) - 1, -1, -1):
            cand = drop_op(ops, i)
            if cand is not None and still_fails((api, cand)):
                ops = cand
                changed = True
                break
    return (api, ops)


def pushes(op):
    return op[0] not in ("count", "gc")


def drop_op(ops, i):
    """Remove ops[i] if no later op depends on the handle it pushes (only attempted on gc-free sequences,
    or for non-pushing ops)."""
    if any(o[0] == "gc" for o in ops) and pushes(ops[i]):
        return None
    if not pushes(ops[i]):
        return ops[:i] + ops[i + 1:]
    h = sum(1 for o in ops[:i] if pushes(o))
    out = []
    for o in ops[i + 1:]:
        refs = []
        if o[0] == "pwo" or o[0] == "count":
            refs = [1]
        elif o[0] in ("union", "inter", "diff", "product"):
            refs = [1, 2]
        o2 = list(o)
        for r in refs:
            if o[r] == h:
                return None
            if o[r] > h:
                o2[r] = o[r] - 1
        out.append(o2)
    return ops[:i] + out


# ------------------------------------------------------------------ running
def build_all(run, targets, audit_file, allow=()):
    coqtools.prove(run, targets, audit_file, allow)
    okb, bindir, blog = harness.build("vp-zdd")
    if not okb:
        run.tie_broken("harness build vp-zdd", blog[-3000:])
        return None
    return os.path.join(bindir, "vp-zdd")


def run_cases(run, binpath, cases, tag, judge):
    """cases: list of (api, ops). judge(api, ops, ans) -> list of failure strings.
    Yields ("oracle"|"corr", case, [messages])."""
    reqs = [{"api": a, "ops": o} for a, o in cases]
    answers = harness.run_jsonl(binpath, reqs)
    impl = [impl_str(a) for a in answers]
    try:
        model = coqtools.coq_eval(tag, IMPORTS, [g_case(a, o) for a, o in cases], shard=max(20, min(250, len(cases) // 16 + 1)))
    except RuntimeError as e:
        run.tie_broken("model evaluation (coqc cases)", str(e))
        model = [None] * len(cases)
    disagreements = []
    for k, ((api, ops), ans, si, sm) in enumerate(zip(cases, answers, impl, model)):
        nontrivial = None
        if "final" in ans and any(f["count"] >= 2 for f in ans["final"]) and len(ans.get("nodes", [])) + len(ops) >= 4:
            nontrivial = (api, json.dumps(ops))
        run.case(nontrivial, sample={"api": api, "ops": ops, "impl": si[:300]} if k < 2 else None)
        run.count("api=" + api)
        run.count("len=%d" % len(ops))
        for o in ops:
            run.count("op=" + o[0])
        fails = judge(api, ops, ans)
        if fails:
            run.count("oracle_fail")
            yield ("oracle", (api, ops), fails)
        if sm is not None and si != sm:
            disagreements.append(k)
            yield ("corr", (api, ops), ["model and implementation differ:\n impl  %s\n model %s" % (si, sm)])
    run.extra.setdefault("disagreements", 0)
    run.extra["disagreements"] += len(disagreements)
