"""Shared machinery for C08 / C09 (comparisons and filters; crates/varpulis-runtime evaluator.rs, sase.rs, compiler.rs).

Pipeline: translator (eval_arms.py -> Gen_EvalArms.v) -> build Coq (Cmp area) -> audit theorems ->
build harness vp-cmp -> generate cases -> run implementation, run model (vm_compute), run exact
oracle (Python rationals) -> compare all three.

Values travel as tagged JSON ({"i":"5"} {"f":"<bits>"} {"s":".."} {"b":true} {"n":null}); floats
are always their 64-bit patterns.
"""
import json
import os
import struct
from fractions import Fraction

from vplib import coqtools, harness
from vplib.common import VERIF, REPO, sh

IMPORTS = ("From Coq Require Import String ZArith List.\nImport ListNotations.\n"
           "From VP Require Import Base.Tactics Base.Render Cmp.F64 Cmp.Arms Cmp.Gen_EvalArms Cmp.Model Cmp.Classes Cmp.Run.\n"
           "Open Scope string_scope.\n")

FLOCQ_AXIOMS = ("ClassicalDedekindReals.sig_not_dec", "ClassicalDedekindReals.sig_forall_dec",
                "FunctionalExtensionality.functional_extensionality_dep", "Classical_Prop.classic")

OPS = ["Lt", "Le", "Gt", "Ge", "Eq", "NotEq"]
ORD_OPS = ["Lt", "Le", "Gt", "Ge"]
OP_TXT = {"Lt": "<", "Le": "<=", "Gt": ">", "Ge": ">=", "Eq": "==", "NotEq": "!="}
NAN_BITS = 9221120237041090560


# ------------------------------------------------------------------ values
def f2b(x):
    return struct.unpack("<Q", struct.pack("<d", x))[0]


def b2f(b):
    return struct.unpack("<d", struct.pack("<Q", b))[0]


def I(n):
    return {"i": str(n)}


def F(x):
    return {"f": str(f2b(x))}


def FB(bits):
    return {"f": str(bits)}


def S(s):
    return {"s": s}


def B(b):
    return {"b": bool(b)}


NULL = {"n": None}


def tag(v):
    return next(iter(v))


def is_num(v):
    return tag(v) in ("i", "f")


def fval(v):
    return b2f(int(v["f"]))


def is_finite_num(v):
    if tag(v) == "i":
        return True
    if tag(v) == "f":
        x = fval(v)
        return x == x and x not in (float("inf"), float("-inf"))
    return False


def exact(v):
    """exact rational value of a finite numeric operand"""
    return Fraction(int(v["i"])) if tag(v) == "i" else Fraction(fval(v))


def math_cmp(l, r):
    a, b = exact(l), exact(r)
    return -1 if a < b else (1 if a > b else 0)


def expected(op, l, r):
    c = math_cmp(l, r)
    return {"Lt": c < 0, "Le": c <= 0, "Gt": c > 0, "Ge": c >= 0}[op]


def g_value(v):
    t = tag(v)
    if t == "i":
        return "(VInt (%s)%%Z)" % v["i"]
    if t == "f":
        return "(VFloat (of_bits %s%%Z))" % v["f"]
    if t == "s":
        return "(VStr [%s])" % "; ".join("%d%%N" % b for b in v["s"].encode())
    if t == "b":
        return "(VBool %s)" % ("true" if v["b"] else "false")
    if t == "n":
        return "VNull"
    raise ValueError(v)


def show(v):
    t = tag(v)
    if t == "f":
        return "%r(f64 bits %s)" % (fval(v), v["f"])
    if t == "i":
        return v["i"]
    if t == "s":
        return json.dumps(v["s"])
    if t == "b":
        return "true" if v["b"] else "false"
    return "null"


# ------------------------------------------------------- operand generators
P53 = 1 << 53
P63 = 1 << 63
INT_EDGES = [0, 1, -1, 2, -2, 3, 30, 31, 100, -100, P53 - 1, P53, P53 + 1, P53 + 2, P53 + 3, -(P53 - 1), -P53, -(P53 + 1), -(P53 + 2),
             (1 << 54) + 1, (1 << 54) + 2, (1 << 62), (1 << 62) + 1, P63 - 1, P63 - 2, P63 - 512, P63 - 513, P63 - 1024, P63 - 1025,
             -P63, -P63 + 1, -P63 + 1024, -P63 + 1025, 10 ** 15 + 1, 10 ** 17 + 1, 123456789012345678]
FLOAT_EDGES = [0.0, -0.0, 0.5, -0.5, 1.0, -1.0, 1.5, 2.5, -2.5, 30.0, 31.5, 30.000000000000004, 29.999999999999996, 0.1, 0.3, 0.1 + 0.2, 1e-9,
               float(P53), float(P53) + 2.0, float(P53) - 1.0, -float(P53), -float(P53) - 2.0, float(P63), -float(P63), 9223372036854774784.0,
               -9223372036854774784.0, 9223372036854777856.0, -9223372036854777856.0, 4611686018427387904.0, 1e300, -1e300, 5e-324, -5e-324,
               2.2250738585072014e-308, 1e15 + 0.5, 1e17, 4503599627370496.5, 4503599627370497.5, -4503599627370496.5]
FLOAT_SPECIAL = [float("inf"), float("-inf")]


def nextafter(x, up):
    b = f2b(x)
    if x == 0.0:
        return b2f(1) if up else -b2f(1)
    if (x > 0) == up:
        return b2f(b + 1)
    return b2f(b - 1)


def gen_int(rng):
    k = rng.below(10)
    if k < 4:
        return rng.choice(INT_EDGES)
    if k < 6:
        return rng.range(-40, 40)
    if k < 8:
        return rng.range(-P63, P63 - 1)
    e = rng.range(50, 62)
    return rng.choice([1, -1]) * ((1 << e) + rng.range(-3, 3))


def clamp_i64(n):
    return max(-P63, min(P63 - 1, n))


def gen_float(rng, special=True):
    k = rng.below(12)
    if k < 4:
        return rng.choice(FLOAT_EDGES)
    if k < 6:
        return rng.range(-80, 80) / 2.0
    if k < 8:
        return float(gen_int(rng))
    if k < 9:
        return nextafter(float(gen_int(rng)), rng.chance(1, 2))
    if k < 10 and special:
        return rng.choice(FLOAT_SPECIAL + [float("nan")])
    # random finite bit pattern
    while True:
        x = b2f(rng.next())
        if x == x and x not in (float("inf"), float("-inf")):
            return x


def near_pair(rng):
    """an (int, float) pair chosen so that the two are equal or differ by less than the rounding of `as f64`"""
    if rng.chance(1, 2):
        i = gen_int(rng)
        f = float(i)
        f = rng.choice([f, f, nextafter(f, True), nextafter(f, False), f + 0.5, f - 0.5])
    else:
        f = gen_float(rng, special=False)
        if abs(f) < 2.0 ** 63:
            i = clamp_i64(int(f) + rng.choice([0, 0, 1, -1, 2, -2]))
        else:
            i = rng.choice([P63 - 1, -P63, 0])
    return i, f


def gen_num_pair(rng):
    k = rng.below(10)
    if k < 5:
        i, f = near_pair(rng)
        return (I(i), F(f)) if rng.chance(1, 2) else (F(f), I(i))
    if k < 6:
        a = gen_int(rng)
        return I(a), I(clamp_i64(a + rng.choice([0, 1, -1, 7])))
    if k < 7:
        a = gen_float(rng)
        return F(a), F(rng.choice([a, nextafter(a, True) if a == a and abs(a) != float("inf") else a, gen_float(rng)]))
    if k < 9:
        return (I(gen_int(rng)), F(gen_float(rng))) if rng.chance(1, 2) else (F(gen_float(rng)), I(gen_int(rng)))
    return I(gen_int(rng)), I(gen_int(rng))


def pair_bucket(l, r):
    def b(v):
        t = tag(v)
        if t == "i":
            return "int>2^53" if abs(int(v["i"])) > P53 else "int"
        if t == "f":
            x = fval(v)
            if x != x:
                return "nan"
            if x in (float("inf"), float("-inf")):
                return "inf"
            if x == 0.0:
                return "zero"
            return "float-frac" if x != int(x) else "float-int"
        return t
    return "%s/%s" % (b(l), b(r))


# ------------------------------------------------------------- translator
def run_translator(run):
    p = sh(["python3", os.path.join(VERIF, "translate", "eval_arms.py")], timeout=120)
    if p.returncode != 0:
        run.tie_broken("translator eval_arms.py (arm tables of evaluator.rs / sase.rs)", (p.stdout + p.stderr)[-2000:])
        return False
    run.extra["translator"] = p.stdout.strip()[-400:]
    return True


def build_all(run, props_target, audit_file, allow=FLOCQ_AXIOMS):
    """translator, banned scan, Coq build (model first, then theorems), audit, harness build.
    Returns harness binary path or None; run.extra['model_ok'] says whether Run.vo is available."""
    tr = run_translator(run)
    hits = [h for h in coqtools.banned_scan() if "/Cmp/" in h[0] or "/Base/" in h[0] or "audit/" + audit_file in h[0]]
    run.oblige("no Admitted/admit/Axiom/Parameter/guard-off in coq/theories/{Base,Cmp}, audit/" + audit_file, not hits, str(hits[:5]))
    okm, lgm = coqtools.make(["theories/Cmp/Run.vo"])
    run.extra["model_ok"] = okm
    if not okm:
        run.tie_broken("model build theories/Cmp/Run.vo (against regenerated Gen_EvalArms.v)", lgm[-3000:])
    ok, lg = coqtools.make([props_target]) if okm else (False, "model did not build")
    run.oblige("make " + props_target + " (theorems re-checked over the regenerated arm tables)", ok and tr, lg[-3000:])
    if ok:
        a = coqtools.audit(audit_file, allow_axioms=allow)
        run.axioms |= a["axioms"]
        run.oblige("audit %s: %d Check pins, %d/%d Print Assumptions, axioms allowed" % (audit_file, a["n_pins"], a["n_print"], a["n_expected"]),
                   a["ok"], a["log"] + str(a["bad_axioms"]))
        run.extra["theorems_audited"] = a["n_print"]
    run.checker_cmd = ("python3 translate/eval_arms.py; coqc 8.16.1 (full .vo) %s; coqc coq/audit/%s" % (props_target, audit_file))
    okb, bindir, blog = harness.build("vp-cmp")
    if not okb:
        run.tie_broken("harness build vp-cmp", blog[-3000:])
        return None
    return os.path.join(bindir, "vp-cmp")


def phase(run, name, t0):
    import time
    run.extra.setdefault("phase_seconds", {})[name] = round(time.time() - t0, 1)
    return time.time()


def model_eval(run, tag_, exprs, shard=None):
    if not run.extra.get("model_ok"):
        return [None] * len(exprs)
    try:
        return coqtools.coq_eval(tag_, IMPORTS, exprs, shard=shard or max(20, min(400, len(exprs) // 16 + 1)))
    except RuntimeError as e:
        run.tie_broken("model evaluation (coqc cases)", str(e)[-2000:])
        return [None] * len(exprs)


# ----------------------------------------------------------------- C08 API
def ch(j):
    if j is None:
        return "n"
    if isinstance(j, bool):
        return "t" if j else "f"
    if isinstance(j, dict) and "b" in j:
        return "t" if j["b"] else "f"
    return "?"


def impl_cmp_str(ans):
    if "panic" in ans:
        return "PANIC " + ans["panic"]
    return "expr:%s|binop:%s|sase:%s" % tuple("".join(ch(ans[k][o]) for o in OPS) for k in ("expr", "binop", "sase"))


def judge_pair(l, r, ans):
    """C08 oracle on one operand pair: every ordering operator in every evaluator equals the exact order.
    Returns list of (where, op, got, want)."""
    if "panic" in ans:
        return [("any", "-", "panic: " + ans["panic"], "a value")]
    if not (is_finite_num(l) and is_finite_num(r)):
        return []
    bad = []
    for op in ORD_OPS:
        want = expected(op, l, r)
        for k in ("expr", "binop", "pattern", "sase"):
            got = ch(ans[k][op])
            if got != ("t" if want else "f"):
                bad.append((k, op, {"n": "no value", "t": "true", "f": "false", "?": "non-bool"}[got], "true" if want else "false"))
    return bad


EVALUATOR_NAME = {"expr": "eval_expr_with_functions (.where/.emit/.having)", "binop": "eval_binary_op", "pattern": "eval_pattern_expr (.pattern)",
                  "sase": "SASE compare_values (sequence-step filter)", "any": "harness"}


# ------------------------------------------------------------ expressions
# Python form: ("id", k) ("lit", value) ("cmp", op, l, r) ("log", "And"|"Or", l, r) ("not", e) ("neg", e)
def e_json(e):
    k = e[0]
    if k == "id":
        return {"id": "f%d" % e[1]}
    if k == "lit":
        return e[1]
    if k == "cmp":
        return {"bin": [e[1], e_json(e[2]), e_json(e[3])]}
    if k == "log":
        return {"bin": [e[1], e_json(e[2]), e_json(e[3])]}
    if k == "not":
        return {"not": e_json(e[1])}
    if k == "neg":
        return {"neg": e_json(e[1])}
    raise ValueError(e)


def g_expr(e):
    k = e[0]
    if k == "id":
        return "(EIdent %d%%N)" % e[1]
    if k == "lit":
        v = e[1]
        t = tag(v)
        if t == "i":
            return "(EInt (%s)%%Z)" % v["i"]
        if t == "f":
            return "(EFloat (of_bits %s%%Z))" % v["f"]
        if t == "s":
            return "(EStr [%s])" % "; ".join("%d%%N" % b for b in v["s"].encode())
        if t == "b":
            return "(EBool %s)" % ("true" if v["b"] else "false")
        return "ENull"
    if k == "cmp":
        return "(ECmp O%s %s %s)" % (e[1], g_expr(e[2]), g_expr(e[3]))
    if k == "log":
        return "(ELog L%s %s %s)" % (e[1], g_expr(e[2]), g_expr(e[3]))
    if k == "not":
        return "(ENot %s)" % g_expr(e[1])
    if k == "neg":
        return "(ENeg %s)" % g_expr(e[1])
    raise ValueError(e)


def float_txt(x):
    """decimal text the grammar accepts (digits '.' digits [e..]) and that parses back to x"""
    assert x == x and abs(x) != float("inf") and (x > 0 or (x == 0 and f2b(x) == 0))
    r = repr(x)
    if "e" in r:
        m, e = r.split("e")
        if "." not in m:
            m += ".0"
        return m + "e" + e
    return r if "." in r else r + ".0"


def vpl_ok_lit(v):
    t = tag(v)
    if t == "i":
        return int(v["i"]) >= 0
    if t == "f":
        x = fval(v)
        return x == x and abs(x) != float("inf") and f2b(x) >> 63 == 0
    if t == "s":
        return all(32 <= ord(c) < 127 and c not in '"\\' for c in v["s"])
    return True


def vpl_expressible(e):
    k = e[0]
    if k == "id":
        return True
    if k == "lit":
        return vpl_ok_lit(e[1])
    if k in ("cmp", "log"):
        return vpl_expressible(e[2]) and vpl_expressible(e[3])
    if k == "not":
        # the grammar allows `not` only in front of a comparison / parenthesised expression; e_vpl parenthesises
        return vpl_expressible(e[1])
    if k == "neg":
        # the parser folds `-<literal>`; only produced through text for literals
        return False
    return False


def e_vpl(e, top=True):
    """VPL text; every compound sub-expression is parenthesised"""
    k = e[0]
    if k == "id":
        return "f%d" % e[1]
    if k == "lit":
        v = e[1]
        t = tag(v)
        if t == "i":
            return v["i"]
        if t == "f":
            return float_txt(fval(v))
        if t == "s":
            return '"%s"' % v["s"]
        if t == "b":
            return "true" if v["b"] else "false"
        return "null"
    if k == "cmp":
        s = "%s %s %s" % (e_vpl(e[2], False), OP_TXT[e[1]], e_vpl(e[3], False))
    elif k == "log":
        s = "%s %s %s" % (e_vpl(e[2], False), e[1].lower(), e_vpl(e[3], False))
    elif k == "not":
        s = "not %s" % e_vpl(e[1], False)
    else:
        raise ValueError(e)
    return s if top else "(" + s + ")"


def g_event(fields):
    """fields: list of (k, value)"""
    return "[%s]" % "; ".join("(%d%%N, %s)" % (k, g_value(v)) for k, v in fields)


def ev_json(fields, ty="B", extra=()):
    return {"type": ty, "fields": [["f%d" % k, v] for k, v in fields] + [list(x) for x in extra]}


def has_not(e):
    k = e[0]
    if k == "not":
        return True
    if k in ("cmp", "log"):
        return has_not(e[2]) or has_not(e[3])
    if k == "neg":
        return has_not(e[1])
    return False


def e_size(e):
    k = e[0]
    if k in ("id", "lit"):
        return 1
    if k in ("cmp", "log"):
        return 1 + e_size(e[2]) + e_size(e[3])
    return 1 + e_size(e[1])


def e_show(e):
    try:
        return e_vpl(e) if vpl_expressible(e) else json.dumps(e_json(e))
    except Exception:
        return json.dumps(e_json(e))
