"""C30 — rate limiting never admits more than burst + rate x T; finite retry-after; no panic."""
import json
import os
import struct
from fractions import Fraction

from vplib import coqtools, harness

META = {
    "technique": "Coq proof (potential-function invariant over all request sequences, any eviction tie-break) about an exact "
                 "fixed-point model of the token bucket + per-IP map; model tied to rate_limit.rs by a differential run on the injectable clock",
    "level_text": "proof about model + differential correspondence + brute-force oracle on the implementation",
    "level_note": "Proved (all request sequences, all configs, all eviction choices): admissions of a continuously tracked client in any "
                  "window <= burst + rate*T; every retry-after is a Duration (<= 1s/rate when rate>0, Duration::MAX when rate=0); the "
                  "retry-after is sufficient; check never panics (model of the repaired reset_after). Modelled, not proved: f64 token "
                  "arithmetic is modelled by exact fixed-point arithmetic (nano-tokens); tested: decisions/remaining/tokens/evictions "
                  "agree exactly on the dyadic time grid (where the f64 arithmetic is exact) and within 1e-10 tokens / 1 ns elsewhere.",
    "design_ref": "DESIGN.md §7 C30",
}

NANO = 10 ** 9
GRID = 1953125            # 2^-9 s in ns: times on this grid make every f64 operation of the bucket exact
DUR_MAX = 18446744073709551615 * NANO + 999999999
IMPORTS = ("From Coq Require Import String ZArith List.\nImport ListNotations.\n"
           "From VP Require Import RateLimit.Model RateLimit.Run.\nOpen Scope Z_scope.\n")


# ------------------------------------------------------------------ generation
def gen_case(rng, kind=None):
    kind = kind or rng.choice(["dyadic", "dyadic", "ms", "ns", "boundary", "boundary"])
    rate = rng.choice([0, 0, 1, 1, 2, 3, 4, 5, 7, 8, 10, 16, 20, 25, 32, 50, rng.range(0, 50)])
    burst = rng.choice([0, 1, 1, 2, 2, 3, 5, 8, 20, rng.range(0, 20)])
    ctor = rng.choice(["with_burst", "with_burst", "fields", "new"])
    if ctor == "new":
        rate = min(rate, 10)
        burst = 2 * rate
    cap = rng.choice([1, 2, 2, 3, 4, 10000])
    nclients = 1 if rng.chance(1, 3) else min(cap, 4) + rng.range(0, 2)
    if cap == 10000:
        nclients = rng.range(1, 3)
    n = rng.range(2, 14) if rng.chance(1, 2) else rng.range(10, 40)
    t = rng.choice([0, 0, 7, 5 * GRID])
    if kind == "dyadic":
        t = (t // GRID) * GRID
    ops = []
    for _ in range(n):
        c = 1 + rng.below(nclients)
        if rng.chance(1, 3):
            dt = 0
        elif kind == "dyadic":
            dt = GRID * rng.choice([1, 2, 16, 32, 64, 128, 170, 171, 256, 512, 513, 1024, rng.range(1, 700)])
        elif kind == "ms":
            dt = 1000000 * rng.choice([1, 10, 20, 25, 40, 50, 100, 125, 200, 250, 500, 1000, 2000, rng.range(1, 1500)])
        elif kind == "boundary" and rate > 0:
            k = rng.choice([1, 1, 1, 2, 3, burst or 1])
            exact = -(-NANO * k // rate)                      # ceil(k/rate seconds)
            dt = max(0, exact + rng.choice([-1, 0, 0, 1, -2, 2]))
        else:
            dt = rng.choice([1, 999, 333333333, 333333334, 500000000, 999999999, 1000000000, 1000000001,
                             rng.range(0, 2000000000), rng.range(0, 100000000)])
        t += dt
        ops.append([t, c])
    cfg = {"ctor": ctor, "rate": rate, "burst": burst, "enabled": True}
    if cap != 10000 or rng.chance(1, 2):
        cfg["cap"] = cap
    return {"cfg": cfg, "ops": ops, "kind": kind}


CORPUS = [
    # DESIGN §10: with_burst(0, 1), two checks from one IP (the first one already panicked on the unrepaired tree)
    {"cfg": {"ctor": "with_burst", "rate": 0, "burst": 1}, "ops": [[0, 1], [5, 1]], "kind": "corpus"},
    {"cfg": {"ctor": "new", "rate": 0, "burst": 0}, "ops": [[0, 1]], "kind": "corpus"},
    {"cfg": {"ctor": "with_burst", "rate": 0, "burst": 0, "cap": 1}, "ops": [[0, 1], [GRID, 2], [2 * GRID, 1]], "kind": "corpus"},
    {"cfg": {"ctor": "disabled", "rate": 0, "burst": 0}, "ops": [[0, 1], [0, 1], [1, 1]], "kind": "corpus"},
    {"cfg": {"ctor": "with_burst", "rate": 3, "burst": 2, "cap": 2},
     "ops": [[0, 1], [0, 1], [0, 1], [333333333, 1], [333333334, 1], [NANO, 2], [NANO, 3], [NANO, 1]], "kind": "corpus"},
    {"cfg": {"ctor": "with_burst", "rate": 2, "burst": 0}, "ops": [[0, 1], [3 * NANO, 1]], "kind": "corpus"},
    {"cfg": {"ctor": "with_burst", "rate": 8, "burst": 1, "cap": 1},
     "ops": [[0, 1], [64 * GRID, 1], [64 * GRID, 1], [64 * GRID, 2], [64 * GRID, 1], [64 * GRID, 1]], "kind": "corpus"},
]


# ------------------------------------------------------------------ implementation / model
def run_impl(binpath, cases):
    return harness.run_jsonl(binpath, [{"cfg": c["cfg"], "ops": c["ops"]} for c in cases])


def g_case(case, ans):
    cfg = ans["cfg"]
    steps = ans["steps"]
    ops = []
    for k, (t, c) in enumerate(case["ops"]):
        ch = 0
        if k < len(steps) and steps[k]["ev"]:
            ch = steps[k]["ev"][0]
        ops.append("(%d,%d,%d)" % (t, c, ch))
    return "rl_case %s %d %d %d [%s]" % ("true" if cfg["enabled"] else "false", cfg["rate"], cfg["burst"], cfg["cap"], ";".join(ops))


def parse_model(s):
    out = []
    if not s:
        return out
    for st in s.split("#"):
        head, _, tr = st.partition("|")
        r, rem, ns, ev, u = head.split(",")
        tracked = []
        for b in tr.split(";") if tr else []:
            ip, nt, last = b.split(":")
            tracked.append((int(ip), int(nt), int(last)))
        out.append({"r": r, "rem": int(rem), "ns": int(ns), "ev": [] if ev == "none" else [int(ev)], "u": int(u), "tr": sorted(tracked)})
    return out


def f64_of_bits(b):
    return struct.unpack("<d", struct.pack("<Q", int(b)))[0]


def on_grid(case):
    return all(t % GRID == 0 for t, _ in case["ops"])


def fragile(case, ans, model):
    """Off the dyadic grid the f64 arithmetic rounds; a decision can legitimately differ from exact arithmetic only
    when the exact refilled amount is a whole token (tokens >= 1.0 / floor(tokens) sit on a knife edge)."""
    if on_grid(case):
        return False
    cfg = ans["cfg"]
    prev = {}
    for m, (t, c) in zip(model, case["ops"]):
        if c in prev and t > prev[c] and m["u"] % NANO == 0 and m["u"] <= cfg["burst"] * NANO:
            return True
        prev = {ip: last for ip, _, last in m["tr"]}
    return False


def compare(case, ans, model):
    """Returns list of differences between implementation answer and model steps."""
    diffs = []
    if "panic" in ans:
        diffs.append("implementation panicked at op %d (%s); model does not" % (ans["at"], ans["panic"][:80]))
        return diffs
    if len(model) != len(ans["steps"]):
        return ["step count: impl %d model %d" % (len(ans["steps"]), len(model))]
    exact = on_grid(case)
    for k, (a, m) in enumerate(zip(ans["steps"], model)):
        if a["r"] != m["r"]:
            diffs.append("op %d: decision impl %s model %s" % (k, a["r"], m["r"]))
            break
        if a["r"] == "A" and a["rem"] != m["rem"]:
            diffs.append("op %d: remaining impl %d model %d" % (k, a["rem"], m["rem"]))
        ai, mi = int(a["ns"]), m["ns"]
        if (ai >= DUR_MAX // 2) != (mi >= DUR_MAX // 2) or (mi < DUR_MAX // 2 and abs(ai - mi) > 1) or (mi >= DUR_MAX // 2 and ai != mi):
            diffs.append("op %d: retry/reset ns impl %d model %d" % (k, ai, mi))
        if sorted(a["ev"]) != sorted(m["ev"]):
            diffs.append("op %d: evicted impl %s model %s" % (k, a["ev"], m["ev"]))
        at = [(c, f64_of_bits(b)) for c, b in a["tr"]]
        mt = [(c, nt) for c, nt, _ in m["tr"]]
        if [c for c, _ in at] != [c for c, _ in mt]:
            diffs.append("op %d: tracked clients impl %s model %s" % (k, [c for c, _ in at], [c for c, _ in mt]))
            break
        for (c, f), (_, nt) in zip(at, mt):
            if exact:
                if Fraction(f) != Fraction(nt, NANO):
                    diffs.append("op %d: client %d tokens impl %r model %d/1e9 (exact grid)" % (k, c, f, nt))
            elif abs(Fraction(f) - Fraction(nt, NANO)) > Fraction(1, 10 ** 10):
                diffs.append("op %d: client %d tokens impl %r model %d/1e9" % (k, c, f, nt))
        if diffs:
            break
    return diffs


# ------------------------------------------------------------------ oracle (property text, on the implementation's output)
def oracle(case, ans):
    fails = []
    cfg = ans.get("cfg")
    if "panic" in ans:
        fails.append("limiter panicked on op %d of an accepted configuration %s: %s" % (ans.get("at", -1), json.dumps(cfg), ans["panic"][:120]))
    if cfg is None or not cfg["enabled"]:
        return fails
    rate, burst = cfg["rate"], cfg["burst"]
    periods = {}      # client -> list of admitted times in the current tracked period
    for k, (a, (t, c)) in enumerate(zip(ans["steps"], case["ops"])):
        for v in a["ev"]:
            periods.pop(v, None)
        if a["r"] == "L":
            ns = int(a["ns"])
            if not (0 <= ns <= DUR_MAX):
                fails.append("op %d: retry-after %s is not a finite duration" % (k, a["ns"]))
        if c not in [x for x, _ in a["tr"]]:
            fails.append("op %d: client %d not tracked after its own request" % (k, c))
        adm = periods.setdefault(c, [])
        if a["r"] == "A":
            adm.append(t)
            # every window ending at this admission
            for i in range(len(adm)):
                cnt = len(adm) - i
                T = adm[-1] - adm[i]
                if cnt * NANO > burst * NANO + rate * T:
                    fails.append("client %d: %d requests admitted within %d ns (ops up to %d) > burst %d + rate %d * T" % (c, cnt, T, k, burst, rate))
                    break
    return fails


def shrink(binpath, case):
    ops = list(case["ops"])
    changed = True
    while changed and len(ops) > 1:
        changed = False
        for i in range(len(ops) - 1, -1, -1):
            cand = dict(case, ops=ops[:i] + ops[i + 1:])
            if oracle(cand, run_impl(binpath, [cand])[0]):
                ops = cand["ops"]
                changed = True
                break
    return dict(case, ops=ops)


def build(run):
    hits = coqtools.banned_scan()
    run.oblige("no Admitted/admit/Axiom/Parameter/guard-off anywhere in coq/", not hits, str(hits[:5]))
    ok, lg = coqtools.make(["theories/RateLimit/Props.vo", "theories/RateLimit/Run.vo"])
    run.oblige("make theories/RateLimit/Props.vo", ok, lg[-3000:])
    if ok:
        a = coqtools.audit("C30.v")
        run.axioms |= a["axioms"]
        run.oblige("audit C30.v: %d Check pins, %d/%d Print Assumptions, no axioms" % (a["n_pins"], a["n_print"], a["n_expected"]),
                   a["ok"], a["log"] + str(a["bad_axioms"]))
        run.extra["theorems_audited"] = a["n_print"]
    else:
        coqtools.make(["theories/RateLimit/Run.vo"])
    run.checker_cmd = "coqc 8.16.1 (full .vo) theories/RateLimit/Props.v; coqc coq/audit/C30.v"
    okb, bindir, blog = harness.build("vp-ratelimit")
    if not okb:
        run.tie_broken("harness build vp-ratelimit", blog[-3000:])
        return None
    return os.path.join(bindir, "vp-ratelimit")


def check(run):
    run.rule = ("request sequences (2-40 requests, 1-6 interleaved clients) on the virtual clock for rate 0-50, burst 0-20, capacity 1-4/10000, "
                "time steps on the dyadic grid (exact f64), ms grid, raw ns and +-2ns around exact token arrival; non-trivial = some request "
                "rejected and a later request of the same client admitted (refill decided it) or an eviction happened; distinct = distinct (config, ops)")
    run.trusted += ["Coq 8.16.1 kernel + vm_compute",
                    "hand-written model coq/theories/RateLimit/Model.v tied by differential run (decision, remaining, retry-after, evicted client, tracked set, token counts per step)",
                    "f64 token arithmetic modelled by exact nano-token integers (exact on the dyadic grid; tolerance 1e-10 tokens / 1 ns elsewhere; knife-edge cases off the grid skipped and counted)",
                    "cfg(varpulis_verif) clock hook rate_limit::verif_clock replaces Instant::now(); verif_buckets() dump",
                    "Rust harness harness/crates/ratelimit, Python driver checks/C30.py (generators, brute-force window oracle)",
                    "HashMap iteration order (eviction among equally old buckets) is an input of the model, taken from the implementation's observed choice and validated by the model"]
    run.assumptions += ["one limiter instance driven sequentially (RwLock write section is atomic)", "virtual time is monotone (Instant is monotonic)",
                        "warp filter with_rate_limit (header construction) is outside the model"]
    binpath = build(run)
    if binpath is None:
        return
    cases = list(CORPUS)
    n = 500 if run.tier == "quick" else 12000
    for _ in range(n):
        cases.append(gen_case(run.rng))
    if run.tier == "thorough":
        # small-scope exhaustive: burst<=2, rate in {0,1,2,3}, 5 requests, time steps in {0, 1/4s, 1/2s, 1s}, 2 clients, cap 1
        import itertools
        for rate in (0, 1, 2, 3):
            for burst in (0, 1, 2):
                for dts in itertools.product((0, 128 * GRID, 256 * GRID, 512 * GRID), repeat=4):
                    for cl in ((1, 1, 1, 1, 1), (1, 1, 2, 1, 1)):
                        t = 0
                        ops = [[0, cl[0]]]
                        for d, c in zip(dts, cl[1:]):
                            t += d
                            ops.append([t, c])
                        cases.append({"cfg": {"ctor": "with_burst", "rate": rate, "burst": burst, "cap": 1}, "ops": ops, "kind": "exhaustive"})
    answers = run_impl(binpath, cases)
    try:
        model = coqtools.coq_eval("C30", IMPORTS, [g_case(c, a) for c, a in zip(cases, answers)], shard=max(20, min(250, len(cases) // 16 + 1)))
    except RuntimeError as e:
        run.tie_broken("model evaluation (coqc cases)", str(e))
        model = [None] * len(cases)
    n_or = n_corr = n_fragile = 0
    for k, (case, ans, ms) in enumerate(zip(cases, answers, model)):
        steps = ans.get("steps", [])
        nontrivial = None
        seenL = set()
        for a, (t, c) in zip(steps, case["ops"]):
            if a["ev"]:
                nontrivial = True
            if a["r"] == "L":
                seenL.add(c)
            elif c in seenL:
                nontrivial = True
        key = (json.dumps(case["cfg"], sort_keys=True), json.dumps(case["ops"])) if nontrivial else None
        run.case(key, sample={"cfg": case["cfg"], "ops": case["ops"][:8], "impl": [(a["r"], a["rem"], a["ns"]) for a in steps[:8]]} if k in (4, 9) else None)
        run.count("kind=" + case["kind"])
        run.count("rate=" + ("0" if ans["cfg"]["rate"] == 0 else "1-9" if ans["cfg"]["rate"] < 10 else "10-50"))
        run.count("burst=" + ("0" if ans["cfg"]["burst"] == 0 else "1-3" if ans["cfg"]["burst"] < 4 else "4+"))
        run.count("cap=%d" % ans["cfg"]["cap"])
        run.count("clients=%d" % len({c for _, c in case["ops"]}))
        run.count("admitted", sum(1 for a in steps if a["r"] == "A"))
        run.count("limited", sum(1 for a in steps if a["r"] == "L"))
        run.count("evictions", sum(1 for a in steps if a["ev"]))
        fails = oracle(case, ans)
        if fails:
            n_or += 1
            run.count("oracle_fail")
            if n_or <= 3:
                small = shrink(binpath, case)
                sa = run_impl(binpath, [small])[0]
                run.violation("; ".join(oracle(small, sa))[:600],
                              {"cfg": small["cfg"], "ops": small["ops"], "implementation": sa,
                               "contradicts": "C30_bound / C30_retry_finite / C30_no_panic in coq/theories/RateLimit/Props.v"})
            continue
        if ms is None:
            continue
        m = parse_model(ms)
        diffs = compare(case, ans, m)
        if diffs:
            if fragile(case, ans, m):
                n_fragile += 1
                run.count("fragile_rounding_skipped")
                continue
            n_corr += 1
            if n_corr <= 3:
                run.tie_broken("correspondence RateLimit/Model.v vs rate_limit.rs on %s" % json.dumps({"cfg": case["cfg"], "ops": case["ops"]}), "; ".join(diffs[:4]))
    run.extra["oracle_failures"] = n_or
    run.extra["disagreements"] = n_corr
    run.extra["fragile_rounding_skipped"] = n_fragile


def replay(run, path):
    r = json.load(open(path))["replay"]
    ok, bindir, lg = harness.build("vp-ratelimit")
    binpath = os.path.join(bindir, "vp-ratelimit")
    case = {"cfg": r["cfg"], "ops": r["ops"], "kind": "replay"}
    ans = run_impl(binpath, [case])[0]
    run.case(("replay",), {"cfg": r["cfg"], "ops": r["ops"]})
    fails = oracle(case, ans)
    if fails:
        run.violation("; ".join(fails)[:600], {"cfg": r["cfg"], "ops": r["ops"], "implementation": ans})
