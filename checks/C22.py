"""C22 — tenant and pipeline metadata survive restarts exactly as acknowledged."""
import json
import os

from checks import store_common as S
from vplib import coqtools, harness

META = {
    "technique": "Coq proof (invariant by induction over all operation histories and crash points) about an executable model of the "
                 "snapshot + index persistence protocol and of recover(); model tied to the code by a differential run through the real REST "
                 "handlers (warp::test) onto a crashing StateStore wrapper, and an independent abstract-state oracle",
    "level_text": "proof about model + differential correspondence + independent oracle on the implementation",
    "level_note": "Proved for every history of create/delete tenant, deploy/delete/reload pipeline and restarts (any length, fresh ids) and "
                  "every crash point (after any number of store writes): the recovered manager holds exactly the tenants (name, key, "
                  "pipelines with name/source/status) of the state after the last completed operation, or that state with the in-flight "
                  "operation applied. Modelled: tenant/pipeline ids, names, keys, sources as numbers; serde_json encoding of snapshots and of "
                  "the index as abstract values; the store as a key-value map whose single put/delete is atomic (crash = all later writes "
                  "lost); a reload is `source := new source` whatever the engine's ReloadReport says. The oracle compares the recovered and "
                  "the stored source of every pipeline byte for byte (exact match against the harness's source table) with the acknowledged one. "
                  "Tested only: which handlers call persist_if_needed (the differential run goes through the real handlers; a handler "
                  "that forgets to persist shows up as an oracle failure), usage counters and quotas are not part of the statement.",
    "design_ref": "DESIGN.md §7 C22",
}


def cases_for(run, binpath):
    rng = run.rng
    hist = list(S.CORPUS22)
    for _ in range(45 if run.tier == "quick" else 900):
        hist.append(S.gen_history22(rng))
    # one uncrashed run per history tells how many store writes it performs; then every crash point
    base = harness.run_jsonl(binpath, [{"prop": "C22", "ops": h, "crash_after": None} for h in hist])
    cases = []
    for h, b in zip(hist, base):
        cases.append({"ops": h, "crash_after": None})
        total = sum(s["writes"] for s in b.get("steps", []))
        for k in range(total + 1):
            cases.append({"ops": h, "crash_after": k})
    return cases


def check(run):
    run.rule = ("operation histories of length <= 8 over 2 tenants and 3 pipelines (create/delete tenant, deploy/delete/reload pipeline, "
                "restart, rejected requests; reloads with a byte-identical source, a source differing only in comments/blank lines, only in a "
                "function body / event declaration / constant, and with changed streams) driven through the REST handlers, with a crash after every possible number of store writes "
                "(0..total) plus the uncrashed run; non-trivial = history with >= 3 acknowledged operations and a crash inside an "
                "operation; distinct = distinct (history, crash point)")
    run.trusted += ["Coq 8.16.1 kernel + vm_compute",
                    "hand-written model coq/theories/Store/Tenant.v tied by differential run (per operation: accepted/rejected, number of store "
                    "writes, frozen; final store index and snapshots; recovered manager)",
                    "store semantics: a single StateStore::put/delete is atomic, a crash loses exactly the writes not yet made (harness-side "
                    "CrashingStore over MemoryStore); FileStore's own put atomicity is C21's subject",
                    "uuid freshness of tenant and pipeline ids (hypothesis fresh_creates of the theorem)",
                    "Rust harness harness/crates/store (warp::test through varpulis_cli::api::api_routes), driver checks/store_common.py"]
    run.assumptions += ["tenant and pipeline ids never repeat (uuid v4)", "VPL sources are valid (deploy/reload/recover parse the same text)"]
    binpath = S.build(run, ["theories/Store/TenantProps.vo"], "C22.v")
    if binpath is None:
        return
    # the sources the histories use must all load, and 0-4 must reload into each other without any stream change
    srcs = harness.run_jsonl(binpath, [{"prop": "C22src"}])[0].get("sources", [])
    bad = [x for x in srcs if not x["loads"] or (x["index"] in S.SAME_STREAMS) != x["reload_from_0_changes_no_stream"]]
    if len(srcs) != S.N_SOURCES or bad:
        run.tie_broken("pipeline sources of the C22 histories (harness SOURCES) no longer load / reload as intended", json.dumps(bad or srcs)[:1500])
    cases = cases_for(run, binpath)
    answers = harness.run_jsonl(binpath, [dict(prop="C22", **c) for c in cases])
    impl = [S.impl_str22(a) for a in answers]
    try:
        model = coqtools.coq_eval("C22", S.IMPORTS22, [S.g_case22(c) for c in cases], shard=max(20, len(cases) // 16 + 1))
    except RuntimeError as e:
        run.tie_broken("model evaluation (coqc cases)", str(e))
        model = [None] * len(cases)
    n_or = n_co = 0
    for k, (c, a, si, sm) in enumerate(zip(cases, answers, impl, model)):
        steps = a.get("steps", [])
        acked = sum(1 for s in steps if 200 <= s["status"] < 300)
        mid = bool(steps) and steps[-1]["frozen"] and steps[-1]["writes"] > 0
        run.case((json.dumps(c["ops"]), c["crash_after"]) if acked >= 3 and mid else None,
                 sample={"case": c, "impl": si[:300]} if k in (1, 12) else None)
        run.count("crash=" + ("none" if c["crash_after"] is None else ("inside-op" if mid else "between-ops")))
        if steps and steps[-1]["frozen"]:
            run.count("in-flight=" + c["ops"][len(steps) - 1][0] + "@%d" % steps[-1]["writes"])
        for o, s in zip(c["ops"], steps):
            run.count("op=%s:%s" % (o[0], "ack" if 200 <= s["status"] < 300 else "rejected"))
        for kd in S.reload_kinds22(c, a):
            run.count("reload=" + kd)
        fails = S.oracle22(c, a)
        if fails:
            n_or += 1
            run.count("oracle_fail")
            if n_or <= 3:
                small = shrink(binpath, c)
                aa = harness.run_jsonl(binpath, [dict(prop="C22", **small)])[0]
                run.violation("; ".join(S.oracle22(small, aa))[:700],
                              {"case": small, "implementation": aa, "contradicts": "C22_recover in coq/theories/Store/TenantProps.v"})
        if sm is not None and si != sm:
            n_co += 1
            if n_co <= 3:
                run.tie_broken("correspondence Store/Tenant.v vs tenant.rs/api.rs on %s" % json.dumps(c),
                               "model and implementation differ:\n impl  %s\n model %s" % (si, sm))
    run.extra["oracle_failures"] = n_or
    run.extra["disagreements"] = n_co


def shrink(binpath, case):
    def bad(c):
        a = harness.run_jsonl(binpath, [dict(prop="C22", **c)])[0]
        return bool(S.oracle22(c, a))
    ops = list(case["ops"])
    k = case["crash_after"]
    changed = True
    while changed:
        changed = False
        for i in range(len(ops) - 1, -1, -1):
            cand_ops = ops[:i] + ops[i + 1:]
            for kk in ([k] if k is None else sorted({k, max(0, k - 2)})):
                cand = {"ops": cand_ops, "crash_after": kk}
                if cand_ops and bad(cand):
                    ops, k = cand_ops, kk
                    changed = True
                    break
            if changed:
                break
    return {"ops": ops, "crash_after": k}


def replay(run, path):
    r = json.load(open(path))["replay"]
    ok, bindir, lg = harness.build("vp-store")
    c = r["case"]
    a = harness.run_jsonl(os.path.join(bindir, "vp-store"), [dict(prop="C22", **c)])[0]
    run.case(("replay",), {"case": c})
    run.case(("replay2",))
    fails = S.oracle22(c, a)
    if fails:
        run.violation("; ".join(fails)[:700], {"case": c, "implementation": a})
