"""Shared machinery for C10 / C11 (constant folder, expression evaluator).

Pipeline: translators (fold_rules.py, expr_arms.py) -> build Coq (Expr area) -> audit theorems -> build harness vp-expr -> generate expressions and
events -> run the implementation (evaluator API on the AST, and real programs through
parse / parse_unfolded + Engine) -> run the model (vm_compute) -> oracles + comparison.

Expressions are the harness JSON form (see harness/crates/expr/src/main.rs); values are the tagged
JSON of vp-common.
"""
import json
import os
import subprocess

from vplib import coqtools, harness
from vplib.common import VERIF, sh, log

IMPORTS = ("From Coq Require Import String ZArith List.\nImport ListNotations.\n"
           "From VP Require Import Base.Tactics Expr.Syntax Expr.Model Expr.Run.\n"
           "Open Scope string_scope.\nOpen Scope Z_scope.\n")
I64_MIN = -(1 << 63)
I64_MAX = (1 << 63) - 1
NAN_BITS = 0x7FF8000000000000
MARKER = 1114111


def f_bits(x):
    import struct
    return struct.unpack("<Q", struct.pack("<d", x))[0]


def bits_f(b):
    import struct
    return struct.unpack("<d", struct.pack("<Q", b))[0]


def is_nan_bits(b):
    return (b & 0x7FF0000000000000) == 0x7FF0000000000000 and (b & 0x000FFFFFFFFFFFFF) != 0


def canon_bits(b):
    return NAN_BITS if is_nan_bits(b) else b


# ------------------------------------------------------------------ Coq literals
def g_str(s):
    return "[" + ";".join("%d%%N" % ord(c) for c in s) + "]"


def g_value(v):
    (k, x), = v.items()
    if k == "n":
        return "vn"
    if k == "b":
        return "(vb %s)" % ("true" if x else "false")
    if k == "i":
        return "(vi (%s))" % x
    if k == "f":
        return "(vf %s)" % x
    if k == "s":
        return "(vs %s)" % g_str(x)
    if k == "ts":
        return "(vt (%s))" % x
    if k == "dur":
        return "(vd %s)" % x
    if k == "a":
        return "(va [%s])" % "; ".join(g_value(y) for y in x)
    if k == "m":
        return "(vm [%s])" % "; ".join("(%s, %s)" % (g_str(kk), g_value(y)) for kk, y in x)
    raise ValueError(k)


def g_event(ev):
    return "(ev %s [%s])" % (g_str(ev["type"]), "; ".join("(%s, %s)" % (g_str(k), g_value(v)) for k, v in ev["fields"]))


COQ_BINOP = {"Eq": "Eq_", "Lt": "Lt_", "Gt": "Gt_", "In": "In_"}


def g_expr(e):
    (k, x), = e.items()
    if k == "id":
        return "(ex %s)" % g_str(x)
    if k == "i":
        return "(ei (%s))" % x
    if k == "f":
        return "(ef %s)" % x
    if k == "s":
        return "(es %s)" % g_str(x)
    if k == "b":
        return "(eb %s)" % ("true" if x else "false")
    if k == "n":
        return "en"
    if k == "dur":
        return "(ed %s)" % x
    if k == "ts":
        return "(et (%s))" % x
    if k == "bin":
        return "(e2 %s %s %s)" % (COQ_BINOP.get(x[0], x[0]), g_expr(x[1]), g_expr(x[2]))
    if k == "un":
        return "(e1 %s %s)" % (x[0], g_expr(x[1]))
    if k == "arr":
        return "(ea [%s])" % "; ".join(g_expr(y) for y in x)
    if k == "map":
        return "(em [%s])" % "; ".join("(%s, %s)" % (g_str(kk), g_expr(y)) for kk, y in x)
    if k == "mem":
        return "(emem %s %s)" % (g_expr(x[0]), g_str(x[1]))
    if k == "omem":
        return "(eomem %s %s)" % (g_expr(x[0]), g_str(x[1]))
    if k == "idx":
        return "(eidx %s %s)" % (g_expr(x[0]), g_expr(x[1]))
    if k == "slice":
        return "(esl %s %s %s)" % (g_expr(x[0]), "None" if x[1] is None else "(Some %s)" % g_expr(x[1]),
                                   "None" if x[2] is None else "(Some %s)" % g_expr(x[2]))
    if k == "call":
        args = []
        for a in x[1]:
            if "named" in a:
                args.append("(Some %s, %s)" % (g_str(a["named"][0]), g_expr(a["named"][1])))
            else:
                args.append("(None, %s)" % g_expr(a))
        return "(ecall %s [%s])" % (g_expr(x[0]), "; ".join(args))
    if k == "lam":
        return "(elam [%s] %s)" % ("; ".join(g_str(p) for p in x[0]), g_expr(x[1]))
    if k == "if":
        return "(eif %s %s %s)" % tuple(g_expr(y) for y in x)
    if k == "coal":
        return "(eco %s %s)" % (g_expr(x[0]), g_expr(x[1]))
    if k == "range":
        return "(erng %s %s %s)" % (g_expr(x[0]), g_expr(x[1]), "true" if x[2] else "false")
    if k == "block":
        return "(eblk [%s] %s)" % ("; ".join("(%s, %s, %s)" % (g_str(n), g_expr(y), "true" if m else "false") for n, y, m in x[0]), g_expr(x[1]))
    raise ValueError(k)


def g_case(e, events):
    return "run_case %s [%s]" % (g_expr(e), "; ".join(g_event(ev) for ev in events))


# ------------------------------------------- canonical strings (same format as Expr/Run.v)
def r_str(s):
    return "[" + ",".join(str(ord(c)) for c in s) + "]"


def r_value(v):
    (k, x), = v.items()
    if k == "n":
        return "n"
    if k == "b":
        return "b1" if x else "b0"
    if k == "i":
        return "i" + str(int(x))
    if k == "f":
        return "f" + str(canon_bits(int(x)))
    if k == "s":
        return "s" + r_str(x)
    if k == "ts":
        return "t" + str(int(x))
    if k == "dur":
        return "d" + str(int(x))
    if k == "a":
        return "a[" + ",".join(r_value(y) for y in x) + "]"
    if k == "m":
        return "m[" + ",".join(r_str(kk) + "=" + r_value(y) for kk, y in x) + "]"
    raise ValueError(k)


def r_result(r):
    """harness evaluation result -> V:.. | N | P"""
    if r is None:
        return "-"
    if "v" in r:
        return "V:" + r_value(r["v"])
    if "none" in r:
        return "N"
    return "P"


def r_expr(e):
    (k, x), = e.items()
    if k == "n":
        return "n"
    if k == "b":
        return "b1" if x else "b0"
    if k == "i":
        return "i" + str(int(x))
    if k == "f":
        return "f" + str(canon_bits(int(x)))
    if k == "s":
        return "s" + r_str(x)
    if k == "dur":
        return "d" + str(int(x))
    if k == "ts":
        return "t" + str(int(x))
    if k == "arr":
        return "A[" + ",".join(r_expr(y) for y in x) + "]"
    if k == "map":
        return "M[" + ",".join(r_str(kk) + "=" + r_expr(y) for kk, y in x) + "]"
    if k == "id":
        return "x" + r_str(x)
    if k == "bin":
        return "B(%s,%s,%s)" % (x[0], r_expr(x[1]), r_expr(x[2]))
    if k == "un":
        return "U(%s,%s)" % (x[0], r_expr(x[1]))
    if k == "mem":
        return "Mem(%s,%s)" % (r_expr(x[0]), r_str(x[1]))
    if k == "omem":
        return "OMem(%s,%s)" % (r_expr(x[0]), r_str(x[1]))
    if k == "idx":
        return "Idx(%s,%s)" % (r_expr(x[0]), r_expr(x[1]))
    if k == "slice":
        return "Sl(%s,%s,%s)" % (r_expr(x[0]), "-" if x[1] is None else r_expr(x[1]), "-" if x[2] is None else r_expr(x[2]))
    if k == "call":
        args = []
        for a in x[1]:
            if "named" in a:
                args.append("N%s:%s" % (r_str(a["named"][0]), r_expr(a["named"][1])))
            else:
                args.append("P:" + r_expr(a))
        return "C(%s,[%s])" % (r_expr(x[0]), ",".join(args))
    if k == "lam":
        return "L([%s],%s)" % (",".join(r_str(p) for p in x[0]), r_expr(x[1]))
    if k == "if":
        return "If(%s,%s,%s)" % tuple(r_expr(y) for y in x)
    if k == "coal":
        return "Co(%s,%s)" % (r_expr(x[0]), r_expr(x[1]))
    if k == "range":
        return "R(%s,%s,%s)" % (r_expr(x[0]), r_expr(x[1]), "1" if x[2] else "0")
    if k == "block":
        return "Bl([%s],%s)" % (",".join("%s:%s:%s" % (r_str(n), r_expr(y), "1" if m else "0") for n, y, m in x[0]), r_expr(x[1]))
    raise ValueError(k)


# --------------------------------------------------------------------- VPL text
BIN_SYM = {"Add": "+", "Sub": "-", "Mul": "*", "Div": "/", "Mod": "%", "Pow": "**", "Eq": "==", "NotEq": "!=",
           "Lt": "<", "Le": "<=", "Gt": ">", "Ge": ">=", "In": "in", "NotIn": "not in", "Is": "is",
           "And": "and", "Or": "or", "BitAnd": "&", "BitOr": "|", "BitXor": "^", "Shl": "<<", "Shr": ">>"}
TEXT_FLOATS = {"0.0": 0.0, "1.0": 1.0, "0.5": 0.5, "2.5": 2.5, "1.5": 1.5, "100.25": 100.25, "0.1": 0.1,
               "1.0e308": 1.0e308, "9007199254740993.0": 9007199254740993.0, "3.0": 3.0}
BITS_TEXT = {f_bits(v): k for k, v in TEXT_FLOATS.items()}
DUR_TEXT = {5_000_000_000: "5s", 1_000_000: "1ms", 120_000_000_000: "2m"}


class NoText(Exception):
    pass


def to_vpl(e):
    """VPL source text for an expression (fully parenthesised); NoText if the grammar cannot spell it."""
    (k, x), = e.items()
    if k == "id":
        return x
    if k == "i":
        if int(x) < 0:
            raise NoText("negative int literal")
        return str(int(x))
    if k == "f":
        if int(x) not in BITS_TEXT:
            raise NoText("float literal")
        return BITS_TEXT[int(x)]
    if k == "s":
        if '"' in x or "\\" in x or "\n" in x:
            raise NoText("string literal")
        return '"%s"' % x
    if k == "b":
        return "true" if x else "false"
    if k == "n":
        return "null"
    if k == "dur":
        if int(x) not in DUR_TEXT:
            raise NoText("duration")
        return DUR_TEXT[int(x)]
    if k == "ts":
        if int(x) != 1704067200000000000:
            raise NoText("timestamp")
        return "@2024-01-01"
    if k == "bin":
        if x[0] not in BIN_SYM:
            raise NoText("operator " + x[0])
        return "(%s %s %s)" % (to_vpl(x[1]), BIN_SYM[x[0]], to_vpl(x[2]))
    if k == "un":
        if x[0] == "Neg":
            return "(-(%s))" % to_vpl(x[1])
        if x[0] == "Not":
            return "(not (%s))" % to_vpl(x[1])
        return "(~(%s))" % to_vpl(x[1])
    if k == "arr":
        return "[%s]" % ", ".join(to_vpl(y) for y in x)
    if k == "map":
        return "{%s}" % ", ".join('"%s": %s' % (kk, to_vpl(y)) for kk, y in x)
    if k == "mem":
        return "(%s).%s" % (to_vpl(x[0]), x[1]) if "id" not in x[0] else "%s.%s" % (x[0]["id"], x[1])
    if k == "omem":
        return "(%s)?.%s" % (to_vpl(x[0]), x[1]) if "id" not in x[0] else "%s?.%s" % (x[0]["id"], x[1])
    if k == "idx":
        return "(%s)[%s]" % (to_vpl(x[0]), to_vpl(x[1]))
    if k == "slice":
        return "(%s)[%s:%s]" % (to_vpl(x[0]), "" if x[1] is None else "(%s)" % to_vpl(x[1]), "" if x[2] is None else "(%s)" % to_vpl(x[2]))
    if k == "call":
        if "id" not in x[0]:
            raise NoText("call of a non-identifier")
        args = []
        for a in x[1]:
            if "named" in a:
                args.append("%s: %s" % (a["named"][0], to_vpl(a["named"][1])))
            else:
                args.append(to_vpl(a))
        return "%s(%s)" % (x[0]["id"], ", ".join(args))
    if k == "lam":
        return "((%s) => %s)" % (", ".join(x[0]), to_vpl(x[1]))
    if k == "if":
        return "(if %s then %s else %s)" % tuple(to_vpl(y) for y in x)
    if k == "range":
        return "(%s %s %s)" % (to_vpl(x[0]), "..=" if x[2] else "..", to_vpl(x[1]))
    raise NoText(k)


# ------------------------------------------------------------------- generators
INT_BOUNDARY = [0, 1, -1, 2, 3, 7, 10, 63, 64, 100, -2, -7, I64_MAX, I64_MIN, I64_MAX - 1, I64_MIN + 1,
                1 << 31, (1 << 31) - 1, -(1 << 31), 1 << 32, (1 << 53) + 1, 1 << 62, -(1 << 62), 3037000500, 4294967296 + 3]
FLOAT_BOUNDARY = [0.0, -0.0, 1.0, -1.0, 0.5, -0.5, 1.5, 2.5, -2.5, 3.0, 100.25, 0.1, float("nan"), float("inf"), float("-inf"),
                  1.0e308, -1.0e308, 5e-324, 2.0 ** 53, 2.0 ** 63, -(2.0 ** 63), 1e19, -1e19, 9007199254740993.0, 4.9, -4.9, 1e-7]
STR_BOUNDARY = ["", "a", "n", "abc", "Hello World ", " 7 ", "12", "-5", "+9", "9223372036854775808", "1.5", "a,b,,c", "x y",
                "€日", "\U0001F600!", "aaa"]
FIELD_NAMES = ["x", "y", "price", "name", "flag", "arr", "m", "q"]
ARITH_OPS = ["Add", "Sub", "Mul", "Div", "Mod", "Pow"]
CMP_OPS = ["Eq", "NotEq", "Lt", "Le", "Gt", "Ge"]
LOGIC_OPS = ["And", "Or"]
OTHER_OPS = ["In", "NotIn", "Xor", "Is", "FollowedBy", "BitAnd", "BitOr", "BitXor", "Shl", "Shr"]
BUILTINS_1 = ["abs", "sqrt", "floor", "ceil", "round", "len", "first", "last", "pop", "reverse", "sort", "keys", "values",
              "sum", "avg", "to_string", "to_int", "to_float", "trim", "lower", "lowercase", "upper", "uppercase", "type_of",
              "is_null", "is_int", "is_float", "is_string", "is_bool", "is_array", "is_map", "log", "log10", "exp", "sin", "cos", "tan", "range"]
BUILTINS_2 = ["pow", "min", "max", "push", "contains", "get", "split", "join", "starts_with", "ends_with", "substring"]
BUILTINS_3 = ["set", "replace", "substring"]
OPAQUE_CALLS = {"log", "log10", "exp", "sin", "cos", "tan"}


def v_int(n):
    return {"i": str(n)}


def v_float(x):
    return {"f": str(f_bits(x))}


def gen_scalar(rng, small=False):
    k = rng.below(20)
    if k < 7:
        return v_int(rng.choice(INT_BOUNDARY) if not small and rng.chance(2, 3) else rng.range(-9, 9))
    if k < 12:
        return v_float(rng.choice(FLOAT_BOUNDARY))
    if k < 16:
        return {"s": rng.choice(STR_BOUNDARY)}
    if k < 18:
        return {"b": rng.chance(1, 2)}
    if k < 19:
        return {"n": None}
    return rng.choice([{"ts": str(rng.choice([0, 1704067200000000000, -1, I64_MAX, I64_MIN]))},
                       {"dur": str(rng.choice([0, 999, 1_000_000, 5_000_000_000, 86400_000_000_000 * 3, (1 << 64) - 1]))}])


def gen_value(rng, depth=2):
    k = rng.below(10)
    if depth <= 0 or k < 6:
        return gen_scalar(rng)
    if k < 8:
        n = rng.below(5)
        kind = rng.below(4)
        if kind == 0:
            return {"a": [v_int(rng.choice(INT_BOUNDARY)) for _ in range(n)]}
        if kind == 1:
            return {"a": [{"s": rng.choice(STR_BOUNDARY)} for _ in range(n)]}
        if kind == 2:
            return {"a": [v_float(rng.choice(FLOAT_BOUNDARY)) for _ in range(n)]}
        return {"a": [gen_value(rng, depth - 1) for _ in range(n)]}
    n = rng.below(4)
    keys = rng.shuffle(["a", "b", "k", "name", "x"])[:n]
    return {"m": [[kk, gen_value(rng, depth - 1)] for kk in keys]}


def gen_event(rng, names=FIELD_NAMES):
    fields = []
    for nm in names:
        r = rng.below(12)
        if r == 0:
            continue                       # missing field
        if nm in ("x", "y", "q") and r < 9:
            v = v_int(rng.choice(INT_BOUNDARY)) if rng.chance(3, 5) else v_float(rng.choice(FLOAT_BOUNDARY))
        elif nm == "price" and r < 9:
            v = v_float(rng.choice(FLOAT_BOUNDARY)) if rng.chance(3, 4) else v_int(rng.choice(INT_BOUNDARY))
        elif nm == "name" and r < 9:
            v = {"s": rng.choice(STR_BOUNDARY)}
        elif nm == "flag" and r < 9:
            v = {"b": rng.chance(1, 2)}
        elif nm == "arr" and r < 10:
            v = gen_value(rng, 2)
            if "a" not in v:
                v = {"a": [gen_scalar(rng) for _ in range(rng.below(5))]}
        elif nm == "m" and r < 10:
            v = {"m": [[kk, gen_value(rng, 1)] for kk in rng.shuffle(["a", "b", "k", "x"])[:rng.below(4)]]}
        else:
            v = gen_value(rng, 2)
        fields.append([nm, v])
    if rng.chance(1, 6):
        fields.append(["m.a", gen_scalar(rng)])
    if rng.chance(1, 6):
        fields.append(["m_b", gen_scalar(rng)])
    return {"type": "A", "fields": fields}


def lit_of_value(v):
    """expression literal for a scalar value (None for arrays/maps)"""
    (k, x), = v.items()
    if k in ("i", "f", "s", "b", "n", "ts", "dur"):
        return {k: x}
    return None


class Gen:
    """Expression generator.  profile 'fold': arithmetic/boolean expressions mixing literals (0, 1, extremes) with
    fields (C10's quantifier).  profile 'all': every operator, expression kind and built-in (C11's quantifier).
    text=True restricts to what the VPL grammar can spell (no negative / non-finite literals, ...)."""

    def __init__(self, rng, profile, text=False):
        self.rng = rng
        self.profile = profile
        self.text = text

    def int_lit(self):
        rng = self.rng
        n = rng.choice([0, 0, 1, 1, -1, 2, 3, 10, 63, 64]) if rng.chance(1, 2) else rng.choice(INT_BOUNDARY)
        if self.text and n < 0:
            if n == I64_MIN:
                # spelled (0 - MAX) - 1: folds to MIN at parse time
                return {"bin": ["Sub", {"un": ["Neg", v_int(I64_MAX)]}, v_int(1)]}
            return {"un": ["Neg", v_int(-n)]}
        return v_int(n)

    def float_lit(self):
        rng = self.rng
        if self.text:
            t = rng.choice(sorted(TEXT_FLOATS))
            e = v_float(TEXT_FLOATS[t])
            return {"un": ["Neg", e]} if rng.chance(1, 5) else e
        return v_float(rng.choice(FLOAT_BOUNDARY))

    def leaf(self):
        rng = self.rng
        k = rng.below(20)
        if k < 7:
            return {"id": rng.choice(FIELD_NAMES + ["missing"])}
        if k < 13:
            return self.int_lit()
        if k < 16:
            return self.float_lit()
        if k < 17:
            s = rng.choice(STR_BOUNDARY)
            return {"s": s}
        if k < 18:
            return {"b": rng.chance(1, 2)}
        if k < 19:
            return {"n": None}
        if self.profile == "all" or rng.chance(1, 3):
            return rng.choice([{"dur": "5000000000"}, {"ts": "1704067200000000000"}, {"dur": "1000000"}])
        return self.int_lit()

    def identity_shape(self, depth):
        """the rewrite shapes of fold_binary's identity pass, and literal folds at the extremes"""
        rng = self.rng
        x = self.expr(depth - 1) if rng.chance(1, 3) else {"id": rng.choice(FIELD_NAMES)}
        shapes = [("Mul", x, v_int(0)), ("Mul", v_int(0), x), ("Mul", x, v_int(1)), ("Mul", v_int(1), x),
                  ("Add", x, v_int(0)), ("Add", v_int(0), x), ("Sub", x, v_int(0)), ("Div", x, v_int(1)),
                  ("Sub", v_int(0), x), ("Div", v_int(0), x), ("Pow", x, v_int(1)), ("Pow", x, v_int(0)),
                  ("Mod", x, v_int(1)), ("Mul", x, v_float(1.0)), ("Add", x, v_float(0.0))]
        op, l, r = rng.choice(shapes)
        return {"bin": [op, l, r]}

    def literal_fold(self):
        rng = self.rng
        if rng.chance(1, 4):
            return {"un": ["Neg", self.int_lit() if rng.chance(2, 3) else self.float_lit()]}
        op = rng.choice(ARITH_OPS)
        if rng.chance(3, 4):
            a, b = self.int_lit(), self.int_lit()
            if op == "Pow" and rng.chance(2, 3):
                a = rng.choice([v_int(2), v_int(3), v_int(10), self.int_lit()])
                b = rng.choice([v_int(62), v_int(63), v_int(64), v_int(34), v_int(40), v_int(2), self.int_lit()])
            return {"bin": [op, a, b]}
        return {"bin": [op, self.float_lit(), self.float_lit()]}

    # argument kinds each built-in does something with (so that generated calls reach its arms)
    HINTS = {"abs": ["num"], "sqrt": ["num"], "floor": ["num"], "ceil": ["num"], "round": ["num"], "log": ["num"], "log10": ["num"],
             "exp": ["num"], "sin": ["num"], "cos": ["num"], "tan": ["num"], "pow": ["num", "num"], "min": ["num", "num"], "max": ["num", "num"],
             "len": ["coll"], "first": ["arr"], "last": ["arr"], "push": ["arr", "any"], "pop": ["arr"], "reverse": ["coll"], "sort": ["arr"],
             "contains": ["coll", "any"], "keys": ["map"], "values": ["map"], "get": ["coll", "key"], "set": ["coll", "key", "any"],
             "sum": ["arr"], "avg": ["arr"], "to_string": ["any"], "to_int": ["any"], "to_float": ["any"], "trim": ["str"], "lower": ["str"],
             "lowercase": ["str"], "upper": ["str"], "uppercase": ["str"], "split": ["str", "str"], "join": ["arr", "str"],
             "replace": ["str", "str", "str"], "starts_with": ["str", "str"], "ends_with": ["str", "str"], "substring": ["str", "int", "int"],
             "type_of": ["any"], "is_null": ["any"], "is_int": ["any"], "is_float": ["any"], "is_string": ["any"], "is_bool": ["any"],
             "is_array": ["any"], "is_map": ["any"]}

    def typed_arg(self, kind, depth):
        rng = self.rng
        if kind == "any" or rng.chance(1, 4):
            return self.expr(depth - 1)
        if kind == "num":
            return rng.choice([{"id": "x"}, {"id": "y"}, {"id": "q"}, {"id": "price"}, self.int_lit(), self.float_lit()])
        if kind == "int":
            return rng.choice([{"id": "x"}, {"id": "q"}, self.int_lit(), v_int(rng.range(0, 5)), v_int(rng.range(0, 5))])
        if kind == "str":
            return rng.choice([{"id": "name"}, {"id": "name"}, {"s": rng.choice(STR_BOUNDARY)}, {"s": rng.choice(["a", "", " ", ",", "l"])}])
        if kind == "arr":
            return rng.choice([{"id": "arr"}, {"id": "arr"}, {"arr": [self.expr(depth - 1) for _ in range(rng.below(4))]},
                               {"call": [{"id": "split"}, [{"id": "name"}, {"s": rng.choice(["", " ", ","])}]]}])
        if kind == "map":
            return rng.choice([{"id": "m"}, {"id": "m"}, {"map": [[kk, self.expr(depth - 1)] for kk in rng.shuffle(["a", "b", "k"])[:rng.below(3)]]}])
        if kind == "coll":
            return rng.choice([{"id": "arr"}, {"id": "m"}, {"id": "name"}, {"s": rng.choice(STR_BOUNDARY)}])
        if kind == "key":
            return rng.choice([v_int(rng.range(-2, 4)), self.int_lit(), {"s": rng.choice(["a", "b", "k", "x"])}, {"id": "x"}])
        return self.expr(depth - 1)

    def call(self, depth):
        rng = self.rng
        r = rng.below(10)
        if r < 5:
            name, n = rng.choice(BUILTINS_1), 1
        elif r < 8:
            name, n = rng.choice(BUILTINS_2), 2
        elif r < 9:
            name, n = rng.choice(BUILTINS_3), 3
        else:
            # wrong arity / unknown function
            name, n = rng.choice(BUILTINS_1 + BUILTINS_2 + ["nosuch"]), rng.below(4)
        if name == "range":
            return {"call": [{"id": "range"}, [v_int(rng.below(5)), v_int(rng.below(7))][:max(1, n)]]}
        hints = self.HINTS.get(name, [])
        args = [self.typed_arg(hints[k] if k < len(hints) else "any", depth) for k in range(n)]
        if rng.chance(1, 12) and args:
            args[0] = {"named": ["v", args[0]]}
        return {"call": [{"id": name}, args]}

    def expr(self, depth):
        rng = self.rng
        if depth <= 0:
            return self.leaf()
        k = rng.below(100)
        fold = self.profile == "fold"
        if k < 12:
            return self.leaf()
        if k < (34 if fold else 24):
            return self.identity_shape(depth)
        if k < (46 if fold else 30):
            return self.literal_fold()
        if k < (66 if fold else 44):
            return {"bin": [rng.choice(ARITH_OPS), self.expr(depth - 1), self.expr(depth - 1)]}
        if k < (74 if fold else 52):
            return {"bin": [rng.choice(CMP_OPS), self.expr(depth - 1), self.expr(depth - 1)]}
        if k < (80 if fold else 57):
            return {"bin": [rng.choice(LOGIC_OPS), self.expr(depth - 1), self.expr(depth - 1)]}
        if k < (86 if fold else 62):
            return {"un": [rng.choice(["Neg", "Neg", "Not"]), self.expr(depth - 1)]}
        if k < (90 if fold else 66):
            return {"if": [self.expr(depth - 1), self.expr(depth - 1), self.expr(depth - 1)]}
        if fold and k < 94:
            return self.call(depth)
        if fold:
            return rng.choice([
                lambda: {"arr": [self.expr(depth - 1) for _ in range(rng.below(3))]},
                lambda: {"idx": [self.expr(depth - 1), self.expr(depth - 1)]},
                lambda: {"mem": [{"id": rng.choice(["m", "A", "x"])}, rng.choice(["a", "b", "x"])]},
            ])()
        # profile 'all'
        if k < 78:
            return self.call(depth)
        if k < 80:
            return {"bin": [rng.choice(["In", "NotIn", "Xor"]), self.expr(depth - 1),
                            rng.choice([{"id": "arr"}, {"id": "m"}, {"id": "name"}, self.expr(depth - 1)])]}
        if k < 83:
            return {"arr": [self.expr(depth - 1) for _ in range(rng.below(4))]}
        if k < 85:
            return {"map": [[kk, self.expr(depth - 1)] for kk in rng.shuffle(["a", "b", "a", "k"])[:rng.below(4)]]}
        if k < 88:
            return {"idx": [self.expr(depth - 1), self.expr(depth - 1)]}
        if k < 91:
            return {"slice": [self.expr(depth - 1), self.expr(depth - 1) if rng.chance(2, 3) else None,
                              self.expr(depth - 1) if rng.chance(2, 3) else None]}
        if k < 93:
            return {"mem": [{"id": rng.choice(["m", "A", "x", "arr"])} if rng.chance(4, 5) else self.expr(depth - 1),
                            rng.choice(["a", "b", "x", "name"])]}
        if k < 94:
            return {"bin": [rng.choice(OTHER_OPS if not self.text else ["In", "NotIn", "Is", "BitAnd", "BitOr", "BitXor", "Shl", "Shr"]),
                            self.expr(depth - 1), self.expr(depth - 1)]}
        if k < 95:
            a, b = rng.below(4), rng.below(6)
            return {"range": [v_int(a), v_int(b), rng.chance(1, 2)]}
        if k < 96 and not self.text:
            return {"coal": [self.expr(depth - 1), self.expr(depth - 1)]}
        if k < 97:
            return {"omem": [self.expr(depth - 1), rng.choice(["a", "y"])]}
        if k < 98:
            return {"lam": [["v"], self.expr(depth - 1)]}
        if k < 99 and not self.text:
            return {"block": [[["t", self.expr(depth - 1), False]], self.expr(depth - 1)]}
        if k < 99:
            return {"ts": "1704067200000000000"}
        return {"un": ["BitNot", self.expr(depth - 1)]}


def builtin_sweep(rng, per):
    """`per` calls of every built-in with arguments of the kinds it handles (plus its arity edge)"""
    g = Gen(rng, "all")
    out = []
    for name in sorted(Gen.HINTS) + ["range"]:
        for k in range(per):
            if name == "range":
                e = {"call": [{"id": "range"}, [v_int(rng.below(5)), v_int(rng.below(7))][:1 + k % 2]]}
            else:
                hints = Gen.HINTS[name]
                n = len(hints) if (k < per - 1 or per == 1) else rng.choice([len(hints) - 1, len(hints) + 1])
                if name == "substring" and k % 2 == 0:
                    n = 2
                args = [g.typed_arg(hints[j] if j < len(hints) else "any", 2) for j in range(max(0, n))]
                e = {"call": [{"id": name}, args]}
            if not has_big_range(e):
                out.append(e)
    return out


def subexprs(e):
    yield e
    (k, x), = e.items()
    if k in ("bin", "un"):
        for y in x[1:]:
            yield from subexprs(y)
    elif k == "arr":
        for y in x:
            yield from subexprs(y)
    elif k == "map":
        for _, y in x:
            yield from subexprs(y)
    elif k in ("mem", "omem"):
        yield from subexprs(x[0])
    elif k in ("idx", "coal"):
        yield from subexprs(x[0])
        yield from subexprs(x[1])
    elif k == "slice":
        for y in x:
            if y is not None:
                yield from subexprs(y)
    elif k == "call":
        yield from subexprs(x[0])
        for a in x[1]:
            yield from subexprs(a["named"][1] if "named" in a else a)
    elif k == "lam":
        yield from subexprs(x[1])
    elif k == "if":
        for y in x:
            yield from subexprs(y)
    elif k == "range":
        yield from subexprs(x[0])
        yield from subexprs(x[1])
    elif k == "block":
        for _, y, _ in x[0]:
            yield from subexprs(y)
        yield from subexprs(x[1])


def has_big_range(e):
    """range sizes are excluded by the property: only literal bounds 0..8 are ever generated"""
    for s in subexprs(e):
        (k, x), = s.items()
        if k == "range":
            for b in x[:2]:
                if "i" not in b or not (0 <= int(b["i"]) <= 8):
                    return True
        if k == "call" and x[0].get("id") == "range":
            for a in x[1]:
                if "i" not in a or not (0 <= int(a["i"]) <= 8):
                    return True
    return False


def value_has(v, kinds):
    (k, x), = v.items()
    if k in kinds:
        return True
    if k == "a":
        return any(value_has(y, kinds) for y in x)
    if k == "m":
        return any(value_has(y, kinds) for _, y in x)
    return False


def clean_sortable(v):
    """arrays on which the comparator of `sort` is a total preorder (so every stable sort agrees)"""
    if "a" not in v:
        return True
    xs = v["a"]
    kinds = {next(iter(y)) for y in xs}
    if len(kinds) > 1:
        return False
    if kinds == {"f"}:
        return not any(is_nan_bits(int(y["f"])) for y in xs)
    return kinds <= {"i", "s"} or not xs


def static_type(e, ev):
    """coarse type of an expression on an event: 'int' 'float' 'other' (definitely neither) or '?'"""
    (k, x), = e.items()
    if k == "i":
        return "int"
    if k == "f":
        return "float"
    if k in ("s", "b", "n", "dur", "ts", "arr", "map", "lam", "omem", "block", "range"):
        return "other"
    if k == "id":
        for n, v in ev["fields"]:
            if n == x:
                t = next(iter(v))
                return "int" if t == "i" else "float" if t == "f" else "other"
        return "other"
    if k == "bin":
        if x[0] in ("Add", "Sub", "Mul", "Div", "Mod"):
            a, b = static_type(x[1], ev), static_type(x[2], ev)
            if a == "int" and b == "int":
                return "int"
            if "other" in (a, b) and x[0] != "Add":
                return "other"
            if a in ("int", "float") and b in ("int", "float"):
                return "float"
            return "?"
        if x[0] == "Pow":
            a, b = static_type(x[1], ev), static_type(x[2], ev)
            if a == "int" and b == "int":
                return "int"
            if "other" in (a, b):
                return "other"
            return "?" if "?" in (a, b) else "float"
        return "other"
    if k == "un":
        return static_type(x[1], ev) if x[0] == "Neg" else "other"
    return "?"


def opaque_reason(e, ev):
    """None, or why the model's *value* for (e, ev) is not comparable with the implementation's:
    the expression may use an operation Expr/B64.v / Expr/Run.v do not model exactly."""
    floats_or_ts = any(value_has(v, ("f", "ts")) for _, v in ev["fields"])
    for s in subexprs(e):
        (k, x), = s.items()
        if k in ("f", "ts"):
            floats_or_ts = True
    for s in subexprs(e):
        (k, x), = s.items()
        if k == "bin" and x[0] == "Pow":
            if static_type(x[1], ev) != "other" and static_type(x[2], ev) not in ("int", "other"):
                return "powf"
        if k == "call" and "id" in x[0]:
            name = x[0]["id"]
            args = [a["named"][1] if "named" in a else a for a in x[1]]
            if name in OPAQUE_CALLS:
                return name
            if name == "pow" and len(args) == 2 and static_type(args[0], ev) != "other" and static_type(args[1], ev) not in ("int", "other"):
                return "powf"
            if name == "to_float" and args and static_type(args[0], ev) not in ("int", "float"):
                t = args[0]
                if not (set(t) & {"b", "n", "arr", "map", "dur"}):
                    return "parse-f64"
            if name in ("to_string", "join") and floats_or_ts:
                return "display-f64"
            if name in ("lower", "lowercase", "upper", "uppercase"):
                pass
    return None


# ------------------------------------------------------------ implementation runs
def run_resilient(binpath, requests, timeout=900):
    """Like harness.run_jsonl, but a request that kills the harness (stack overflow abort) is
    answered {"abort": <stderr tail>} and the remaining requests run in a fresh process."""
    answers = []
    i = 0
    while i < len(requests):
        chunk = requests[i:]
        inp = "\n".join(json.dumps(r, separators=(",", ":")) for r in chunk) + "\n"
        p = subprocess.run([binpath], input=inp, capture_output=True, text=True, timeout=timeout)
        outs = [json.loads(l) for l in p.stdout.split("\n") if l.strip()]
        answers.extend(outs[:len(chunk)])
        i += len(outs)
        if len(outs) < len(chunk):
            answers.append({"abort": (p.stderr or "")[-300:].strip() or ("exit status %s" % p.returncode)})
            i += 1
    return answers


def run_translators(run, need_fold=True):
    """Returns (all needed translators ok, fold table regenerated).  C11 does not depend on the fold
    table: if fold_rules.py fails there, the stale table is kept (Model.v still compiles) and the
    folder-related comparisons are skipped instead of alarming."""
    ok, fold_ok = True, True
    for t in ["fold_rules.py", "expr_arms.py"]:
        p = sh(["python3", os.path.join(VERIF, "translate", t)], timeout=120)
        if p.returncode != 0:
            if t == "fold_rules.py":
                fold_ok = False
                if not need_fold:
                    run.extra.setdefault("translators", []).append("fold_rules.py failed (not needed here): " + (p.stdout + p.stderr)[-300:])
                    continue
            run.tie_broken("translator translate/%s" % t, (p.stdout + p.stderr)[-2000:])
            ok = False
        else:
            run.extra.setdefault("translators", []).append((p.stdout.strip().split("\n") or [""])[-1][:300])
    return ok, fold_ok


def stamp(run, what):
    import time
    run.extra.setdefault("timing", []).append("%s@%.0fs" % (what, time.time() - run.t0))


def build_all(run, targets, audit_file, allow=(), need_fold=True):
    """translators + Coq obligations + harness.  Returns (binpath or None, model_ok, fold_table_ok)."""
    t_ok, fold_ok = run_translators(run, need_fold)
    stamp(run, "translators")
    proved = coqtools.prove(run, targets, audit_file, allow)
    stamp(run, "prove")
    # the interpreter used by the correspondence check
    okr, lg = coqtools.make(["theories/Expr/Run.vo"])
    if not okr:
        run.tie_broken("coqc theories/Expr/Run.v (model interpreter)", lg[-2000:])
    stamp(run, "run.vo")
    okb, bindir, blog = harness.build("vp-expr")
    stamp(run, "harness")
    if not okb:
        run.tie_broken("harness build vp-expr", blog[-3000:])
        return None, okr, fold_ok
    return os.path.join(bindir, "vp-expr"), okr, fold_ok


def model_eval(run, tag, cases):
    """cases: list of (expr, events).  Returns list of parsed model answers
    {"known": bool (identity_fires), "fold": "F:.."|"FP", "res": [(unfolded, folded)..]} or None when
    the model could not be run."""
    if not cases:
        return []
    try:
        outs = coqtools.coq_eval(tag, IMPORTS, [g_case(e, evs) for e, evs in cases],
                                 shard=max(20, min(150, len(cases) // 10 + 1)))
    except RuntimeError as ex:
        run.tie_broken("model evaluation (coqc cases %s)" % tag, str(ex)[-1500:])
        return [None] * len(cases)
    res = []
    for o in outs:
        parts = o.split("|")
        res.append({"known": parts[0] == "K1", "fold": parts[1], "res": [tuple(p.split(";")) for p in parts[2:]]})
    return res


def impl_fold_str(ans):
    f = ans["folded"]
    if isinstance(f, dict) and "panic" in f and len(f) == 1:
        return "FP"
    return "F:" + r_expr(f)


def classify_expr(e):
    """input-distribution buckets"""
    kinds = set()
    for s in subexprs(e):
        (k, x), = s.items()
        if k == "bin":
            kinds.add("op=" + x[0])
        elif k == "un":
            kinds.add("op=" + x[0])
        elif k == "call" and "id" in x[0]:
            kinds.add("fn=" + x[0]["id"])
        else:
            kinds.add("kind=" + k)
    return kinds


def depth_of(e):
    (k, x), = e.items()
    subs = [s for s in subexprs(e)][1:]
    if not subs:
        return 0
    # depth = longest chain; cheap approximation through recursion on direct children
    def d(y):
        (kk, xx), = y.items()
        ch = []
        if kk in ("bin", "un"):
            ch = xx[1:]
        elif kk == "arr":
            ch = xx
        elif kk == "map":
            ch = [v for _, v in xx]
        elif kk in ("mem", "omem"):
            ch = [xx[0]]
        elif kk in ("idx", "coal"):
            ch = xx[:2]
        elif kk == "slice":
            ch = [v for v in xx if v is not None]
        elif kk == "call":
            ch = [xx[0]] + [a["named"][1] if "named" in a else a for a in xx[1]]
        elif kk == "lam":
            ch = [xx[1]]
        elif kk == "if":
            ch = xx
        elif kk == "range":
            ch = xx[:2]
        elif kk == "block":
            ch = [v for _, v, _ in xx[0]] + [xx[1]]
        return 1 + max([d(c) for c in ch], default=-1) if ch else 0
    return d(e)


# ------------------------------------------------------------------ shrinking
def children(e):
    return [s for s in subexprs(e)][1:]


def shrink_expr(e, events, still_fails, budget=60):
    """greedy: replace the expression by a sub-expression / drop events while the failure persists"""
    cur_e, cur_ev = e, list(events)
    changed = True
    while changed and budget > 0:
        changed = False
        for k in range(len(cur_ev)):
            if len(cur_ev) > 1:
                cand = cur_ev[:k] + cur_ev[k + 1:]
                budget -= 1
                if still_fails(cur_e, cand):
                    cur_ev = cand
                    changed = True
                    break
        if changed:
            continue
        for s in sorted(children(cur_e), key=lambda y: len(json.dumps(y))):
            budget -= 1
            if budget <= 0:
                break
            if still_fails(s, cur_ev):
                cur_e = s
                changed = True
                break
    # drop fields
    if len(cur_ev) == 1:
        ev = cur_ev[0]
        for k in range(len(ev["fields"]) - 1, -1, -1):
            cand = {"type": ev["type"], "fields": ev["fields"][:k] + ev["fields"][k + 1:]}
            budget -= 1
            if budget <= 0:
                break
            if still_fails(cur_e, [cand]):
                ev = cand
        cur_ev = [ev]
    return cur_e, cur_ev


# ------------------------------------------------------------ batch evaluation
def short(x, n=400):
    s = x if isinstance(x, str) else json.dumps(x, separators=(",", ":"))
    return s if len(s) <= n else s[:n] + "..."


def judge_ast(e, events, ans, model, fold_ok=True):
    """One AST-level case.  Returns dict with lists of failure strings:
       c10  folded and unfolded expression differ on the implementation / the folder panics
       c11  the implementation panics or aborts while evaluating the (unfolded) expression
       corr the model (Expr/Run.v run_case) and the implementation differ"""
    out = {"c10": [], "c11": [], "corr": []}
    if "abort" in ans:
        out["c11"].append("evaluating %s aborted the process (%s)" % (short(to_text(e), 200), ans["abort"][-120:]))
        if model is not None and not any("P" in (u, f) for u, f in model["res"]) and model["fold"] != "FP":
            out["corr"].append("implementation aborted, model: %s %s" % (model["fold"], model["res"]))
        return out
    fi = impl_fold_str(ans)
    if fi == "FP":
        out["c10"].append("the folder panics on %s: %s" % (short(to_text(e), 200), ans["folded"]["panic"]))
    for k, (ev, (ru, rf)) in enumerate(zip(events, ans["res"])):
        su, sf = r_result(ru), r_result(rf)
        if su == "P":
            out["c11"].append("evaluating %s panics: %s" % (short(to_text(e), 200), ru.get("panic", "")))
        if rf is not None and su != sf:
            out["c10"].append("event %d: unfolded gives %s, folded (%s) gives %s" % (k, su, short(fi, 160), sf))
    if model is not None:
        if fold_ok and fi != model["fold"]:
            out["corr"].append("folded expression differs: impl %s, model %s" % (short(fi, 300), short(model["fold"], 300)))
        fe = ans["folded"] if not (isinstance(ans["folded"], dict) and set(ans["folded"]) == {"panic"}) else None
        for k, (ev, (ru, rf), (mu, mf)) in enumerate(zip(events, ans["res"], model["res"])):
            if opaque_reason(e, ev):
                continue
            su, sf = r_result(ru), r_result(rf)
            # the folded expression can reach an unmodelled operation the unfolded one does not
            # (e.g. `flag * 0` rewritten to 0 makes `0 ** 1.0` a powf): its side is then left to the
            # folded==unfolded oracle and not compared with the model
            if fe is not None and opaque_reason(fe, ev):
                sf = mf = "-"
            if not fold_ok:
                sf = mf = "-"          # the fold table could not be regenerated: compare the unfolded side only
            if str(MARKER) in mu or str(MARKER) in mf:
                su, sf, mu, mf = su[:1], sf[:1], mu[:1], mf[:1]
            if (su, sf) != (mu, mf):
                out["corr"].append("event %d: impl (%s ; %s), model (%s ; %s)" % (k, short(su, 200), short(sf, 200), short(mu, 200), short(mf, 200)))
    return out


def to_text(e):
    try:
        return to_vpl(e)
    except NoText:
        return r_expr(e)


def run_ast_batch(run, binpath, tag, cases):
    """cases: list of (expr, events).  Yields (expr, events, answer, model, verdict-dict)."""
    reqs = [{"op": "eval", "expr": e, "events": evs} for e, evs in cases]
    answers = run_resilient(binpath, reqs)
    stamp(run, tag + "-impl")
    models = model_eval(run, tag, cases)
    stamp(run, tag + "-model")
    for (e, evs), a, m in zip(cases, answers, models):
        yield e, evs, a, m, judge_ast(e, evs, a, m)


def ast_still(binpath, which):
    """predicate for shrinking: does (expr, events) still fail oracle `which` ('c10' | 'c11') on the implementation?"""
    def f(e, evs):
        a = run_resilient(binpath, [{"op": "eval", "expr": e, "events": evs}])[0]
        return bool(judge_ast(e, evs, a, None)[which])
    return f


# ------------------------------------------------------------------ programs
def program_text(where, emits):
    """`stream S = A [.where(W)] .emit(f1: E1, ..)`; NoText if some expression cannot be spelled"""
    s = "stream S = A\n"
    if where is not None:
        s += "    .where(%s)\n" % to_vpl(where)
    s += "    .emit(%s)\n" % ", ".join("%s: %s" % (n, to_vpl(x)) for n, x in emits)
    return s


def expected_outputs(has_where, n_emit, names, events, per_expr):
    """What the engine must emit per input event, from the outcomes of the stream's expressions
    (per_expr[j][k] = outcome string of expression j on event k; order: where?, emit fields)."""
    outs = []
    for k in range(len(events)):
        j = 0
        if has_where:
            if per_expr[0][k] != "V:b1":
                outs.append([])
                continue
            j = 1
        fields = []
        for f in range(n_emit):
            o = per_expr[j + f][k]
            if o.startswith("V:"):
                fields.append("%s=%s" % (names[f], o[2:]))
        outs.append([",".join(fields)])
    return outs


def impl_outputs(run_ans):
    if "out" not in run_ans:
        return None
    return [[",".join("%s=%s" % (k, r_value(v)) for k, v in o["fields"]) for o in per] for per in run_ans["out"]]


def is_simple_emit(e):
    return "id" in e or "s" in e


def judge_program(case, ans, models, fold_ok=True):
    """case = (where|None, [(name, expr)..], events, text).  models: list (per parsed expression, in
    the order where?, emit fields) of model answers, or None."""
    where, emits, events, text = case
    out = {"c10": [], "c11": [], "corr": [], "hook": []}
    if "abort" in ans:
        out["c11"].append("running the program aborted the process (%s): %s" % (ans["abort"][-120:], short(text, 200)))
        return out
    if not ans.get("hook_consistent", False):
        out["hook"].append("parse(text) differs from fold_program(parse_unfolded(text)) for %s" % short(text, 200))
    un, fo = ans["unfolded"], ans["folded"]
    if isinstance(un, dict):
        return out            # the text does not parse: not a case
    if isinstance(fo, dict):
        out["c10"].append("the unfolded program parses but parse() (with folding) fails: %s" % fo.get("error"))
        return out
    ru, rf = ans["run_unfolded"], ans["run_folded"]
    for nm, r in (("unfolded", ru), ("folded", rf)):
        if "panic" in r:
            out["c11"].append("the engine panics on the %s program: %s" % (nm, r["panic"]))
    ou, of = impl_outputs(ru), impl_outputs(rf)
    if ("panic" in ru) != ("panic" in rf) or ("error" in ru) != ("error" in rf) or ou != of:
        out["c10"].append("engine outputs differ: unfolded %s, folded %s" % (short(ou if ou is not None else ru, 300), short(of if of is not None else rf, 300)))
    if models is None or any(m is None for m in models) or "error" in ru:
        return out
    # model: folded ASTs
    for j, (m, fe) in enumerate(zip(models, fo)):
        if fold_ok and m["fold"] != "F:" + r_expr(fe):
            out["corr"].append("expression %d: parse() folds to %s, model to %s" % (j, short(r_expr(fe), 200), short(m["fold"], 200)))
    has_where = where is not None
    names = [n for n, _ in emits]
    for side, asts, r, o in (("unfolded", un, ru, ou), ("folded", fo, rf, of)):
        if side == "folded" and not fold_ok:
            continue
        idx = 0 if side == "unfolded" else 1
        emit_asts = asts[1:] if has_where else asts
        if all(is_simple_emit(x) for x in emit_asts):
            continue          # RuntimeOp::Emit (field copy), not the expression evaluator
        per_expr = [[res[idx] for res in m["res"]] for m in models]
        if any(opaque_reason(x, ev) for x in (un if side == "unfolded" else list(un) + list(fo)) for ev in events) or any(str(MARKER) in s for pe in per_expr for s in pe):
            continue
        # which events does the model say panic on?  (the engine stops at the first)
        panics = False
        for k in range(len(events)):
            col = [pe[k] for pe in per_expr]
            if has_where and col[0] == "P":
                panics = True
            if (not has_where or col[0] == "V:b1") and "P" in col[(1 if has_where else 0):]:
                panics = True
            if panics:
                break
        if panics:
            if "panic" not in r:
                out["corr"].append("%s program: model predicts a panic, engine gives %s" % (side, short(o, 200)))
            continue
        if "panic" in r:
            out["corr"].append("%s program: engine panics (%s), model predicts none" % (side, r["panic"]))
            continue
        want = expected_outputs(has_where, len(emits), names, events, per_expr)
        if o != want:
            out["corr"].append("%s program %s: engine %s, model %s" % (side, short(text, 160), short(o, 300), short(want, 300)))
    return out


def run_program_batch(run, binpath, tag, cases):
    """cases: list of (where|None, [(name, expr)..], events).  Yields (case+text, answer, verdict)."""
    texts = []
    for where, emits, events in cases:
        try:
            texts.append((where, emits, events, program_text(where, emits)))
        except NoText:
            continue
    reqs = [{"op": "program", "vpl": t, "events": evs} for _, _, evs, t in texts]
    answers = run_resilient(binpath, reqs)
    # model cases: one per parsed expression
    mcases, owner = [], []
    for k, (c, a) in enumerate(zip(texts, answers)):
        if "abort" in a or isinstance(a.get("unfolded"), dict):
            continue
        for x in a["unfolded"]:
            if has_big_range(x):
                continue
            mcases.append((x, c[2]))
            owner.append(k)
    stamp(run, tag + "-impl")
    mres = model_eval(run, tag, mcases)
    stamp(run, tag + "-model")
    per = {}
    for k, m in zip(owner, mres):
        per.setdefault(k, []).append(m)
    for k, (c, a) in enumerate(zip(texts, answers)):
        ms = per.get(k)
        if ms is not None and not isinstance(a.get("unfolded"), dict) and len(ms) != len(a["unfolded"]):
            ms = None
        yield c, a, judge_program(c, a, ms)


def program_still(binpath, which):
    def f(where, emits, events):
        try:
            t = program_text(where, emits)
        except NoText:
            return False
        a = run_resilient(binpath, [{"op": "program", "vpl": t, "events": events}])[0]
        return bool(judge_program((where, emits, events, t), a, None)[which])
    return f


# ------------------------------------------------- C10 known-finding class (fallback)
KNOWN_IDENTITY = "type-blind-identity-rewrite"


def _int_lit(e):
    return int(e["i"]) if "i" in e else None


def py_identity_fires(e):
    """Python rendering of Model.identity_fires, used to classify a failing input only when the Coq
    model could not be evaluated: does an identity rewrite of fold_binary's second pass fire while
    folding e bottom-up?  Returns (fires, folded expression)."""
    (k, x), = e.items()
    if k == "bin":
        fl, l = py_identity_fires(x[1])
        fr, r = py_identity_fires(x[2])
        fired = fl or fr
        op = x[0]
        a, b = _int_lit(l), _int_lit(r)
        if a is not None and b is not None and op in ("Add", "Sub", "Mul", "Div", "Mod", "Pow"):
            v = None
            if op == "Add":
                v = a + b
            elif op == "Sub":
                v = a - b
            elif op == "Mul":
                v = a * b
            elif op in ("Div", "Mod") and b != 0 and not (a == I64_MIN and b == -1):
                q = abs(a) // abs(b) * (1 if (a < 0) == (b < 0) else -1)
                v = q if op == "Div" else a - q * b
            elif op == "Pow":
                bb = (b + (1 << 31)) % (1 << 32) - (1 << 31)
                if bb >= 0 and abs(a) ** bb < (1 << 53):
                    v = a ** bb
                elif bb < 0:
                    v = 1 if a == 1 else (1 if bb % 2 == 0 else -1) if a == -1 else I64_MAX if a == 0 else 0
                else:
                    return fired, {"i": str(I64_MAX)}     # huge: not 0 / 1, which is all that matters here
            if v is not None and I64_MIN <= v <= I64_MAX:
                return fired, {"i": str(v)}
            if op != "Pow":
                # overflow / zero divisor: not folded, the identity pass still looks at the node
                pass
        if "f" in l and "f" in r and op in ("Add", "Sub", "Mul", "Div"):
            return fired, {"bin": ["_floatfold", l, r]}      # a float literal: never the integer 0 / 1
        if op == "Mul" and (b == 0 or a == 0):
            return True, {"i": "0"}
        if op == "Mul" and b == 1:
            return True, l
        if op == "Mul" and a == 1:
            return True, r
        if op == "Add" and b == 0:
            return True, l
        if op == "Add" and a == 0:
            return True, r
        if op == "Sub" and b == 0:
            return True, l
        if op == "Div" and b == 1:
            return True, l
        return fired, {"bin": [op, l, r]}
    if k == "un":
        f, y = py_identity_fires(x[1])
        if x[0] == "Neg" and "i" in y and int(y["i"]) != I64_MIN:
            return f, {"i": str(-int(y["i"]))}
        return f, {"un": [x[0], y]}
    fired = False
    for s in list(subexprs(e))[1:]:
        (kk, _), = s.items()
        if kk == "bin":
            fired = fired or py_identity_fires(s)[0]
    return fired, e



def run_all(run, binpath, tag, ast_cases, prog_cases, fold_ok=True):
    """Implementation runs for the AST cases and the program cases, then ONE model batch for both
    (every coqc shard pays the load time of the libraries once).  Returns
    ([(expr, events, answer, model, verdict)..], [((where, emits, events, text), answer, verdict)..])."""
    a_ans = run_resilient(binpath, [{"op": "eval", "expr": e, "events": evs} for e, evs in ast_cases])
    stamp(run, tag + "-ast-impl")
    texts = []
    for where, emits, events in prog_cases:
        try:
            texts.append((where, emits, events, program_text(where, emits)))
        except NoText:
            continue
    p_ans = run_resilient(binpath, [{"op": "program", "vpl": t, "events": evs} for _, _, evs, t in texts])
    stamp(run, tag + "-program-impl")
    mcases, owner = [], []
    for k, (c, a) in enumerate(zip(texts, p_ans)):
        if "abort" in a or isinstance(a.get("unfolded"), dict):
            continue
        for x in a["unfolded"]:
            if has_big_range(x):
                continue
            mcases.append((x, c[2]))
            owner.append(k)
    models = model_eval(run, tag, list(ast_cases) + mcases)
    stamp(run, tag + "-model")
    a_models, p_models = models[:len(ast_cases)], models[len(ast_cases):]
    ast_out = [(e, evs, a, m, judge_ast(e, evs, a, m, fold_ok)) for (e, evs), a, m in zip(ast_cases, a_ans, a_models)]
    per = {}
    for k, m in zip(owner, p_models):
        per.setdefault(k, []).append(m)
    prog_out = []
    for k, (c, a) in enumerate(zip(texts, p_ans)):
        ms = per.get(k)
        if ms is not None and not isinstance(a.get("unfolded"), dict) and len(ms) != len(a["unfolded"]):
            ms = None
        prog_out.append((c, a, judge_program(c, a, ms, fold_ok)))
    return ast_out, prog_out
