"""C11 — evaluating any expression on any event never panics."""
import json
import os

from checks import expr_common as X
from vplib import harness
from checks.C10 import AXIOMS

META = {
    "technique": "Coq proof (induction on the expression over an evaluator model whose primitives panic where Rust's do; arithmetic arms, negation/abs modes, built-in list and the fallthrough arm regenerated from evaluator.rs by a translator) + model/impl differential with panic capture (catch_unwind; child process for stack-overflow aborts)",
    "design_ref": "DESIGN.md §7 C11",
    "level_text": "Theorem C11_no_panic (coq/theories/Expr/PropsC11.v): for every expression, every event and every implementation of the f64 operations, eval never yields Panic (a Rust panic or the stack-overflow abort of the self-recursive fallthrough arm): the outcome is a value or no value. C11_no_panic_b64 is the binary64 instance run against the implementation; C11_builtins_covered: every arm of eval_builtin_function is modelled (same names, order, arity guards). Re-proved on every run against the tables regenerated from evaluator.rs",
    "level_note": "The model covers eval_expr_with_functions as called by .where / .emit (no user functions, empty bindings and SequenceContext) and all 51 built-in arms. Panic sources modelled: i64 + - * / % neg abs (raw = panics as in a build with overflow checks, which is what the harness builds; MIN / -1, MIN % -1, x / 0 panic in every build), slicing and indexed assignment out of range, the self-recursive `_ =>` arm. f64 operations and `as` casts are total in Rust and are an abstract total interface here (Flocq binary64 instance for the correspondence run; transcendental functions, powf, parse::<f64>, float/timestamp formatting not modelled -> those cases are judged by the panic oracle only). NOT covered: the statement interpreter / user-defined functions (eval_stmt, call_user_function), eval_pattern_expr, ExprAggregate arithmetic (aggregation.rs), memory exhaustion by huge ranges (excluded by the property), `sort` with a comparator that is not a total order (judged by the oracle on arrays of up to 40 mixed elements; the model's stable insertion sort is compared only on arrays where the comparator is a total preorder). Release-profile overflow semantics are not run separately: every panic of a release build is also a panic of the overflow-checked build that is run. Trusted: Coq kernel + vm_compute, 4 standard-library axioms under Flocq (instance theorem only), translator translate/expr_arms.py + digests, harness, Python driver",
}

A = lambda fields: {"type": "A", "fields": fields}
MIN, MAX = str(X.I64_MIN), str(X.I64_MAX)
CORPUS = [
    ({"bin": ["Add", {"id": "x"}, {"i": "1"}]}, [A([["x", {"i": MAX}]]), A([["x", {"i": "1"}]])]),
    ({"bin": ["Sub", {"id": "x"}, {"i": "1"}]}, [A([["x", {"i": MIN}]])]),
    ({"bin": ["Mul", {"id": "x"}, {"id": "x"}]}, [A([["x", {"i": "3037000500"}]])]),
    ({"bin": ["Div", {"id": "x"}, {"id": "d"}]}, [A([["x", {"i": MIN}], ["d", {"i": "-1"}]]), A([["x", {"i": "1"}], ["d", {"i": "0"}]])]),
    ({"bin": ["Mod", {"id": "x"}, {"id": "d"}]}, [A([["x", {"i": MIN}], ["d", {"i": "-1"}]]), A([["x", {"i": "1"}], ["d", {"i": "0"}]])]),
    ({"un": ["Neg", {"id": "x"}]}, [A([["x", {"i": MIN}]])]),
    ({"call": [{"id": "abs"}, [{"id": "x"}]]}, [A([["x", {"i": MIN}]])]),
    ({"bin": ["Eq", {"omem": [{"id": "x"}, "y"]}, {"i": "1"}]}, [A([["x", {"i": "1"}]])]),
    ({"ts": "1704067200000000000"}, [A([])]),
    ({"lam": [["v"], {"id": "v"}]}, [A([])]),
    ({"block": [[["t", {"i": "1"}, False]], {"id": "t"}]}, [A([])]),
    ({"un": ["BitNot", {"id": "x"}]}, [A([["x", {"i": "1"}]])]),
    ({"call": [{"id": "substring"}, [{"id": "s"}, {"i": "1"}]]}, [A([["s", {"s": "€uro"}]]), A([["s", {"s": "abc"}]])]),
    ({"call": [{"id": "substring"}, [{"id": "s"}, {"i": "-1"}, {"i": MAX}]]}, [A([["s", {"s": "abc"}]])]),
    ({"slice": [{"id": "s"}, {"i": "-1"}, {"i": MIN}]}, [A([["s", {"s": "abc"}]]), A([["s", {"a": [{"i": "1"}]}]])]),
    ({"idx": [{"id": "s"}, {"i": MIN}]}, [A([["s", {"s": "abc"}]]), A([["s", {"a": [{"i": "1"}]}]])]),
    ({"call": [{"id": "set"}, [{"id": "a"}, {"i": MIN}, {"i": "0"}]]}, [A([["a", {"a": [{"i": "1"}]}]])]),
    ({"call": [{"id": "get"}, [{"id": "a"}, {"i": "-1"}]]}, [A([["a", {"a": [{"i": "1"}]}]])]),
    ({"call": [{"id": "pow"}, [{"id": "x"}, {"i": MIN}]]}, [A([["x", {"i": "2"}]]), A([["x", {"f": str(X.f_bits(2.0))}]])]),
    ({"call": [{"id": "floor"}, [{"id": "x"}]]}, [A([["x", {"f": str(X.f_bits(float("nan")))}]]), A([["x", {"f": str(X.f_bits(1e300))}]]), A([["x", {"f": str(X.f_bits(float("-inf")))}]])]),
    ({"call": [{"id": "to_string"}, [{"id": "t"}]]}, [A([["t", {"ts": MIN}]]), A([["t", {"ts": MAX}]]), A([["t", {"dur": str((1 << 64) - 1)}]])]),
    ({"call": [{"id": "to_int"}, [{"id": "x"}]]}, [A([["x", {"s": "9223372036854775808"}]]), A([["x", {"f": str(X.f_bits(1e19))}]]), A([["x", {"s": "-9223372036854775808"}]])]),
]
PROGRAM_CORPUS = [
    (None, [("y", {"bin": ["Add", {"id": "x"}, {"i": "1"}]})], [A([["x", {"i": MAX}]])]),
    (None, [("y", {"bin": ["Div", {"id": "x"}, {"id": "d"}]})], [A([["x", {"i": MIN}], ["d", {"i": "-1"}]])]),
    ({"bin": ["Eq", {"omem": [{"id": "x"}, "y"]}, {"i": "1"}]}, [("k", {"i": "1"})], [A([["x", {"i": "1"}]])]),
    (None, [("y", {"ts": "1704067200000000000"})], [A([["x", {"i": "1"}]])]),
    (None, [("y", {"call": [{"id": "abs"}, [{"id": "x"}]]})], [A([["x", {"i": MIN}]])]),
    ({"bin": ["Gt", {"un": ["Neg", {"id": "x"}]}, {"i": "0"}]}, [("k", {"i": "1"})], [A([["x", {"i": MIN}]]), A([["x", {"i": "-5"}]])]),
]


def sort_probe(rng):
    """`sort` on long arrays whose comparator is not a total order (mixed types, NaN): oracle only"""
    out = []
    for n in (21, 33, 40):
        xs = []
        for _ in range(n):
            r = rng.below(6)
            xs.append({"i": str(rng.range(-5, 5))} if r < 2 else {"s": rng.choice(["a", "b", "c"])} if r < 3 else
                      {"f": str(X.f_bits(rng.choice([1.0, 2.0, float("nan"), -1.0, 0.5])))} if r < 5 else {"n": None})
        out.append(({"call": [{"id": "sort"}, [{"id": "arr"}]]}, [A([["arr", {"a": xs}]])]))
    return out


def gen_cases(run):
    rng = run.rng
    quick = run.tier == "quick"
    n_ast = 300 if quick else 8000
    n_prog = 90 if quick else 600
    g = X.Gen(rng, "all")
    cases = list(CORPUS) + sort_probe(rng)
    for e in X.builtin_sweep(rng, 4 if quick else 40):
        cases.append((e, [X.gen_event(rng) for _ in range(3)]))
    base = len(cases)
    while len(cases) < base + n_ast:
        e = g.expr(rng.range(1, 3) if rng.chance(3, 4) else 4)
        if X.has_big_range(e):
            continue
        cases.append((e, [X.gen_event(rng) for _ in range(3)]))
    gt = X.Gen(rng, "all", text=True)
    progs = list(PROGRAM_CORPUS)
    while len(progs) < len(PROGRAM_CORPUS) + n_prog:
        evs = [X.gen_event(rng) for _ in range(3)]
        if rng.chance(1, 2):
            p = (None, [("y", gt.expr(rng.range(1, 3)))], evs)
        else:
            p = (gt.expr(rng.range(1, 3)), [("y", gt.expr(rng.range(1, 2)))], evs)
        exprs = ([p[0]] if p[0] is not None else []) + [x for _, x in p[1]]
        if any(X.has_big_range(x) for x in exprs):
            continue
        progs.append(p)
    return cases, progs


def check(run):
    run.rule = ("expressions of depth <= 4 over every operator, expression kind and built-in function, each on 3 events whose fields take boundary "
                "values (i64 MIN/MAX/-1/0, NaN, +-inf, huge floats, empty / multi-byte strings, nested arrays and maps, timestamps, durations): "
                "(a) ASTs through the evaluator API under catch_unwind, (b) VPL programs (.where / .emit) through the real parser and Engine, in a "
                "child process so that a stack-overflow abort is observed; non-trivial = the expression has an operator or call and yields a value "
                "on some event, or is one of the property's extreme shapes; distinct = distinct expression")
    run.trusted += ["Coq 8.16.1 kernel + vm_compute",
                    "translator translate/expr_arms.py (evaluator.rs arithmetic/ordering/negation arms, abs, built-in arm list, timestamp and fallthrough arms); digests of the hand-modelled arms in translate/expr_shape.json",
                    "hand-written model coq/theories/Expr/Model.v tied by differential run (every evaluation outcome compared verbatim, floats by bits)",
                    "Flocq binary64 instance coq/theories/Expr/B64.v (powf, ln, exp, sin, cos, tan, parse::<f64>, float/timestamp formatting not modelled: panic oracle only)",
                    "Rust harness harness/crates/expr (dev profile: overflow checks on), Python driver checks/expr_common.py"]
    run.assumptions += ["no user-defined functions, empty SequenceContext and bindings (the .where / .emit call sites)",
                        "collection lengths fit i64 (`len as i64 + idx` cannot overflow); range sizes excluded (only literal bounds 0..8 generated)"]
    binpath, model_ok, fold_ok = X.build_all(run, ["theories/Expr/PropsC11.vo"], "C11.v", AXIOMS, need_fold=False)
    if binpath is None:
        return
    cases, progs = gen_cases(run)
    shown = {"c11": 0, "corr": 0}
    n_fail = 0
    ast_out, prog_out = X.run_all(run, binpath, "C11", cases, progs, fold_ok=fold_ok)
    for e, evs, a, m, v in ast_out:
        key = X.r_expr(e)
        has_val = "res" in a and any("v" in r[0] for r in a["res"])
        compound = any(k in ("bin", "un", "call", "if", "idx", "slice") for s in X.subexprs(e) for k in s)
        run.case(key if (has_val and compound) else None, {"expr": X.to_text(e)} if run.evaluations % 150 == 0 else None)
        run.count("ast")
        run.count("depth=%d" % X.depth_of(e))
        for b in X.classify_expr(e):
            run.count(b)
        if "res" in a:
            for r in a["res"]:
                run.count("outcome=" + ("value" if "v" in r[0] else "none" if "none" in r[0] else "panic"))
        if any(X.opaque_reason(e, ev) for ev in evs):
            run.count("value-not-modelled(oracle only)")
        if v["c11"]:
            n_fail += 1
            run.count("oracle_fail")
            if shown["c11"] < 4:
                shown["c11"] += 1
                se, sev = X.shrink_expr(e, evs, X.ast_still(binpath, "c11"))
                sa = X.run_resilient(binpath, [{"op": "eval", "expr": se, "events": sev}])[0]
                msgs = X.judge_ast(se, sev, sa, None)["c11"]
                run.violation("expression evaluation panics: " + "; ".join(msgs)[:500],
                              {"kind": "ast", "expr": se, "expr_text": X.to_text(se), "events": sev, "implementation": sa,
                               "contradicts": "C11_no_panic (coq/theories/Expr/PropsC11.v)"})
        if v["corr"] and shown["corr"] < 3:
            shown["corr"] += 1
            run.tie_broken("correspondence Expr/Model.v vs evaluator.rs on %s" % X.short(X.to_text(e), 200), "; ".join(v["corr"])[:1500] + " events=" + X.short(evs, 600))
    for c, a, v in prog_out:
        where, emits, evs, text = c
        run.case(("prog", text) if "out" in a.get("run_folded", {}) and any(a["run_folded"]["out"]) else None,
                 {"program": text} if run.evaluations % 97 == 0 else None)
        run.count("program")
        if v["c11"]:
            n_fail += 1
            run.count("oracle_fail")
            if shown["c11"] < 7:
                shown["c11"] += 1
                run.violation("the engine panics / aborts evaluating a stream expression: " + "; ".join(v["c11"])[:500],
                              {"kind": "program", "vpl": text, "events": evs, "implementation": a if "abort" in a else {k: a.get(k) for k in ("run_folded", "run_unfolded")},
                               "contradicts": "C11_no_panic (coq/theories/Expr/PropsC11.v)"})
        if v["corr"] and shown["corr"] < 5:
            shown["corr"] += 1
            run.tie_broken("correspondence Expr/Model.v vs parser+Engine on %s" % X.short(text, 200), "; ".join(v["corr"])[:1500] + " events=" + X.short(evs, 600))
    run.extra["oracle_failures"] = n_fail


def replay(run, path):
    r = json.load(open(path))["replay"]
    ok, bindir, lg = harness.build("vp-expr")
    binpath = os.path.join(bindir, "vp-expr")
    if r["kind"] == "ast":
        a = X.run_resilient(binpath, [{"op": "eval", "expr": r["expr"], "events": r["events"]}])[0]
        msgs = X.judge_ast(r["expr"], r["events"], a, None)["c11"]
    else:
        a = X.run_resilient(binpath, [{"op": "program", "vpl": r["vpl"], "events": r["events"]}])[0]
        msgs = X.judge_program((None, [], r["events"], r["vpl"]), a, None)["c11"]
    run.case(("replay",), {"replay": r.get("expr_text") or r.get("vpl")})
    run.case(("replay2",))
    if msgs:
        run.violation("; ".join(msgs)[:600], dict(r, implementation=a))
