"""Shared machinery for C12 / C13 (crates/varpulis-runtime/src/window.rs, engine/types.rs).

A case is a dict:
  {"api": "win"|"eng", "kind": K, "a": int, "b": int, "ops": [...], "mode": "inorder"|"ooo"}
K in tumbling count session sliding slidingcount ptumbling psession psliding pcount pslidingcount
(the last two exist only inside the Engine).  ops as in harness/crates/window:
  ["add", id, ts, key]  ["wm", t]  ["expire", t]  ["flush"]  ["cur"]
api "win" drives the window type directly; api "eng" loads a VPL program
`stream S = A[.partition_by(k)].window(..).aggregate(n: count(), s: sum(x), f: first(x), l: last(x)).emit(..)`
into the Engine and feeds the events (x = 2^id, so sum/first/last identify the window contents).

Three judgements per case: the implementation's observables rendered exactly like
Window/Run.v renders the model's (correspondence), and an independent Python oracle
that judges the implementation's outputs against the property text.
"""
import json
import os
import struct

from vplib import coqtools, harness

IMPORTS = ("From Coq Require Import String.\nFrom VP Require Import Base.Tactics Base.Render Window.Model Window.Run.\n"
           "Open Scope string_scope.\nOpen Scope Z_scope.\n")

PARTITIONED = ("ptumbling", "psession", "psliding", "pcount", "pslidingcount")
PLAIN_OF = {"ptumbling": "tumbling", "psession": "session", "psliding": "sliding", "pcount": "count",
            "pslidingcount": "slidingcount"}
C12_KINDS = ("tumbling", "count", "session", "ptumbling", "psession", "pcount")
C13_KINDS = ("sliding", "slidingcount", "psliding", "pslidingcount")
ENGINE_ONLY = ("pcount", "pslidingcount")


def base_kind(k):
    return PLAIN_OF.get(k, k)


# ---------------------------------------------------------------- rendering
def g_kind(c):
    k, a, b = c["kind"], c["a"], c["b"]
    z = lambda n: "(%d)" % n
    n = lambda x: "%d%%nat" % x
    return {
        "tumbling": lambda: "KTumbling %s" % z(a), "count": lambda: "KCount %s" % n(a), "session": lambda: "KSession %s" % z(a),
        "sliding": lambda: "KSliding %s %s" % (z(a), z(b)), "slidingcount": lambda: "KSlidingCount %s %s" % (n(a), n(b)),
        "ptumbling": lambda: "KPTumbling %s" % z(a), "psession": lambda: "KPSession %s" % z(a),
        "psliding": lambda: "KPSliding %s %s" % (z(a), z(b)), "pcount": lambda: "KPCount %s" % n(a),
        "pslidingcount": lambda: "KPSlidingCount %s %s" % (n(a), n(b)),
    }[k]()


def g_op(o):
    if o[0] == "add":
        return "Add (mkEv %d (%d) (%d))" % (o[1], o[2], o[3])
    if o[0] == "wm":
        return "Wm (%d)" % o[1]
    if o[0] == "expire":
        return "Expire (%d)" % o[1]
    if o[0] == "flush":
        return "Flush"
    if o[0] == "cur":
        return "Cur"
    raise ValueError(o)


def g_case(c):
    return "%s (%s) [%s]" % ("win_case" if c["api"] == "win" else "engine_case", g_kind(c), "; ".join(g_op(o) for o in c["ops"]))


def vpl_program(c):
    k, a, b = c["kind"], c["a"], c["b"]
    bk = base_kind(k)
    w = {"tumbling": ".window(%ds)" % a, "count": ".window(%d)" % a, "session": ".window(session: %ds)" % a,
         "sliding": ".window(%ds, sliding: %ds)" % (a, b), "slidingcount": ".window(%d, sliding: %d)" % (a, b)}[bk]
    part = "    .partition_by(k)\n" if k in PARTITIONED else ""
    return ("stream S = A\n" + part + "    " + w + "\n    .aggregate(n: count(), s: sum(x), f: first(x), l: last(x))\n"
            "    .emit(n: n, s: s, f: f, l: l)\n")


def request(c):
    if c["api"] == "eng":
        return {"kind": "engine", "program": vpl_program(c), "track": False, "ops": c["ops"]}
    return {"kind": c["kind"], "a": c["a"], "b": c["b"], "ops": c["ops"]}


def ids_str(l):
    return "[" + ",".join(str(x) for x in l) + "]"


def key_str(k):
    return "d" if k == "default" else k


def out_str(kind, opname, o):
    if o is None:
        return "-"
    if isinstance(o, int):
        return str(o)
    if kind in PARTITIONED and opname in ("wm", "expire"):
        return "{" + "/".join("%s:%s" % (key_str(k), ids_str(l)) for k, l in o) + "}"
    return ids_str(o)


def tagged_num(v):
    """tagged JSON value -> python number (ints stay ints, floats only if integral)"""
    if "i" in v:
        return int(v["i"])
    if "f" in v:
        f = struct.unpack("<d", struct.pack("<Q", int(v["f"])))[0]
        return int(f) if f == int(f) and abs(f) < 2 ** 62 else f
    return None


def eng_rows(outs_for_op):
    """engine outputs of one op -> list of dicts n,s,f,l (+ part)"""
    rows = []
    for ev in outs_for_op:
        if "error" in ev:
            rows.append({"error": ev["error"]})
            continue
        d = {k: v for k, v in ev["fields"]}
        rows.append({"n": tagged_num(d.get("n", {})), "s": tagged_num(d.get("s", {})), "f": tagged_num(d.get("f", {})),
                     "l": tagged_num(d.get("l", {})), "type": ev["type"]})
    return rows


def impl_str(c, ans):
    """Canonical string of an implementation answer, same format as Window/Run.v."""
    if "panic" in ans:
        return "PANIC " + ans["panic"][:80]
    if "error" in ans:
        return "ERROR " + ans["error"][:200]
    if c["api"] == "eng":
        parts = []
        for o in ans["outs"]:
            parts.append("+".join("(%s,%s,%s,%s)" % (r.get("n"), r.get("s"), r.get("f"), r.get("l")) if "error" not in r else "ERR"
                                  for r in eng_rows(o)))
        return ";".join(parts)
    outs = [out_str(c["kind"], op[0], o) for op, o in zip(c["ops"], ans["outs"])]
    return ";".join(outs) + "|" + out_str(c["kind"], "final", ans["final"])


# ------------------------------------------------------------------- oracle
def arrivals(c):
    return [(o[1], o[2], o[3]) for o in c["ops"] if o[0] == "add"]


def pkey(key):
    return "default" if key < 0 else str(key)


def is_time_ordered(c):
    """in-order in the sense of the span clauses: every event timestamp is >= every earlier event
    timestamp and >= every earlier watermark / expiry instant handed to the window"""
    hi = None
    for o in c["ops"]:
        if o[0] == "add":
            if hi is not None and o[2] < hi:
                return False
            hi = o[2]
        elif o[0] in ("wm", "expire"):
            hi = o[1] if hi is None else max(hi, o[1])
    return True


def events_in_order(c):
    ts = [o[2] for o in c["ops"] if o[0] == "add"]
    return all(x <= y for x, y in zip(ts, ts[1:]))


def decode_bits(s):
    return [i for i in range(62) if s >> i & 1]


def observed_windows(c, ans):
    """-> (list of (op_index, op_name, key|None, [ids]) closed windows in emission order, final ids or None, problems)"""
    wins = []
    problems = []
    if c["api"] == "win":
        for i, (op, o) in enumerate(zip(c["ops"], ans["outs"])):
            if op[0] == "cur" or o is None:
                continue
            if c["kind"] in PARTITIONED and op[0] in ("wm", "expire"):
                for k, l in o:
                    wins.append((i, op[0], k, l))
            elif op[0] == "flush" and c["kind"] in PARTITIONED:
                # flattened over partitions, stably sorted by key by the harness: split back per key
                keyof = {a[0]: pkey(a[2]) for a in arrivals(c)}
                cur = None
                for x in o:
                    k = keyof.get(x)
                    if cur is None or cur[2] != k:
                        cur = (i, "flush", k, [])
                        wins.append(cur)
                    cur[3].append(x)
            else:
                k = pkey(op[3]) if (op[0] == "add" and c["kind"] in PARTITIONED) else None
                wins.append((i, op[0], k, o))
        fin = ans["final"] if isinstance(ans["final"], list) else None
        return wins, fin, problems
    # engine: decode aggregates
    for i, (op, o) in enumerate(zip(c["ops"], ans["outs"])):
        for r in eng_rows(o):
            if "error" in r:
                problems.append("op %d: engine error %s" % (i, r["error"]))
                continue
            if not isinstance(r["s"], int) or r["s"] < 0:
                problems.append("op %d: sum(x) = %r is not a set of ids" % (i, r["s"]))
                continue
            l = decode_bits(r["s"])
            if r["n"] != len(l):
                problems.append("op %d: window reports count %s but sum(x) identifies %d distinct events %s (an event twice or missing)" % (i, r["n"], len(l), l))
            if l and (r["f"] != 1 << l[0] or r["l"] != 1 << l[-1]):
                problems.append("op %d: first/last %s/%s do not match arrival order of %s" % (i, r["f"], r["l"], l))
            k = pkey(op[3]) if (op[0] == "add" and c["kind"] in PARTITIONED) else None
            wins.append((i, op[0], k, l))
    return wins, None, problems


def oracle_c12(c, ans):
    """Property C12 judged on the implementation's outputs. Returns list of (clause, message)."""
    if "panic" in ans:
        return [("panic", "implementation panicked: " + ans["panic"][:200])]
    if "error" in ans:
        return [("error", ans["error"][:200])]
    fails = []
    wins, fin, problems = observed_windows(c, ans)
    fails += [("partition", p) for p in problems]
    arr = arrivals(c)
    ts = {a[0]: a[1] for a in arr}
    bk = base_kind(c["kind"])
    # 1. exact partition, in arrival order
    if c["kind"] not in PARTITIONED:
        sub = [a[0] for a in arr]
        got = [x for w in wins for x in w[3]]
        if fin is not None:
            if got + fin != sub:
                fails.append(("partition", "closed windows %s then still buffered %s is not the arrival sequence %s" % ([w[3] for w in wins], fin, sub)))
        elif got != sub[:len(got)]:
            fails.append(("partition", "closed windows %s are not consecutive pieces of the arrival sequence %s" % ([w[3] for w in wins], sub)))
    else:
        # one window per partition: every arrival exactly once over all windows + buffers, each window in
        # arrival order, and the windows of one partition in arrival order one after the other.
        # (Which key goes to which partition is C04's business, not judged here.)
        got = [x for w in wins for x in w[3]]
        allids = got + (fin or [])
        if len(set(allids)) != len(allids):
            fails.append(("partition", "an event is emitted twice: closed windows %s, still buffered %s" % ([w[3] for w in wins], fin)))
        if fin is not None and sorted(allids) != sorted(a[0] for a in arr):
            fails.append(("partition", "closed windows %s plus still buffered %s are not exactly the arrivals %s" % ([w[3] for w in wins], fin, [a[0] for a in arr])))
        if fin is None and not set(allids) <= set(a[0] for a in arr):
            fails.append(("partition", "closed windows %s hold events that never arrived" % ([w[3] for w in wins],)))
        for lab in sorted(set(w[2] for w in wins), key=str):
            seq = [x for w in wins if w[2] == lab for x in w[3]]
            if seq != sorted(seq):
                fails.append(("partition", "partition %s: closed windows %s are not in arrival order" % (lab, [w[3] for w in wins if w[2] == lab])))
    # 2. count windows close with exactly their size
    if bk == "count" and c["a"] >= 1:
        for w in wins:
            if w[1] == "add" and len(w[3]) != c["a"]:
                fails.append(("count", "count window of size %d closed with %d events %s" % (c["a"], len(w[3]), w[3])))
    # 3. tumbling span (in-order input): only events earlier than first + duration
    if bk == "tumbling" and c["a"] >= 1 and is_time_ordered(c):
        for w in wins + ([(None, "final", None, fin)] if fin and c["kind"] not in PARTITIONED else []):
            l = w[3]
            if l and any(ts[x] >= ts[l[0]] + c["a"] for x in l):
                fails.append(("span", "tumbling window (duration %d) %s holds timestamps %s, not all earlier than first + duration" % (
                    c["a"], l, [ts[x] for x in l])))
    # 4. session gaps (in-order input)
    if bk == "session" and c["a"] >= 0 and events_in_order(c):
        for w in wins + ([(None, "final", None, fin)] if fin and c["kind"] not in PARTITIONED else []):
            l = w[3]
            if any(ts[y] - ts[x] > c["a"] for x, y in zip(l, l[1:])):
                fails.append(("gap", "session (gap %d) %s holds timestamps %s with a gap above the session gap" % (c["a"], l, [ts[x] for x in l])))
    return fails


def sliding_spec(kind, a, b, evs):
    """Reference emission schedule for one (sub)stream of events [(id, ts)] in arrival order.
    Returns list parallel to evs: None or list of ids."""
    outs = []
    if kind == "sliding":
        last = None
        for i, (eid, t) in enumerate(evs):
            if last is None or t >= last + b:
                outs.append([x for x, tx in evs[:i + 1] if t - a <= tx])
                last = t
            else:
                outs.append(None)
    else:
        since = 0
        for i in range(len(evs)):
            since += 1
            if i + 1 >= a and since >= b:
                outs.append([x for x, _ in evs[max(0, i + 1 - a):i + 1]])
                since = 0
            else:
                outs.append(None)
    return outs


def oracle_c13(c, ans):
    """Property C13 judged on the implementation's outputs (add-only, in-order streams)."""
    if "panic" in ans:
        return [("panic", "implementation panicked: " + ans["panic"][:200])]
    if "error" in ans:
        return [("error", ans["error"][:200])]
    bk = base_kind(c["kind"])
    if any(o[0] in ("wm", "expire", "flush") for o in c["ops"]) or not events_in_order(c):
        return []          # outside the property's quantifier; covered by the correspondence only
    if bk == "slidingcount" and c["a"] < 1:
        return []
    fails = []
    wins, _, problems = observed_windows(c, ans)
    fails += [("contents", p) for p in problems]
    got = {w[0]: w[3] for w in wins}
    per_op = [w[0] for w in wins]
    if len(set(per_op)) != len(per_op):
        fails.append(("when", "more than one emission for one arrival: ops %s" % per_op))
    arr = [(i, o) for i, o in enumerate(c["ops"]) if o[0] == "add"]
    keys = sorted(set(pkey(o[3]) for _, o in arr)) if c["kind"] in PARTITIONED else [None]
    for k in keys:
        sub = [(i, o) for i, o in arr if k is None or pkey(o[3]) == k]
        spec = sliding_spec(bk, c["a"], c["b"], [(o[1], o[2]) for _, o in sub])
        for (i, o), want in zip(sub, spec):
            have = got.get(i)
            if want is None and have is not None:
                fails.append(("when", "arrival id %d (ts %d): emitted %s but the slide has not elapsed / window not full" % (o[1], o[2], have)))
            elif want is not None and have is None:
                fails.append(("when", "arrival id %d (ts %d): no emission but %s is due" % (o[1], o[2], want)))
            elif want is not None and have != want:
                fails.append(("contents", "arrival id %d (ts %d): emitted %s, events in range are %s" % (o[1], o[2], have, want)))
    return fails


# ---------------------------------------------------------------- generation
def gen_stream_ops(rng, kind, a, b, mode, maxlen, with_wm, with_misc, keys):
    """One op sequence. mode inorder: time-ordered (event ts >= all earlier event ts and watermarks); ooo: disorder."""
    bk = base_kind(kind)
    span = max(a, 1)
    ops = []
    now = rng.range(-2, 3)
    n = rng.range(0, maxlen)
    eid = 0
    # step choices aimed at the boundaries: 0 (tie), 1, span-1, span, span+1
    steps = [0, 0, 1, 1, 1, 2, max(span - 1, 0), span, span + 1]
    if bk in ("sliding", "slidingcount"):
        steps += [max(b - 1, 0), b, b + 1]
    for _ in range(n):
        r = rng.below(100)
        if with_wm and r < 18 and bk in ("tumbling", "session", "sliding"):
            w = now + rng.choice([-2, -1, 0, 0, 1, span - 1, span, span + 1, span + 2])
            ops.append(["wm", w])
            if mode == "inorder":
                now = max(now, w)
            continue
        if with_misc and r < 24 and bk == "session":
            w = now + rng.choice([0, 1, span, span + 1, span + 2])
            ops.append(["expire", w])
            continue
        if with_misc and r < 28 and bk in ("tumbling", "count", "session"):
            ops.append(["flush"])
            continue
        if with_misc and r < 31 and kind in ("tumbling", "count", "sliding", "slidingcount", "psliding"):
            ops.append(["cur"])
            continue
        if mode == "inorder":
            now += rng.choice(steps)
            ts = now
        else:
            now += rng.choice(steps)
            ts = now - rng.choice([0, 0, 1, 2, span, span + 1, 2 * span + 1]) if rng.chance(1, 2) else now
        key = rng.choice(keys) if kind in PARTITIONED else -1
        ops.append(["add", eid, ts, key])
        eid += 1
    return ops


def mk_case(api, kind, a, b, ops, mode):
    return {"api": api, "kind": kind, "a": a, "b": b, "ops": ops, "mode": mode}


def gen_case(rng, kinds, tier_len, engine_share=(1, 3)):
    kind = rng.choice(kinds)
    api = "eng" if (kind in ENGINE_ONLY or rng.chance(*engine_share)) else "win"
    bk = base_kind(kind)
    lo = 1 if api == "eng" else (0 if rng.chance(1, 25) else 1)
    a = rng.range(lo, 5)
    b = rng.range(lo, 5) if bk in ("sliding", "slidingcount") else 0
    mode = "inorder" if rng.chance(2, 3) else "ooo"
    keys = rng.choice([[0, 1], [0, 1, 2], [0, 1, -1], [2, -1]])
    direct = api == "win"
    ops = gen_stream_ops(rng, kind, a, b, mode, tier_len, with_wm=direct and rng.chance(2, 3),
                         with_misc=direct and rng.chance(1, 2), keys=keys)
    return mk_case(api, kind, a, b, ops, mode)


def exhaustive_small(kinds, apis=("win",)):
    """All (a, b) in 1..3 x all in-order streams of <= 4 events with steps in {0,1,2,3}, add-only;
    partitioned kinds with the key pattern 0,1,0,1."""
    cases = []
    import itertools
    for kind in kinds:
        bk = base_kind(kind)
        for api in apis:
            if api == "win" and kind in ENGINE_ONLY:
                continue
            for a in (1, 2, 3):
                for b in ((1, 2, 3) if bk in ("sliding", "slidingcount") else (0,)):
                    for n in range(1, 5):
                        for steps in itertools.product((0, 1, 2, 3), repeat=n - 1):
                            if bk in ("count", "slidingcount") and any(steps):
                                continue       # timestamps are irrelevant to count windows
                            ts = [0]
                            for s in steps:
                                ts.append(ts[-1] + s)
                            ops = [["add", i, t, (i % 2 if kind in PARTITIONED else -1)] for i, t in enumerate(ts)]
                            cases.append(mk_case(api, kind, a, b, ops, "inorder"))
                    if bk in ("count", "slidingcount"):
                        ops = [["add", i, i, (i % 2 if kind in PARTITIONED else -1)] for i in range(12)]
                        cases.append(mk_case(api, kind, a, b, ops, "inorder"))
    return cases


# ------------------------------------------------------------------ shrink
def shrink(case, still_fails):
    """Greedy removal of ops (ids are kept, so the oracle's arrival bookkeeping stays valid)."""
    ops = list(case["ops"])
    changed = True
    while changed:
        changed = False
        for i in range(len(ops) - 1, -1, -1):
            cand = dict(case, ops=ops[:i] + ops[i + 1:])
            if still_fails(cand):
                ops = cand["ops"]
                changed = True
                break
    # renumber ids densely (engine encodes ids as bits; keep them small and ordered)
    m = {}
    out = []
    for o in ops:
        if o[0] == "add":
            m.setdefault(o[1], len(m))
            out.append(["add", m[o[1]], o[2], o[3]])
        else:
            out.append(o)
    cand = dict(case, ops=out)
    return cand if still_fails(cand) else dict(case, ops=ops)


# ------------------------------------------------------------------ running
def build_all(run, targets, audit_file, allow=()):
    hits = coqtools.banned_scan()
    run.oblige("no Admitted/admit/Axiom/Parameter/guard-off anywhere in coq/", not hits, str(hits[:5]))
    ok, lg = coqtools.make(targets)
    run.oblige("make " + " ".join(targets), ok, lg[-3000:])
    if ok:
        a = coqtools.audit(audit_file, allow_axioms=allow)
        run.axioms |= a["axioms"]
        run.oblige("audit %s: %d Check pins, %d/%d Print Assumptions, axioms allowed" % (audit_file, a["n_pins"], a["n_print"], a["n_expected"]),
                   a["ok"], a["log"] + str(a["bad_axioms"]))
        run.extra["theorems_audited"] = a["n_print"]
    run.checker_cmd = "coqc 8.16.1 (full .vo) %s; coqc coq/audit/%s" % (" ".join(targets), audit_file)
    # the model must be runnable even when a proof is broken
    okm, lgm = coqtools.make(["theories/Window/Run.vo"])
    if not okm:
        run.tie_broken("model build Window/Run.vo", lgm[-2000:])
    okb, bindir, blog = harness.build("vp-window")
    if not okb:
        run.tie_broken("harness build vp-window", blog[-3000:])
        return None
    return os.path.join(bindir, "vp-window")


def run_impl(binpath, cases):
    return harness.run_jsonl(binpath, [request(c) for c in cases])


def run_cases(run, binpath, cases, tag, judge):
    """Yields ("oracle"|"corr", case, [messages])."""
    answers = run_impl(binpath, cases)
    impl = [impl_str(c, a) for c, a in zip(cases, answers)]
    try:
        model = coqtools.coq_eval(tag, IMPORTS, [g_case(c) for c in cases], shard=min(600, max(100, len(cases) // 6 + 1)))
    except RuntimeError as e:
        run.tie_broken("model evaluation (coqc cases)", str(e))
        model = [None] * len(cases)
    ndis = 0
    for k, (c, ans, si, sm) in enumerate(zip(cases, answers, impl, model)):
        nadd = sum(1 for o in c["ops"] if o[0] == "add")
        nwin = si.count("[") + si.count("(")
        nontrivial = (c["api"], c["kind"], c["a"], c["b"], json.dumps(c["ops"])) if (nadd >= 3 and nwin >= 2) else None
        run.case(nontrivial, sample={"case": c, "impl": si[:300]} if k < 3 else None)
        run.count("api=" + c["api"])
        run.count("kind=" + c["kind"])
        run.count("mode=" + c["mode"])
        run.count("size=%d" % c["a"])
        run.count("len=%02d" % min(len(c["ops"]), 20))
        for o in c["ops"]:
            run.count("op=" + o[0])
        ts = [o[2] for o in c["ops"] if o[0] == "add"]
        if any(x == y for x, y in zip(ts, ts[1:])):
            run.count("has_timestamp_tie")
        if any(x > y for x, y in zip(ts, ts[1:])):
            run.count("has_out_of_order")
        fails = judge(c, ans)
        if fails:
            run.count("oracle_fail")
            yield ("oracle", c, fails)
        if sm is not None and si != sm:
            ndis += 1
            yield ("corr", c, ["model and implementation differ:\n impl  %s\n model %s" % (si, sm)])
    run.extra["disagreements"] = run.extra.get("disagreements", 0) + ndis


def report(run, binpath, cases, judge, tag, contradicts, classify=None):
    seen_oracle = 0
    seen_corr = 0
    for kind, case, msgs in run_cases(run, binpath, cases, tag, judge):
        if kind == "oracle":
            seen_oracle += 1
            if seen_oracle <= 3:
                def still(c):
                    return bool(judge(c, run_impl(binpath, [c])[0]))
                small = shrink(case, still)
                ans = run_impl(binpath, [small])[0]
                fails = judge(small, ans)
                run.violation("; ".join(m for _, m in fails)[:700],
                              {"case": small, "program": vpl_program(small) if small["api"] == "eng" else None,
                               "implementation": impl_str(small, ans), "contradicts": contradicts},
                              classes=classify(small, fails) if classify else ())
        else:
            seen_corr += 1
            if seen_corr <= 3:
                run.tie_broken("correspondence Window/Model.v vs crates/varpulis-runtime window on %s" % json.dumps(case), msgs[0])
    run.extra["oracle_failures"] = seen_oracle


def replay(run, path, judge):
    r = json.load(open(path))["replay"]
    ok, bindir, lg = harness.build("vp-window")
    binpath = os.path.join(bindir, "vp-window")
    c = r["case"]
    ans = run_impl(binpath, [c])[0]
    fails = judge(c, ans)
    run.case(("replay",), {"case": c, "impl": impl_str(c, ans)})
    run.case(("replay2",))
    if fails:
        run.violation("; ".join(m for _, m in fails)[:700], {"case": c, "implementation": impl_str(c, ans)})
