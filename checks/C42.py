"""C42 — declaration for-loops expand to the same program as writing the copies by hand."""
import json
import os

from checks import text_common as T
from vplib import coqtools, harness

META = {
    "technique": "Coq proof (expansion of a structured loop program = its hand expansion, by induction on nesting depth over a line-based model) "
                 "+ model/impl differential on generated and malformed loop sources + AST oracle (loop program vs hand-expanded program)",
    "design_ref": "DESIGN.md §7 C42",
    "level_text": "Coq theorem: expansion of every well-formed loop program equals its hand-written copies, about an executable model tied to expand.rs by a differential run on every check",
    "level_note": "Proved for the model Text/Expand.v: for every well-formed declaration program (Text/ExpandSpec.v wf: statements whose text does not "
                  "start with white space, '{' or 'f', continuation lines indented by spaces or empty, loop variables without white space or '{', "
                  "literal ranges a..b within i64 with at most 10000 values, nesting depth <= 9, weight <= 100000 lines, indentation unit >= 1 space) expand returns exactly "
                  "the hand-written copies (C42_expand) and the hand-written text is a fixed point (C42_same_text_to_parser). Modelled, tied by the "
                  "differential run on well-formed and malformed sources: expand_declaration_loops, expand_one_pass, is_declaration_for, "
                  "parse_for_range (i64 literals widened to i128, range limit, pass limit, generated-lines limit, byte-offset slicing with trim_start fallback). Tested only (AST oracle on the real "
                  "parser): inclusive ranges ..=, tab indentation, placeholder bounds of inner loops; that equal expanded text gives equal programs "
                  "is the structure of parse_inner, not modelled.",
}
IMPORTS = ("From Coq Require Import String.\nFrom VP Require Import Base.Tactics Base.Render Text.Str Text.Expand Text.ExpandSpec Text.ExpandRun.\n"
           "Open Scope string_scope.\nOpen Scope N_scope.\n")


# ---------------------------------------------------------------- structured programs
# item = ("plain", [line0, cont1, ...])            line0 at relative indent 0, conts indented (or "")
#      | ("loop", var, a, b, inclusive, [items])   a, b: strings (integer literals or placeholders of outer variables)
def plain_templates(rng, vars_):
    """stream-declaration shaped statements; placeholders of the enclosing loop variables"""
    def ph():
        return "{%s}" % rng.choice(vars_) if vars_ and rng.chance(4, 5) else str(rng.below(4))
    name = "S" + "_".join(ph() for _ in range(rng.range(1, max(1, len(vars_)))))
    k = rng.below(12)
    if k < 4:
        lines = ["stream %s = E%s" % (name, ph() if rng.chance(1, 2) else "")]
        for _ in range(rng.below(3)):
            lines.append("    " + rng.choice([".where(x > %s)" % ph(), ".emit(a: %s, b: x)" % ph(), ".where(sym == \"s%s\")" % ph(), ".select(v: x + %s)" % ph(),
                                                ".emit(t: \"{%s}\")" % (vars_[0] if vars_ else "q")]))
        return lines
    if k < 6:
        return ["stream %s = E.where(v == %s)" % (name, ph())]
    if k == 6:
        return ["event Ev%s:" % ph(), "    x: int", "    tag%s: str" % ph()]
    if k == 7:
        return ["connector c%s = mqtt(host: \"h%s\", port: 188%s)" % (ph(), ph(), rng.below(10))]
    if k == 8:
        return ["const K%s = %s" % (ph(), ph())]
    if k == 9:
        return ["stream %s = E%s" % (name, ph()), "", "    .where(x > 0)"] if rng.chance(1, 2) else ["stream %s = E" % name, ""]
    if k == 10:
        return ["# note %s" % ph(), "stream %s = E" % name][:1 + rng.below(2)] if False else ["stream %s = E  # c%s" % (name, ph())]
    return ["stream %s = E%s.where(a.b == %s and c != \"{x}\")" % (name, ph(), ph())]


def gen_items(rng, depth, vars_, maxdepth, top=False):
    items = []
    n = rng.range(1, 3) if not top else rng.range(1, 4)
    for _ in range(n):
        if depth < maxdepth and rng.chance(1, 2 if top else 3):
            var = rng.choice([v for v in ["i", "j", "k", "idx", "n_1"] if v not in vars_] or ["z"])
            a = rng.choice([0, 0, 0, 1, 2, 5, -1])
            ln = rng.choice([0, 1, 1, 2, 2, 3, 4, 5, 6])
            inclusive = rng.chance(1, 4)
            b = a + ln - (1 if inclusive else 0)
            a_s, b_s = str(a), str(b)
            if vars_ and rng.chance(1, 6) and not inclusive:
                a_s, b_s = "0", "{%s}" % rng.choice(vars_)
            items.append(("loop", var, a_s, b_s, inclusive, gen_items(rng, depth + 1, vars_ + [var], maxdepth)))
        else:
            items.append(("plain", plain_templates(rng, vars_)))
    return items


def render(items, depth, unit):
    out = []
    pre = unit * depth
    for it in items:
        if it[0] == "plain":
            for l in it[1]:
                out.append(pre + l if l != "" else "")
        else:
            _, var, a, b, inc, body = it
            out.append(pre + "for %s in %s%s%s:" % (var, a, "..=" if inc else "..", b))
            out += render(body, depth + 1, unit)
    return out


def hand(items, env, unit):
    """the copies written out by hand: substitution of the enclosing loops' values, outermost first"""
    def sub(s):
        for var, val in env:
            s = s.replace("{%s}" % var, str(val))
        return s
    out = []
    for it in items:
        if it[0] == "plain":
            out += [sub(l) for l in it[1]]
        else:
            _, var, a, b, inc, body = it
            lo, hi = int(sub(a)), int(sub(b)) + (1 if inc else 0)
            for v in range(lo, hi):
                out += hand(body, env + [(var, v)], unit)
    return out


def depth_of(items):
    return max([0] + [1 + depth_of(it[5]) for it in items if it[0] == "loop"])


def count_loops(items):
    return sum(1 + count_loops(it[5]) for it in items if it[0] == "loop")


def gen_wellformed(rng, maxdepth):
    items = gen_items(rng, 0, [], maxdepth, top=True)
    if count_loops(items) == 0:
        items.insert(rng.below(len(items) + 1), ("loop", "i", "0", str(rng.below(4)), False, [("plain", plain_templates(rng, ["i"]))]))
    unit = rng.choice(["    ", "    ", "  ", "\t", "   ", "        "])
    # continuation lines inside plain items use 4 spaces relative indentation in the templates
    return items, unit


# ---------------------------------------------------------------- malformed / boundary sources (correspondence only)
def gen_nasty(rng):
    k = rng.below(22)
    if k == 0 and not rng.chance(1, 4):
        k = 6
    body = rng.choice(["    stream S{i} = E\n", "  a{i}\n    b{i}\n", "        deep{i}\n    shallow{i}\n", "\tx{i}\n", " x{i}\n　y{i}\n", " x{i}\n y{i}\n",
                       "    a{i}\n\n    b{i}\n\n", "    a{i}\n   \n    b\n", "", "    {i}{i}{{i}}{ i }{I}\n", "    for j in 0..2:\n        s{i}{j}\n", "  é{i}\n  ü\n",
                       "   a{i}\n b{i}\n", "    a\n# comment at column 0\n    b\n"])
    tail = rng.choice(["", "stream T = E\n", "\nstream T = E", "for k in 0..1:\n    t{k}\n"])
    if k == 0:
        hdr = "for i in 0..%d:" % rng.choice([10000, 10001, 9999])
        body = "    x\n" if rng.chance(1, 2) else ""
    elif k == 1:
        hdr = rng.choice(["for i in 0..=9223372036854775807:", "for i in 9223372036854775807..9223372036854775807:", "for i in -9223372036854775808..1:",
                          "for i in 9223372036854775806..=9223372036854775806:", "for i in 9223372036854775808..1:", "for i in -9223372036854775808..-9223372036854775807:",
                          "for i in 4611686018427387904..-4611686018427387905:"])
    elif k == 2:
        hdr = rng.choice(["for i in a..b:", "for  in 0..2:", "for i in 0..2 :", "for i in 0...2:", "for i in 0..2", "for i in 0 .. 2:", "for i in +1..+3:", "for i  in  0..2:",
                          "for i in 0..2:  ", "for i in 0..2: # c", "for i in0..2:", "for i in 0..=2:", "for i in 0..==2:", "for i in ..2:", "for i in 2..:", "for i in 1..2..3:",
                          "for i, j in 0..2:", "for {i} in 0..2:", "for i in 3..1:", "for i in 0..0:", "for in in 0..2:", "for x in in 0..2:", "FOR i in 0..2:", "for\ti in 0..2:",
                          "for i in 0..2:\r", "for i in 0x1..2:", "for i in 1_0..12:", "for i in -2..1:", "for i in 0..2: :"])
    elif k == 3:
        hdr = " for i in 0..2:"
    elif k == 4:
        # nesting deeper than the pass limit
        d = rng.choice([8, 9, 10, 11])
        src = "".join("%sfor v%d in 0..1:\n" % ("  " * i, i) for i in range(d)) + "  " * d + "leaf" + "".join("{v%d}" % i for i in range(d)) + "\n"
        return src
    elif k == 5:
        return rng.choice(["", "\n", "x", "x\r\ny\r\n", "for", "for \n", "stream A = B", "\n\nfor i in 0..2:\n\n\n", "for i in 0..2:", "for i in 0..2:\n", "a\n  for i in 0..2:\n    b{i}\n"])
    else:
        hdr = "for i in %d..%s%d:" % (rng.below(3), rng.choice(["", "="]), rng.below(5))
    pre = rng.choice(["", "stream P = E\n", "# c\n", "\n", "stream P = E\n    .where(x > 1)\n"])
    src = pre + hdr + "\n" + body + tail
    if rng.chance(1, 8):
        src = src.replace("\n", "\r\n")
    if rng.chance(1, 6) and src.endswith("\n"):
        src = src[:-1]
    return src


CORPUS_NASTY = [
    "for i in 0..2:\n        stream A{i} = X\n    stream B{i} = Y\n",      # ragged body: the shallower line loses its first characters
    "for i in 0..2:\n x{i}\n　y{i}\n",                                  # strip offset inside a multi-byte whitespace character: panic
    "for i in 0..10001:\n    x\n",
    "for i in 0..=9223372036854775807:\n    x\n",
]

# heavier boundary sources for the thorough tier (kept empty: the generated-lines limit is already exercised by the
# third and fourth entries above, and a 100000-line expansion is too slow to evaluate inside Coq)
CORPUS_NASTY_THOROUGH = []


def parse_equal(a, b):
    """same program, or both rejected (messages and positions are not compared)"""
    if "ok" in a and "ok" in b:
        return a["ok"] == b["ok"]
    return ("ok" in a) == ("ok" in b)


def check(run):
    run.rule = ("structured loop programs over stream/event/connector/const declaration templates with placeholders (ranges of length 0-6, .. and ..=, negative "
                "starts, nesting depth <= 2 (thorough 3), inner bounds using outer placeholders, indentation units 2/3/4/8 spaces or tab, blank lines, items "
                "before/between/after loops) judged by AST equality with the hand-expanded program; plus malformed/boundary sources (ragged or multi-byte "
                "indentation, range and generated-lines limits, i64 edges, malformed headers, >10 nesting, CRLF) for the model/implementation comparison; non-trivial = "
                "well-formed program with >= 2 emitted copies that parses; distinct = distinct source text")
    run.trusted += ["Coq 8.16.1 kernel + vm_compute",
                    "hand-written model coq/theories/Text/Expand.v (+ Text/Str.v) tied by differential run (expanded text compared verbatim, Err/panic outcome compared)",
                    "identical expanded text => identical program: the rest of the parser is a function of the expanded text (parse_inner)",
                    "Rust harness harness/crates/text, Python driver checks/C42.py (generators, independent hand expansion with str.replace, AST oracle)"]
    run.assumptions += ["usize arithmetic of the `generated` counter does not overflow (at most 100000 + one body length)"]
    binpath = T.build_all(run, ["theories/Text/ExpandProps.vo", "theories/Text/ExpandRun.vo"], "C42.v")
    if binpath is None:
        return
    rng = run.rng
    maxdepth = 2 if run.tier == "quick" else 3
    wf = []
    n = 260 if run.tier == "quick" else 2500
    for i in range(n):
        items, unit = gen_wellformed(rng, maxdepth if i % 4 else 1)
        wf.append((items, unit))
    nasty = list(CORPUS_NASTY) + (CORPUS_NASTY_THOROUGH if run.tier == "thorough" else []) + [gen_nasty(rng) for _ in range(260 if run.tier == "quick" else 2500)]
    # ---- oracle on the implementation: loop program vs hand-written copies, as parsed programs
    loop_src = ["".join(l + "\n" for l in render(items, 0, unit)) for items, unit in wf]
    hand_src = ["".join(l + "\n" for l in hand(items, [], unit)) for items, unit in wf]
    pa = harness.run_jsonl(binpath, [{"kind": "parse", "source": s} for s in loop_src])
    pb = harness.run_jsonl(binpath, [{"kind": "parse", "source": s} for s in hand_src])
    nviol = 0
    for (items, unit), ls, hs, a, b in zip(wf, loop_src, hand_src, pa, pb):
        copies = len(hand(items, [], unit))
        nontrivial = ls if ("ok" in a and copies >= 2) else None
        run.case(nontrivial, sample={"loop_program": ls[:400], "hand_expanded": hs[:400]} if nontrivial and len(run.samples) < 2 else None)
        run.count("depth=%d" % depth_of(items))
        run.count("loops=%d" % min(count_loops(items), 6))
        run.count("unit=%r" % unit)
        run.count("parse=" + ("ok" if "ok" in b else "rejected"))
        for it in all_loops(items):
            try:
                run.count("range_len=%d" % max(0, int(it[3]) + (1 if it[4] else 0) - int(it[2])))
            except ValueError:
                run.count("range_len=placeholder")
        if not parse_equal(a, b):
            run.count("oracle_fail")
            nviol += 1
            if nviol <= 3:
                run.violation("loop program and its hand-expanded copies parse differently: %s vs %s" % (summ(a), summ(b)),
                              {"kind": "expand", "loop_program": ls, "hand_expanded": hs, "contradicts": "C42_expand (coq/theories/Text/ExpandProps.v)"})
    run.extra["oracle_failures"] = nviol
    # ---- correspondence: expansion text, model vs implementation, on everything
    sources = loop_src + hand_src + nasty
    impl = harness.run_jsonl(binpath, [{"kind": "expand", "source": s} for s in sources])
    for s in nasty:
        run.case(None)
        run.count("malformed/boundary source")
    try:
        model = coqtools.coq_eval("C42", IMPORTS, ["expand_case %s" % T.g_cps(s) for s in sources], shard=max(10, len(sources) // 16 + 1))
    except RuntimeError as e:
        run.tie_broken("model evaluation (coqc cases)", str(e))
        return
    ndis = 0
    for s, a, m in zip(sources, impl, model):
        if "ok" in a and len(a["ok"]) > 3000:
            got = "OKH|%d|%d" % (len(a["ok"]), hash_text(a["ok"]))
        else:
            got = "OK|" + ".".join(str(ord(c)) for c in a["ok"]) if "ok" in a else ("PANIC" if "panic" in a else "ERR")
        run.count("expand=" + got[:2].lower().replace("ok", "ok").replace("pa", "panic").replace("er", "err"))
        if got != m:
            ndis += 1
            if ndis <= 3:
                show = lambda x: repr(T.from_cps(x[3:])) if x.startswith("OK|") else x
                run.tie_broken("correspondence Text/Expand.v vs expand.rs on source %r" % s[:300], "impl %s\n model %s" % (show(got)[:600], show(m)[:600]))
    run.extra["disagreements"] = ndis
    # ---- the generated programs are instances of the theorem's class, and its hand expansion is the one judged above
    tie = [(items, unit, ls, hs) for (items, unit), ls, hs in zip(wf, loop_src, hand_src) if in_coq_class(items, unit)]
    try:
        spec = coqtools.coq_eval("C42s", IMPORTS, ["spec_case %d%%nat %s" % (len(unit), g_items(items)) for items, unit, _, _ in tie], shard=max(10, len(tie) // 16 + 1))
    except RuntimeError as e:
        run.tie_broken("spec evaluation (coqc cases)", str(e))
        spec = []
    run.count("in-theorem-class", len(tie))
    for (items, unit, ls, hs), sp in zip(tie, spec):
        want = "W=1|D=%d|G=%d|R=%d,%d|H=%d,%d" % (depth_of(items), weight(items), len(ls), hash_text(ls), len(hs), hash_text(hs))
        if sp != want:
            run.tie_broken("Text/ExpandSpec.v render/hand/wf vs the generator of checks/C42.py on %r" % ls[:300], "coq %s python %s" % (sp, want))
            break
    # the hand-expanded text is a fixed point of the expansion (so the comparison above is about the same final text)
    for hs, a in zip(hand_src, impl[len(loop_src):len(loop_src) + len(hand_src)]):
        if a.get("ok") != hs:
            run.tie_broken("hand-expanded program is not left unchanged by expand_declaration_loops", repr(hs[:200]))
            break


def weight(items):
    """ExpandSpec.weight_prog: every loop counts its body once per value (at least once) plus its header"""
    w = 0
    for it in items:
        if it[0] == "plain":
            w += len(it[1])
        else:
            w += 1 + max(1, int(it[3]) - int(it[2])) * weight(it[5])
    return w


def hash_text(t):
    h = 0
    for ch in t:
        h = (h * 1000003 + ord(ch) + 1) % 2305843009213693951
    return h


def in_coq_class(items, unit):
    """literal exclusive ranges and space indentation: the shape ExpandSpec.render writes"""
    if set(unit) != {" "}:
        return False
    for it in all_loops(items):
        if it[4] or "{" in it[2] or "{" in it[3]:
            return False
    return True


def g_items(items):
    out = []
    for it in items:
        if it[0] == "plain":
            out.append("Plain %s [%s]" % (T.g_cps(it[1][0]), "; ".join(T.g_cps(l) for l in it[1][1:])))
        else:
            out.append("Loop %s (%s)%%Z (%s)%%Z %s" % (T.g_cps(it[1]), it[2], it[3], g_items(it[5])))
    return "[" + "; ".join(out) + "]"


def all_loops(items):
    for it in items:
        if it[0] == "loop":
            yield it
            yield from all_loops(it[5])


def summ(p):
    return ("%d statements" % len(p["ok"])) if "ok" in p else "rejected (%s)" % p.get("err", "")[:80]


def replay(run, path):
    r = json.load(open(path))["replay"]
    ok, bindir, lg = harness.build(T.BIN)
    binpath = os.path.join(bindir, T.BIN)
    a, b = harness.run_jsonl(binpath, [{"kind": "parse", "source": r["loop_program"]}, {"kind": "parse", "source": r["hand_expanded"]}])
    run.case(("replay",), {"loop_program": r["loop_program"][:300]})
    if not parse_equal(a, b):
        run.violation("loop program and its hand-expanded copies parse differently: %s vs %s" % (summ(a), summ(b)), r)
