"""Shared machinery for C16 / C17 / C23 (engine dispatch layer: router, entry points, reload).

Pipeline: translator (MAX_CHAIN_DEPTH) -> Coq build + audit -> harness build (vp-dispatch) ->
programs from a grammar + events + batch splits -> real Engine through its entry points (with the
cfg(varpulis_verif) delivery trace) -> replay-oracle table from the recorded hand-offs -> model
(Dispatch/Run.v, vm_compute) predicts routing table, delivery order, outputs -> compare;
independent oracles judge the implementation against the property text.
"""
import json
import os
import sys

from vplib import coqtools, harness
from vplib.common import VERIF, REPO, sh, log

IMPORTS = ("From Coq Require Import String.\n"
           "From VP Require Import Base.Tactics Base.Render Dispatch.Gen_Consts Dispatch.Model Dispatch.Run.\n"
           "Open Scope string_scope.\nOpen Scope N_scope.\n")
RAW = ["A", "B", "C"]
FUEL = 3000
MAX_TRACE = 250     # hand-offs per run beyond which a case is judged by the oracle only (self-feeding streams grow 3^10)
FN_DECL = "fn f():\n    emit Out(x: x + 1, k: k)\n"

TRUSTED = [
    "Coq 8.16.1 kernel + vm_compute",
    "hand-written model coq/theories/Dispatch/Model.v (router, delivery loop with depth limit, three entry points, load, reload) "
    "tied by a differential run: routing table, per-hand-off trace (stream, event, depth, emitted, outputs) and output channel compared verbatim",
    "stream pipelines are ABSTRACT in the model (Section variable step_stream); the correspondence instantiates them with a replay oracle "
    "built from hand-offs recorded on the real engine, so the model predicts WHO gets WHAT in WHICH order, not what a pipeline computes",
    "translate/chain_depth.py (MAX_CHAIN_DEPTH copies and `depth >= MAX_CHAIN_DEPTH`/`depth + 1` shapes)",
    "hook engine::verif_trace (cfg varpulis_verif): records each hand-off next to the call of process_stream_*; Engine::verif_routes / verif_streams",
    "Rust harness harness/crates/dispatch, Python driver checks/dispatch_common.py (grammar, consumes() reference routing, oracles)",
]
ASSUMPTIONS = [
    "programs have no connectors / .to() / .enrich(), no timers, no watermarks (quantifier of the properties); process_stream_* never returns Err",
    "wall-clock values are canonicalised away (timestamps of Event::new-created events, match_duration_ms)",
    "output channel capacity is never reached (try_send would drop)",
]


# ------------------------------------------------------------------ programs
def vpl_ops(ops):
    out = []
    for op in ops:
        k = op[0]
        if k == "where":
            out.append("    .where(x > %d)" % op[1])
        elif k == "window":
            out.append("    .window(%d)" % op[1])
        elif k == "swindow":
            out.append("    .window(%d, sliding: %d)" % (op[1], op[2]))
        elif k == "twindow":
            out.append("    .window(%ds)" % op[1])
        elif k == "partition":
            out.append("    .partition_by(k)")
        elif k == "session":
            out.append("    .window(session: %ds)" % op[1])
        elif k == "sltwindow":
            out.append("    .window(%ds, sliding: %ds)" % (op[1], op[2]))
        elif k == "agg":
            out.append("    .aggregate(x: sum(x), k: count())")
        elif k == "distinct":
            out.append("    .distinct(x)")
        elif k == "limit":
            out.append("    .limit(%d)" % op[1])
        elif k == "emit":
            out.append("    .emit(x: x, k: k)")
        elif k == "process":
            out.append("    .process(f())")
        else:
            raise ValueError(op)
    return out


def vpl_stream(s):
    k = s["kind"]
    if k == "pipe":
        lines = ["stream %s = %s" % (s["name"], s["src"])] + vpl_ops(s["ops"])
    elif k == "seq":
        al = "abcd"
        lines = ["stream %s = %s as a" % (s["name"], s["steps"][0])]
        for i, t in enumerate(s["steps"][1:], 1):
            w = " where k == a.k" if s.get("corr") else ""
            allk = "all " if (s.get("all") and i == 1 and len(s["steps"]) > 2) else ""
            lines.append("    -> %s%s%s as %s" % (allk, t, w, al[i]))
        last = al[len(s["steps"]) - 1]
        if s.get("neg"):
            lines.append("    .not(%s)" % s["neg"])
        if s.get("part"):
            lines.append("    .partition_by(k)")
        lines += vpl_ops(s.get("ops", []))
        if s.get("emit", True):
            lines.append("    .emit(x: a.x, k: %s.k)" % last)
    elif k == "join":
        lines = ["stream %s = join(%s, %s)" % (s["name"], s["l"], s["r"]),
                 "    .on(%s.k == %s.k)" % (s["l"], s["r"]),
                 "    .window(%ds)" % s.get("win", 10)]
        if s.get("emit", True):
            lines.append("    .emit(x: %s.x, k: %s.k)" % (s["l"], s["r"]))
    elif k == "merge":
        def msrc(m):
            # a name, or an inline filtered stream {"n": alias, "t": type, "thr": c}
            return m if isinstance(m, str) else "stream %s = %s .where(x > %d)" % (m["n"], m["t"], m["thr"])
        lines = ["stream %s = merge(%s)" % (s["name"], ", ".join(msrc(m) for m in s["srcs"]))] + vpl_ops(s["ops"])
    elif k == "sseq":
        # sequence(...) source: steps (alias, type, filter threshold or None)
        steps = ", ".join("%s: %s%s" % (a, t, "" if thr is None else " where x > %d" % thr) for a, t, thr in s["ssteps"])
        lines = ["stream %s = sequence(%s)" % (s["name"], steps)] + vpl_ops(s.get("ops", []))
        lines.append("    .emit(x: %s.x, k: %s.k)" % (s["ssteps"][0][0], s["ssteps"][-1][0]))
    else:
        raise ValueError(k)
    return "\n".join(lines) + "\n"


def vpl_program(p):
    needs_fn = any(op[0] == "process" for s in p for op in s.get("ops", []))
    return (FN_DECL if needs_fn else "") + "".join(vpl_stream(s) for s in p)


def merge_types(s):
    return [m if isinstance(m, str) else m["t"] for m in s.get("srcs", [])]


def source_refs(s):
    """every event type / stream name a declaration mentions in its source or sequence steps"""
    return [t for t in [s.get("src"), s.get("l"), s.get("r")] + list(s.get("steps", [])) + merge_types(s) + [t for _, t, _ in s.get("ssteps", [])]
            if t is not None]


def decl_key(s):
    """Identity of a declaration (what Engine::reload compares): everything but the name."""
    d = dict(s)
    d.pop("name")
    return json.dumps(d, sort_keys=True)


def has_process(s):
    return any(op[0] == "process" for op in s.get("ops", []))


def n_ops(s):
    if s["kind"] == "pipe" or s["kind"] == "merge":
        return len(s["ops"])
    return 1  # sequences / joins always carry at least the Sequence / emit op


def consumes(p):
    """Reference routing, written from the language's point of view (independent of the router code):
    for every stream of program p (in order) the event types / stream names it consumes.
      * `T ...ops`            consumes T
      * `T1 as a -> T2 as b`  consumes T1 as written and, for every step, the type the step resolves to:
                              a step naming an EARLIER stream stands for that stream's own source
                              (its first filter is inlined), any other name is an event type
      * join(L, R)            consumes, per source: the source's name if it is an earlier stream with
                              operations (its renamed output) or not a stream at all; the underlying
                              type if it is an earlier stream without operations
      * merge(T1, T2, ..)     consumes T1, T2, ..
    Returns list of (name, [keys in registration order])."""
    earlier = {}
    res = []

    def source_of(s):
        if s["kind"] == "pipe":
            return s["src"]
        if s["kind"] == "seq":
            return s["steps"][0]
        if s["kind"] == "sseq":
            return s["ssteps"][0][1]
        return None

    def resolve(t):
        if t in earlier:
            u = source_of(earlier[t])
            return u if u is not None else t
        return t

    for s in p:
        keys = []

        def add(t):
            if t not in keys:
                keys.append(t)
        if s["kind"] == "pipe":
            add(s["src"])
        elif s["kind"] == "seq":
            add(s["steps"][0])
            for t in s["steps"]:
                add(resolve(t))
        elif s["kind"] == "join":
            for t in (s["l"], s["r"]):
                if t in earlier:
                    if n_ops(earlier[t]) > 0:
                        add(t)
                    else:
                        u = source_of(earlier[t])
                        add(u if u is not None else t)
                else:
                    add(t)
        elif s["kind"] == "merge":
            for t in merge_types(s):
                add(t)
        elif s["kind"] == "sseq":
            for _, t, _ in s["ssteps"]:
                add(t)
            for _, t, _ in s["ssteps"]:
                add(resolve(t))
        res.append((s["name"], keys))
        earlier[s["name"]] = s
    return res


def expected_routes(p):
    """Routing table a correct engine has after loading p: type -> streams in declaration order."""
    r = {}
    for name, keys in consumes(p):
        for t in keys:
            r.setdefault(t, [])
            if name not in r[t]:
                r[t].append(name)
    return r


# ---------------------------------------------------------------- generation
def gen_pipe_ops(rng, raw_src, allow_process=True):
    """A linear pipeline: filters, windows (+aggregate), distinct, limit, optional emit / process."""
    if allow_process and rng.chance(1, 12):
        return [["process"]]
    ops = []
    n = rng.below(4)
    have_window = False
    for _ in range(n):
        k = rng.below(8)
        if k <= 2:
            ops.append(["where", rng.range(0, 5)])
        elif k == 3 and not have_window:
            ops.append(["window", rng.range(2, 3)])
            have_window = True
            if rng.chance(2, 3):
                ops.append(["agg"])
        elif k == 4 and not have_window and raw_src:
            ops.append(["twindow", rng.range(2, 4)])
            have_window = True
            if rng.chance(2, 3):
                ops.append(["agg"])
        elif k == 5 and not have_window:
            ops.append(["swindow", 3, 1])
            have_window = True
            if rng.chance(1, 2):
                ops.append(["agg"])
        elif k == 6:
            ops.append(["distinct"])
        elif k == 7:
            ops.append(["limit", rng.range(1, 4)])
    if rng.chance(4, 5):
        ops.append(["emit"])
    return ops


def gen_program(rng, max_streams=5, shape=None, acyclic=False):
    """Streams S1..Sn; sources are raw types or earlier (sometimes, unless acyclic, later / own) stream names."""
    n = rng.range(1, max_streams)
    shape = shape or rng.choice(["free", "free", "chain", "diamond", "noemit", "mixed"])
    p = []
    names = ["S%d" % (i + 1) for i in range(n)]
    for i in range(n):
        name = names[i]
        prev = names[:i]

        def pick_src(derived_bias=1):
            c = rng.below(10)
            if prev and c < 4 + 2 * derived_bias:
                return rng.choice(prev)
            if c == 9 and rng.chance(1, 3) and not acyclic:
                return rng.choice(names)          # forward reference or own name (self-named type)
            return rng.choice(RAW)
        if shape == "chain" and prev:
            s = {"name": name, "kind": "pipe", "src": prev[-1], "ops": gen_pipe_ops(rng, False)}
        elif shape == "diamond" and i >= 1:
            # S1 = A..; S2 = S1..; S3 = S1..; S4 = merge / join / seq of S2, S3
            if i in (1, 2):
                s = {"name": name, "kind": "pipe", "src": names[0], "ops": gen_pipe_ops(rng, False, allow_process=False) or [["emit"]]}
                if not any(o[0] == "emit" for o in s["ops"]):
                    s["ops"].append(["emit"])
            elif i == 3:
                kk = rng.below(3)
                if kk == 0:
                    s = {"name": name, "kind": "merge", "srcs": [names[1], names[2]], "ops": gen_pipe_ops(rng, False, allow_process=False)}
                elif kk == 1:
                    s = {"name": name, "kind": "join", "l": names[1], "r": names[2]}
                else:
                    s = {"name": name, "kind": "pipe", "src": names[1], "ops": gen_pipe_ops(rng, False)}
            else:
                s = {"name": name, "kind": "pipe", "src": pick_src(), "ops": gen_pipe_ops(rng, False)}
        elif shape == "noemit" and rng.chance(1, 2):
            src = pick_src(0)
            s = {"name": name, "kind": "pipe", "src": src, "ops": [["where", rng.range(0, 6)]] + ([["window", 2]] if rng.chance(1, 3) else [])}
        else:
            k = rng.below(10)
            if k <= 4:
                src = pick_src()
                s = {"name": name, "kind": "pipe", "src": src, "ops": gen_pipe_ops(rng, src in RAW)}
            elif k <= 6:
                steps = [pick_src(0), pick_src()]
                if rng.chance(1, 4):
                    steps.append(pick_src())
                s = {"name": name, "kind": "seq", "steps": steps, "corr": rng.chance(1, 3), "emit": rng.chance(5, 6)}
            elif k == 7:
                l = pick_src()
                r = pick_src()
                if l == r:
                    r = rng.choice([t for t in RAW if t != l])
                s = {"name": name, "kind": "join", "l": l, "r": r, "emit": rng.chance(5, 6)}
            else:
                a = pick_src(0)
                b = pick_src()
                if a == b:
                    b = rng.choice([t for t in RAW if t != a])
                s = {"name": name, "kind": "merge", "srcs": [a, b], "ops": gen_pipe_ops(rng, False, allow_process=False)}
        p.append(s)
    return p, shape


def gen_events(rng, p, n=None):
    n = n if n is not None else rng.range(1, 10)
    types = list(RAW)
    used = set()
    for s in p:
        for t in source_refs(s):
            if t in RAW:
                used.add(t)
    pool = sorted(used) * 3 + types
    evs = []
    ts = 0
    for i in range(n):
        ts += rng.choice([1, 1, 1, 2, 3]) * 1_000_000_000
        if rng.chance(1, 25) and p:
            t = rng.choice(p)["name"]      # an external event that carries a stream's name
        else:
            t = rng.choice(pool)
        evs.append({"type": t, "ts_ns": ts,
                    "fields": [["x", {"i": str(rng.range(0, 9))}], ["k", {"i": str(rng.below(2))}]]})
    return evs


def gen_split(rng, n):
    """Random split of n events into batches (list of sizes, each >= 1)."""
    if n == 0:
        return []
    mode = rng.below(4)
    if mode == 0:
        return [n]
    if mode == 1:
        return [1] * n
    sizes = []
    left = n
    while left > 0:
        k = rng.range(1, min(left, 4))
        sizes.append(k)
        left -= k
    return sizes


def batches(evs, sizes):
    out = []
    i = 0
    for k in sizes:
        out.append(evs[i:i + k])
        i += k
    assert i == len(evs)
    return out


# ------------------------------------------------------------ canonical forms
class Interner:
    """types / stream names and event bodies -> N (0 is reserved)."""

    def __init__(self, input_ts):
        self.types = {}
        self.bodies = {}
        self.input_ts = set(input_ts)

    def ty(self, name):
        if name not in self.types:
            self.types[name] = len(self.types) + 1
        return self.types[name]

    def canon_body(self, e):
        ts = e.get("ts_ns")
        fields = [[k, v] for k, v in e["fields"] if k != "match_duration_ms"]
        return json.dumps([ts if ts in self.input_ts else "now", fields], sort_keys=True)

    def body(self, e):
        c = self.canon_body(e)
        if c not in self.bodies:
            self.bodies[c] = len(self.bodies) + 1
        return self.bodies[c]

    def ev(self, e):
        return (self.ty(e["type"]), self.body(e))

    @property
    def ntypes(self):
        return len(self.types) + 1


def canon_out(it, evs):
    return [(e["type"], it.canon_body(e)) for e in evs]


# -------------------------------------------------------------- impl rendering
def r_event(it, e):
    return "%d.%d" % it.ev(e)


def r_delivery(it, d):
    name = d["stream"]
    outs = ",".join(".%d" % it.body(o) for o in d["outputs"])
    return "%d>%s@%d!%s!%s" % (it.ty(name), r_event(it, d["event"]), d["depth"],
                               ",".join(r_event(it, e) for e in d["emitted"]), outs)


def r_acc(it, st):
    return "O:" + ",".join(r_event(it, e) for e in st["out"]) + ";T:" + ";".join(r_delivery(it, d) for d in st["trace"])


def r_router(it, routes):
    m = {it.ty(t): [it.ty(s) for s in ss] for t, ss in routes}
    return ",".join("%d=%s" % (t, ".".join(str(s) for s in m[t])) for t in sorted(m))


def r_names(it, names):
    return ".".join(str(x) for x in sorted(it.ty(n) for n in names))


def r_reload(it, st):
    r = st["report"]
    return "R:%s/%s/%s/%s;K:%s" % (r_names(it, r["added"]), r_names(it, r["removed"]), r_names(it, r["updated"]),
                                   r_names(it, r["preserved"]), r_router(it, st["routes"]))


def r_answer(it, ans):
    parts = ["K:" + r_router(it, ans["routes"])]
    for st in ans["steps"]:
        parts.append(r_reload(it, st) if st.get("report") else r_acc(it, st))
    return "|".join(parts)


# ----------------------------------------------------------------- model side
class Table:
    """Replay-oracle trie: per (stream, declaration) the recorded hand-offs."""

    def __init__(self, it):
        self.it = it
        self.roots = {}          # decl id -> root node
        self.trans = {}          # (node, ty, body) -> (node', emitted, cur)
        self.nnodes = 1          # node 0 = unknown-history sink
        self.decls = {}          # (name, decl_key) -> decl id
        self.conflicts = []

    def decl(self, name, key):
        k = (name, key)
        if k not in self.decls:
            self.decls[k] = len(self.decls) + 1
            self.roots[self.decls[k]] = self.nnodes
            self.nnodes += 1
        return self.decls[k]

    def feed(self, decl_id, deliveries):
        """deliveries: the trace entries of one stream since its (re)creation, in order."""
        node = self.roots[decl_id]
        for d in deliveries:
            key = (node,) + self.it.ev(d["event"])
            val = (tuple(self.it.ev(e) for e in d["emitted"]), tuple((0, self.it.body(o)) for o in d["outputs"]))
            if key in self.trans:
                nxt, em, cur = self.trans[key]
                if (em, cur) != val:
                    self.conflicts.append((decl_id, d))
                node = nxt
            else:
                nxt = self.nnodes
                self.nnodes += 1
                self.trans[key] = (nxt, val[0], val[1])
                node = nxt

    def g_trans(self):
        def g_ev(e):
            return "mkEvent %d %d" % e
        rows = []
        for (node, ty, body), (nxt, em, cur) in self.trans.items():
            rows.append("(%d, %d, %d, (%d, [%s], [%s]))" % (node, ty, body, nxt, "; ".join(g_ev(e) for e in em), "; ".join(g_ev(e) for e in cur)))
        return "[" + "; ".join(rows) + "]"

    def g_init(self):
        return "[" + "; ".join("(%d, %d)" % kv for kv in sorted(self.roots.items())) + "]"


def g_event(it, e):
    return "mkEvent %d %d" % it.ev(e)


def g_program(it, tbl, p):
    cons = dict(consumes(p))
    rows = []
    for s in p:
        d = tbl.decl(s["name"], decl_key(s))
        rows.append("(%d, mkSdef %d [%s] %s)" % (it.ty(s["name"]), d, "; ".join(str(it.ty(t)) for t in cons[s["name"]]),
                                                 "true" if has_process(s) else "false"))
    return "[" + "; ".join(rows) + "]"


def g_step(it, tbl, st):
    k = st["k"]
    if k == "event":
        return "SEvent (%s)" % g_event(it, st["e"])
    if k == "batch":
        return "SBatch [%s]" % "; ".join(g_event(it, e) for e in st["es"])
    if k == "sync":
        return "SSync [%s]" % "; ".join(g_event(it, e) for e in st["es"])
    if k == "reload":
        return "SReload %s" % g_program(it, tbl, st["prog"])
    raise ValueError(k)


def g_scenario(it, tbl, p, steps):
    """Must be called after every type/body/decl that occurs has been interned (ntypes is final)."""
    prog = g_program(it, tbl, p)
    ss = "[" + "; ".join(g_step(it, tbl, s) for s in steps) + "]"
    return "scenario (%s) (%s) %d%%nat %d%%nat (%s) (%s)" % (tbl.g_trans(), tbl.g_init(), it.ntypes, FUEL, prog, ss)


def req_steps(steps):
    out = []
    for st in steps:
        if st["k"] == "reload":
            out.append({"k": "reload", "vpl": vpl_program(st["prog"])})
        else:
            out.append(st)
    return out


def by_stream(trace):
    m = {}
    for d in trace:
        m.setdefault(d["stream"], []).append(d)
    return m


# ------------------------------------------------------------------ building
def build_all(run, audit_file, allow=()):
    """translator + Coq proofs/audit + harness. Returns harness path or None."""
    run.trusted += TRUSTED
    run.assumptions += ASSUMPTIONS
    p = sh([sys.executable, os.path.join(VERIF, "translate", "chain_depth.py")], timeout=120)
    if p.returncode != 0:
        run.tie_broken("translator translate/chain_depth.py (MAX_CHAIN_DEPTH copies / depth test shape)", p.stderr[-2000:])
    else:
        run.extra["translator"] = p.stdout.strip()
    coqtools.prove(run, ["theories/Dispatch/Props.vo", "theories/Dispatch/Run.vo"], audit_file, allow)
    okb, bindir, blog = harness.build("vp-dispatch")
    if not okb:
        run.tie_broken("harness build vp-dispatch", blog[-3000:])
        return None
    return os.path.join(bindir, "vp-dispatch")


def eval_model(run, tag, exprs):
    try:
        return coqtools.coq_eval(tag, IMPORTS, exprs, shard=max(30, min(400, len(exprs) // 6 + 1)))   # coqc start-up (library load) dominates: few shards
    except RuntimeError as e:
        run.tie_broken("model evaluation (coqc cases)", str(e))
        return [None] * len(exprs)


def first_diff(a, b):
    pa = a.split("|")
    pb = b.split("|")
    for i, (x, y) in enumerate(zip(pa, pb)):
        if x != y:
            return "part %d:\n impl  %s\n model %s" % (i, x[:1500], y[:1500])
    return "lengths %d vs %d" % (len(pa), len(pb))


# ------------------------------------------------------- C16/C17: three entry points
MODES = ("event", "batch", "sync")


def mode_steps(evs, sizes, mode):
    if mode == "event":
        return [{"k": "event", "e": e} for e in evs]
    return [{"k": mode, "es": b} for b in batches(evs, sizes)]


def three_requests(case):
    p, evs, sizes = case
    vpl = vpl_program(p)
    return [{"vpl": vpl, "steps": mode_steps(evs, sizes, m)} for m in MODES]


def run_three(binpath, cases):
    reqs = []
    for c in cases:
        reqs += three_requests(c)
    ans = harness.run_jsonl(binpath, reqs)
    return [ans[3 * i:3 * i + 3] for i in range(len(cases))]


def answer_ok(a):
    return "steps" in a and all(not s.get("error") for s in a["steps"])


def rejected(a):
    """the generated program did not parse / load (a generator problem, not a finding)"""
    return "steps" not in a and "error" in a and "panic" not in a


def all_out(a):
    return [e for s in a["steps"] for e in s["out"]]


def all_trace(a):
    return [d for s in a["steps"] for d in s["trace"]]


def model_exprs_three(case, answers):
    """Replay table from the per-event run; model scenarios for the three entry points.
    Returns (impl_strings, coq_exprs, table)."""
    p, evs, sizes = case
    it = Interner(e["ts_ns"] for e in evs)
    tbl = Table(it)
    decl = {s["name"]: tbl.decl(s["name"], decl_key(s)) for s in p}
    for s in p:
        it.ty(s["name"])
    for name, ds in by_stream(all_trace(answers[0])).items():
        if name in decl:
            tbl.feed(decl[name], ds)
    impl = [r_answer(it, a) for a in answers]
    exprs = [g_scenario(it, tbl, p, mode_steps(evs, sizes, m)) for m in MODES]
    return impl, exprs, tbl


def shrink_case(case, still_fails, budget=60):
    """Greedy: drop events, drop streams, merge batches."""
    p, evs, sizes = case
    changed = True
    while changed and budget > 0:
        changed = False
        for i in range(len(evs) - 1, -1, -1):
            budget -= 1
            cand = (p, evs[:i] + evs[i + 1:], [len(evs) - 1] if len(evs) > 1 else [])
            if len(evs) > 1 and still_fails(cand):
                p, evs, sizes = cand
                changed = True
                break
        if changed:
            continue
        for i in range(len(p) - 1, -1, -1):
            budget -= 1
            cand = (p[:i] + p[i + 1:], evs, sizes)
            if len(p) > 1 and still_fails(cand):
                p, evs, sizes = cand
                changed = True
                break
        if budget <= 0:
            break
    if len(sizes) > 1 and still_fails((p, evs, [len(evs)])):
        sizes = [len(evs)]
    return (p, evs, sizes)


def short_event(e):
    return e["type"] + "{" + ",".join("%s=%s" % (k, list(v.values())[0]) for k, v in e["fields"]) + "}"


def count_case(run, case, shape, answers):
    p, evs, sizes = case
    run.count("shape=" + shape)
    run.count("streams=%d" % len(p))
    run.count("events=%d" % len(evs))
    run.count("batches=%s" % ("1" if len(sizes) <= 1 else "all-singletons" if all(k == 1 for k in sizes) else "mixed"))
    for s in p:
        run.count("kind=" + s["kind"])
        for op in s.get("ops", []):
            run.count("op=" + op[0])
        if s["kind"] != "pipe" or any(o[0] == "emit" for o in s["ops"]):
            pass
        else:
            run.count("stream-without-emit")
        srcs = source_refs(s)
        if any(t is not None and t not in RAW for t in srcs):
            run.count("stream-with-derived-source")
        if s["name"] in srcs:
            run.count("self-named-stream")
    if answer_ok(answers[0]):
        tr = all_trace(answers[0])
        md = max([d["depth"] for d in tr], default=-1)
        run.count("max-depth=%s" % ("none" if md < 0 else md if md < 3 else "3..8" if md < 9 else "9"))
        run.count("deliveries=%s" % ("0" if not tr else "1-5" if len(tr) <= 5 else "6-20" if len(tr) <= 20 else ">20"))
        no = len(all_out(answers[0]))
        run.count("outputs=%s" % ("0" if not no else "1-3" if no <= 3 else ">3"))


def three_way_check(run, binpath, cases, judge, tag, contradicts):
    """cases: list of ((program, events, batch sizes), shape). judge(case, answers) -> list of failure strings
    (the property's oracle on the implementation). Runs the three entry points, the oracle, and the
    model/implementation comparison."""
    answers = run_three(binpath, [c for c, _ in cases])
    exprs = []
    impls = []
    n_oracle = 0
    n_rejected = 0
    for (case, shape), ans in zip(cases, answers):
        count_case(run, case, shape, ans)
        if any(rejected(a) for a in ans):
            run.count("program-rejected")
            n_rejected += 1
            if n_rejected <= 2:
                run.tie_broken("generated program rejected by parse/load (grammar of the generator out of date?)",
                               vpl_program(case[0]) + json.dumps([a for a in ans if rejected(a)][0])[:400])
            run.case(None)
            continue
        fails = judge(case, ans)
        if fails:
            n_oracle += 1
            run.count("oracle_fail")
            if n_oracle <= 3:
                def still(c):
                    return bool(judge(c, run_three(binpath, [c])[0]))
                small = shrink_case(case, still)
                sa = run_three(binpath, [small])[0]
                sf = judge(small, sa) or fails
                run.violation("; ".join(sf)[:600], replay_obj(small, sa, sf, contradicts))
        ok = all(answer_ok(a) for a in ans)
        if ok and max(len(all_trace(a)) for a in ans) > MAX_TRACE:
            run.count("model-skipped(trace too long)")
            run.case(None)
        elif ok:
            impl, ex, tbl = model_exprs_three(case, ans)
            if tbl.conflicts:
                run.tie_broken("stream pipeline is not a deterministic function of its delivery history", json.dumps(tbl.conflicts[0][1])[:500])
            impls.append((case, impl))
            exprs += ex
            tr = all_trace(ans[0])
            nontrivial = None
            if all_out(ans[0]) and (any(d["depth"] >= 1 for d in tr) or len({d["stream"] for d in tr}) >= 2):
                nontrivial = json.dumps([case[0], case[1], case[2]], sort_keys=True)
            run.case(nontrivial, sample={"vpl": vpl_program(case[0]), "events": [short_event(e) for e in case[1]], "batches": case[2],
                                         "out": [short_event(e) for e in all_out(ans[0])]} if len(run.samples) < 3 and nontrivial else None)
        else:
            run.case(None)
    run.extra["oracle_failures"] = n_oracle
    model = eval_model(run, tag, exprs)
    nd = 0
    for i, (case, impl) in enumerate(impls):
        for j, m in enumerate(MODES):
            mo = model[3 * i + j]
            if mo is not None and mo != impl[j]:
                nd += 1
                if nd <= 3:
                    run.tie_broken("correspondence Dispatch/Model.v vs Engine::%s on\n%s events %s batches %s" % (
                        {"event": "process", "batch": "process_batch", "sync": "process_batch_sync"}[m],
                        vpl_program(case[0]), [short_event(e) for e in case[1]], case[2]), first_diff(impl[j], mo))
    run.extra["disagreements"] = nd


def replay_obj(case, answers, fails, contradicts):
    p, evs, sizes = case
    return {"vpl": vpl_program(p), "program": p, "events": evs, "batch_sizes": sizes,
            "outputs": {m: [short_event(e) for e in all_out(a)] if "steps" in a else a for m, a in zip(MODES, answers)},
            "fails": fails, "contradicts": contradicts}


def replay_three(run, path, judge, contradicts):
    r = json.load(open(path))["replay"]
    ok, bindir, lg = harness.build("vp-dispatch")
    binpath = os.path.join(bindir, "vp-dispatch")
    case = (r["program"], r["events"], r["batch_sizes"])
    ans = run_three(binpath, [case])[0]
    fails = judge(case, ans)
    run.case(("replay",), {"vpl": r["vpl"]})
    run.case(("replay2",))
    if fails:
        run.violation("; ".join(fails)[:600], replay_obj(case, ans, fails, contradicts))


def mk_events(evs):
    return [{"type": t, "ts_ns": (i + 1) * 1_000_000_000, "fields": [["x", {"i": str(x)}], ["k", {"i": str(k)}]]}
            for i, (t, x, k) in enumerate(evs)]
