"""C41 — the parser terminates without panicking and locates its errors inside the input (PARTIAL by design)."""
import json
import os
import time

from checks import parse_common as P
from checks import text_common as T
from vplib import coqtools, harness

BIN = "vp-parse"
META = {
    "technique": "Coq proof about an executable model of the hand-written passes around the pest recogniser (loop expansion with line origins and "
                 "its limits, indentation markers, bracket-depth pre-scan, error relocation) + model/implementation differential on generated sources "
                 "+ exploration: grammar-aware and byte-level mutation of the example programs through the real varpulis_parser::parse in a child "
                 "process with a time limit",
    "design_ref": "DESIGN.md §7 C41",
    "level_text": "proof",
    "level_note": "PARTIAL. Proved (Parse/Props.v, all inputs): the modelled passes never panic, the expansion is bounded (<= 10 passes, every pass "
                  "adds <= 100000 lines, fuel never runs out), and every location the parser reports for an error of the grammar or the AST builder - "
                  "whatever byte offset pest names - is a real (line, column, offset) of the input. NOT modelled: the pest-generated recogniser and the "
                  "AST builder (pest_parser.rs parse_statement...), so 'no panic / bounded time' of those is EXPLORATION only: mutated example programs "
                  "run through the real parse() in a child process (panic counter, time limit, abort detection, range oracle on the error value).",
}
IMPORTS = ("From Coq Require Import String.\nFrom VP Require Import Base.Tactics Base.Render Text.Str Text.Expand Parse.Model Parse.Run.\n"
           "Open Scope string_scope.\nOpen Scope N_scope.\n")
TIME_LIMIT = 60.0          # seconds per parse call (inputs are < 25 KB; the machine may be heavily loaded)


# ---------------------------------------------------------------- generated sources for the correspondence
def gen_loop_source(rng):
    k = rng.below(16)
    body = rng.choice(["    stream S{i} = E\n", "  a{i}\n    b{i}\n", "        deep{i}\n    shallow{i}\n", "\tx{i}\n", " x{i}\n\u3000y{i}\n", " x{i}\n y{i}\n",
                       "    a{i}\n\n    b{i}\n\n", "    a{i}\n   \n    b\n", "", "    {i}{i}{{i}}{ i }{I}\n", "    for j in 0..2:\n        s{i}{j}\n", "  é{i}\n  ü\n",
                       "   a{i}\n b{i}\n", "    a\n# comment at column 0\n    b\n", "\u00a0\u00a0x{i}\n y\n", "    fn f{i}():\n        return {i}\n",
                       "    x = ((({i})))\n", "    if a:\n        b{i}\n    c\n"])
    tail = rng.choice(["", "stream T = E\n", "\nstream T = E", "for k in 0..1:\n    t{k}\n", "x = (\n", ")\n"])
    if k == 0:
        hdr = "for i in 0..%d:" % rng.choice([10000, 10001, 9999])
        body = rng.choice(["    x\n", "", "    x{i}\n" * 10, "    x{i}\n" * 11])
    elif k == 1:
        hdr = rng.choice(["for i in 0..=9223372036854775807:", "for i in 9223372036854775807..9223372036854775807:", "for i in -9223372036854775808..1:",
                          "for i in 9223372036854775806..=9223372036854775807:", "for i in 9223372036854775808..1:", "for i in -9223372036854775808..-9223372036854775807:",
                          "for i in 4611686018427387904..-4611686018427387905:", "for i in -9223372036854775808..=-9223372036854775807:"])
    elif k == 2:
        hdr = rng.choice(["for i in a..b:", "for  in 0..2:", "for i in 0..2 :", "for i in 0...2:", "for i in 0..2", "for i in 0 .. 2:", "for i in +1..+3:", "for i  in  0..2:",
                          "for i in 0..2:  ", "for i in 0..2: # c", "for i in0..2:", "for i in 0..==2:", "for i in ..2:", "for i in 2..:", "for i in 1..2..3:",
                          "for i, j in 0..2:", "for {i} in 0..2:", "for i in 3..1:", "for i in 0..0:", "FOR i in 0..2:", "for\ti in 0..2:", "for i in 0..2:\r", "for i in -2..1:"])
    elif k == 3:
        hdr = " for i in 0..2:"
    elif k == 4:
        d = rng.choice([3, 9, 10, 11])
        return "".join("%sfor v%d in 0..%d:\n" % ("  " * i, i, 1 + (i == 0)) for i in range(d)) + "  " * d + "leaf" + "".join("{v%d}" % i for i in range(min(d, 3))) + "\n"
    elif k == 5:
        return rng.choice(["", "\n", "x", "x\r\ny\r\n", "for", "for \n", "stream A = B", "\n\nfor i in 0..2:\n\n\n", "for i in 0..2:", "for i in 0..2:\n", "a\n  for i in 0..2:\n    b{i}\n",
                           "x\r", "a\r\r\nb", "é", "\u3000", "«INDENT»x\n", "\n«DEDENT»"])
    elif k == 6:
        # the per-pass line budget: two nested loops whose inner copies add up around the limit
        a, b = rng.choice([(40, 2501), (400, 251), (20, 5001), (11, 10000), (2, 300), (30, 30)])
        return "for a in 0..%d:\n  for b in 0..%d:\n    s{a}_{b}\n" % (a, b)
    else:
        hdr = "for i in %d..%s%d:" % (rng.below(3), rng.choice(["", "="]), rng.below(5))
    pre = rng.choice(["", "stream P = E\n", "# c\n", "\n", "stream P = E\n    .where(x > 1)\n", "fn f():\n    return 1\n", "/* c\n", "é = 1\n"])
    src = pre + hdr + "\n" + body + tail
    if rng.chance(1, 8):
        src = src.replace("\n", "\r\n")
    if rng.chance(1, 6) and src.endswith("\n"):
        src = src[:-1]
    return src


def gen_indent_source(rng):
    """block structures: block-introducing lines, continuation lines, comments, odd indentation"""
    lines = []
    depth = 0
    units = rng.choice([["    "], ["  "], ["\t"], ["    ", "  ", "\t", " ", "\u3000", "\u00a0 "]])
    for _ in range(rng.range(1, 12)):
        k = rng.below(14)
        ind = "".join(rng.choice(units) for _ in range(depth))
        if k < 4:
            lines.append(ind + rng.choice(P.BLOCK_LINES + ["else:", "event E:", "config:", "fn é():", "if a: # c", "if a:  "]))
            depth += 1
        elif k < 7:
            lines.append(ind + rng.choice(["return 1", "x = 1", "stream S = A", ".where(x > 1)", "let y = (1 +", "2)", "temperature: int", "é = \"ü\"", "pass", "a: 1"]))
        elif k == 7:
            depth = max(0, depth - rng.range(1, 3))
        elif k == 8:
            lines.append(rng.choice(["", "   ", "# comment", "    # indented comment", "\t", "\u3000"]))
        elif k == 9:
            lines += [ind + "/* block", "   if inside:", rng.choice(["*/", "  */ x", "still */ if a:"])]
        elif k == 10:
            lines.append(ind + rng.choice(["/* one line */", "/* open", "x /* not at start */", "*/"]))
        elif k == 11:
            depth += rng.range(1, 2)
        elif k == 12:
            lines.append(ind + rng.choice([")", "]", "}", "(", "«DEDENT»", "«INDENT»y", "x «"]))
        else:
            lines.append(rng.choice(["stream T = B", "fn top():", "x", "if q:"]))
            depth = 1 if lines[-1].endswith(":") else 0
    src = "\n".join(lines) + ("\n" if rng.chance(4, 5) else "")
    if rng.chance(1, 10):
        src = src.replace("\n", "\r\n")
    return src


def gen_nesting_source(rng):
    """bracket depth around the limit, with strings, escapes and comments that must (not) count"""
    out = []
    depth = 0
    target = rng.choice([5, 23, 24, 25, 26, 30])
    for _ in range(rng.range(target, target + 25)):
        k = rng.below(20)
        if k < 9 and depth < target:
            out.append(rng.choice("([{"))
            depth += 1
        elif k < 11:
            out.append(rng.choice(")]}"))
            depth = max(0, depth - 1)
        elif k == 11:
            out.append(rng.choice(['"((("', '"\\"(("', '"a\\\\"', '"[', '"\\', '"é("', '"a\nb"', '"((\n(("', '"\n']))
        elif k == 12:
            out.append(rng.choice(["# (((\n", "#\n", "# \"\n"]))
        elif k == 13:
            out.append(rng.choice(["/* ((( */", "/* (", "/*/", "/**/", "/ *", "*/", "/*(", "/* \" */"]))
        elif k == 14:
            out.append(rng.choice(["é", "日", "😀", "\n", "\n    ", " ", "x", "1"]))
        elif k == 15:
            out.append("\nif a:\n    ")
        else:
            out.append(rng.choice(["a", ",", " + ", "f"]))
    return "".join(out) + rng.choice(["", "\n"])


def corr_sources(run, examples):
    rng = run.rng
    n = 50 if run.tier == "quick" else 1500
    out = [("corpus", s) for s in CORPUS]
    for _ in range(n):
        out.append(("loop", gen_loop_source(rng)))
        out.append(("indent", gen_indent_source(rng)))
        out.append(("nesting", gen_nesting_source(rng)))
        name, text = rng.choice(examples)
        frag = P.fragments(text, rng, 500)
        for _ in range(rng.range(1, 2)):
            frag, _lab = P.mutate_grammar(frag, rng)
        if len(frag) <= 1500 and "10000" not in frag:
            out.append(("example-fragment", frag))
    return out


CORPUS = [
    "for i in 0..2:\n x{i}\n\u3000y{i}\n",                                # strip offset inside a multi-byte character (was a panic)
    "for i in 0..=9223372036854775807:\n    x\n",                         # end + 1 (was an overflow panic)
    "for i in -9223372036854775808..1:\n    x\n",                         # end - start (was an overflow panic)
    "for i in 9223372036854775806..=9223372036854775807:\n    x{i}\n",    # legitimate 2-iteration loop at the i64 edge
    "fn f():\n    if a:\n        if b:\n            return 1\n)\n",       # error after three DEDENT markers (column was 25 on a 1-character line)
    "stream X = ",                                                        # error at the end of a text without final newline (line was 2 of 1)
    "for i in 0..30:\n    x = (\n",                                       # nesting error inside the expansion (offset was 148 of 27 bytes)
    "for a in 0..400:\n  for b in 0..250:\n    s\n",                      # exactly MAX_EXPANDED_LINES generated lines in the second pass
    "for a in 0..400:\n  for b in 0..251:\n    s\n",                      # 400 more
    "for a in 0..11:\n  for b in 0..9091:\n    s\n",                      # exactly one more (100001)
    "é = (((((((((((((((((((((((((((x\n",
    'let s = "a\nb" + ' + "v[" * 40 + "\n",                                  # string literal over a line break, then > 24 brackets on its closing line (seed C41-nesting-guard-string-stops-at-newline)
    'x = "a\n' + "(" * 30 + '"\n',                                        # brackets on the second line of a string do not count
    "/* ((((((((((((((((((((((((((",                                      # unterminated block comment: its last byte is scanned as code
]


def impl_prepass(child, s):
    a = child.ask({"kind": "prepass", "source": s}, TIME_LIMIT)
    if "panic" in a:
        return "PANIC", a
    if "err" in a:
        return "EXPERR", a
    if "ok" not in a:
        return "CHILD:" + json.dumps(a), a
    pre = a["ok"]
    b = child.ask({"kind": "parse", "source": s}, TIME_LIMIT)
    e = b.get("err")
    if e and e.get("variant") == "InvalidToken" and e.get("message", "").startswith("Nesting depth exceeds"):
        return "NEST|%d" % e["position"], b
    return "PASS|" + sums([ord(ch) for ch in pre]), b


def sums(xs):
    a = b = 0
    for c in xs:
        a += c + 1
        b += a
    return "%d|%d|%d" % (len(xs), a, b)


def model_prepass_norm(m):
    if m.startswith("NEST|"):
        return "NEST|" + m.split("|")[1].split(",")[2]
    return m


# ---------------------------------------------------------------- judging one parse answer against the property text
def judge(source, ans):
    """list of (kind, message); kinds: panic, timeout, abort, position"""
    out = []
    if "timeout" in ans:
        return [("timeout", "parse did not return within %.0f s" % ans["timeout"])]
    if "abort" in ans:
        return [("abort", "the parser process died (exit status %s) - stack overflow or abort" % ans["abort"])]
    if "panic" in ans:
        out.append(("panic", "parse panicked: %s" % ans["panic"][:200]))
    elif ans.get("panics", 0) > 0:
        out.append(("panic", "a panic was raised inside parse (reported as: %s)" % json.dumps(ans.get("err"))[:200]))
    if "err" in ans:
        for m in P.position_problems(source, ans["err"]):
            out.append(("position", "%s; error value %s" % (m, json.dumps(ans["err"])[:300])))
    return out


def shrink(source, child, kinds):
    """greedy removal of lines, then of characters, keeping a failure of the same kind"""
    def fails(s):
        return bool({k for k, _ in judge(s, child.ask({"kind": "parse", "source": s}, TIME_LIMIT))} & kinds)
    if "timeout" in kinds:
        return source
    lines = source.split("\n")
    lines = T.shrink_list(lines, lambda ls: fails("\n".join(ls)), max_rounds=150)
    s = "\n".join(lines)
    if len(s) <= 200:
        s = "".join(T.shrink_list(list(s), lambda cs: fails("".join(cs)), max_rounds=400))
    return s


def check(run):
    run.rule = ("correspondence: generated loop sources (ragged / multi-byte bodies, i64 edges, iteration and line limits, > 10 nesting, CRLF), block-structure "
                "sources (block keywords, odd and multi-byte indentation, comments, block comments, marker text), bracket-depth sources around the limit "
                "(strings, escapes, comments) and mutated fragments of the example programs: outcome of the passes (panic / limit error / nesting error "
                "offset / text handed to the grammar), line origins and in_original at every offset (<= 160 bytes) or 48 sampled offsets, from_position; "
                "exploration: the same sources plus grammar-aware (30 operators) and byte-level mutants of the examples under /repo/examples and /repo/tests "
                "through parse() in a child process; non-trivial = source on which parse returns an error with a location or which contains a loop / block / "
                "non-ASCII text; distinct = distinct source text")
    run.trusted += ["Coq 8.16.1 kernel + vm_compute",
                    "hand-written model coq/theories/Parse/Model.v (+ Text/Str.v, shared definitions of Text/Expand.v) tied by differential run: pass outcome, "
                    "text handed to the grammar (length + hash), line origins, relocated positions compared verbatim",
                    "NOT MODELLED (exploration only): the pest-generated recogniser, pest's own error positions, the AST builder and constant folder",
                    "byte indexing in check_nesting_depth is mirrored guard by guard as pattern matching on the remaining bytes",
                    "Rust harness harness/crates/parse (panic counter through the panic hook), Python driver checks/C41.py + checks/parse_common.py "
                    "(generators, mutation operators, child-process time limit, range oracle)"]
    run.assumptions += ["usize arithmetic does not overflow on inputs below 2^63 bytes (model uses unbounded N)",
                        "time limit for 'bounded time' in the exploration half: %.0f s per parse call on sources below 25 KB" % TIME_LIMIT]
    coqtools.prove(run, ["theories/Parse/Props.vo", "theories/Parse/Run.vo"], "C41.v")
    okb, bindir, blog = harness.build(BIN)
    if not okb:
        run.tie_broken("harness build " + BIN, blog[-3000:])
        return
    binpath = os.path.join(bindir, BIN)
    examples = P.load_examples()
    child = P.Child(binpath)
    try:
        t0 = time.time()
        srcs = correspond(run, child, examples)
        t1 = time.time()
        explore(run, child, examples, srcs)
        run.extra["phase_seconds"] = {"correspondence": round(t1 - t0, 1), "exploration": round(time.time() - t1, 1)}
    finally:
        child.close()
    run.extra["child_restarts"] = child.restarts


def correspond(run, child, examples):
    rng = run.rng
    srcs = corr_sources(run, examples)
    exprs, impl = [], []
    for kind, s in srcs:
        run.count("corr:" + kind)
        got, raw = impl_prepass(child, s)
        run.count("passes=" + got.split("|")[0])
        # the parse call of the correspondence half is judged against the property text too (panic / no answer in time)
        if isinstance(raw, dict) and ("timeout" in raw or "panic" in raw or "abort" in raw):
            probs = judge(s, raw)
            if probs:
                run.count("oracle_fail(correspondence half):" + probs[0][0])
                if run.hist.get("oracle_fail(correspondence half):" + probs[0][0], 0) <= 2:
                    run.violation("; ".join(m for _, m in probs)[:600],
                                  {"kind": "parse", "source": s, "mutation": "corr:" + kind, "observed": raw,
                                   "contradicts": "property text (no panic, bounded time); pre-scan theorems C41_prepass_no_panic (coq/theories/Parse/Props.v)"},
                                  classes=classify(s, probs))
        # positions for in_original
        a = child.ask({"kind": "locate", "source": s, "positions": []}, TIME_LIMIT)
        big = "ok" in a and a["pre_len"] > 50000          # the at-limit expansion: one model evaluation of it is enough
        if big:
            ps, loc = [], None
        elif "ok" in a:
            n = a["pre_len"]
            ps = list(range(0, n + 3)) if n <= 160 else sorted({rng.below(n + 2) for _ in range(44)} | {0, n, n + 1, n + 7})
            a = child.ask({"kind": "locate", "source": s, "positions": ps}, TIME_LIMIT)
            loc = "O|%s|L|%s" % (sums(a["origins"]) if len(a["origins"]) > 400 else ".".join(str(o) for o in a["origins"]), ";".join("%d,%d,%d" % tuple(l) for l in a["ok"])) if "ok" in a else "CHILD:" + json.dumps(a)[:200]
        else:
            ps = []
            loc = "PANIC" if "panic" in a else ("EXPERR" if "err" in a else "CHILD:" + json.dumps(a)[:200])
        sp = [rng.below(len(s.encode()) + 3) for _ in range(3)]
        sl = [child.ask({"kind": "srcloc", "source": s, "position": p}, TIME_LIMIT) for p in sp]
        impl.append((got, loc, ["%d,%d,%d" % (x["line"], x["column"], x["position"]) if "line" in x else json.dumps(x) for x in sl]))
        exprs.append("prepass_case %s" % T.g_cps(s))
        exprs.append("locate_case %s [%s]" % (T.g_cps(s), ";".join(str(p) for p in ps)) if not big else '""')
        for p in sp:
            exprs.append("srcloc_case %s %d" % (T.g_cps(s), p))
    t_impl = time.time()
    try:
        model = coqtools.coq_eval("C41", IMPORTS, exprs, shard=max(25, len(exprs) // 16 + 1))
        run.extra["model_eval_seconds"] = round(time.time() - t_impl, 1)
    except RuntimeError as e:
        run.tie_broken("model evaluation (coqc cases)", str(e))
        return srcs
    ndis = 0
    shown = {}
    for i, ((kind, s), (got, loc, sl)) in enumerate(zip(srcs, impl)):
        m = model[5 * i:5 * i + 5]
        nontrivial = s if (got.startswith("NEST") or "for " in s or any(ord(c) > 127 for c in s) or ":\n" in s) else None
        run.case(nontrivial, sample={"source": s[:300], "passes": got, "locations": loc[:200]} if nontrivial and len(run.samples) < 3 else None)
        diffs = []
        if model_prepass_norm(m[0]) != got:
            diffs.append("pass outcome: impl %s, model %s" % (got, m[0]))
        if loc is not None and m[1] != loc:
            diffs.append("origins / in_original: impl %s\n model %s" % (loc[:700], m[1][:700]))
        if list(m[2:5]) != sl:
            diffs.append("from_position: impl %s model %s" % (sl, m[2:5]))
        if diffs:
            ndis += 1
            shown[kind] = shown.get(kind, 0) + 1
            if shown[kind] <= 2:           # two per kind of source, so that different passes show up
                run.tie_broken("correspondence Parse/Model.v vs varpulis-parser on %s source %r" % (kind, s[:300]), "\n".join(diffs)[:1800])
    run.extra["disagreements"] = ndis
    run.extra["correspondence_sources"] = len(srcs)
    return srcs


def explore(run, child, examples, srcs):
    rng = run.rng
    n = 420 if run.tier == "quick" else 12000
    cases = [("corpus", s) for s in CORPUS]
    for _, s in srcs:
        cases.append(("generated", s))
    for i in range(n):
        name, text = rng.choice(examples)
        whole = rng.chance(1, 12)
        s = text if whole else P.fragments(text, rng, rng.choice([300, 800, 2000]))
        labs = []
        for _ in range(rng.choice([1, 1, 1, 2, 3])):
            s, lab = (P.mutate_bytes(s, rng) if rng.chance(1, 4) else P.mutate_grammar(s, rng))
            labs.append(lab)
        cases.append(("+".join(labs), s))
    for name, text in examples:
        cases.append(("unmutated-example", text))
    nviol = {}
    slow = []
    for lab, s in cases:
        tq = time.time()
        ans = child.ask({"kind": "parse", "source": s}, TIME_LIMIT)
        slow.append((round(time.time() - tq, 2), lab, len(s)))
        for l in lab.split("+"):
            run.count("mut:" + l)
        outcome = "ok" if "ok" in ans else ("err:" + ans["err"]["variant"] if "err" in ans else next(iter(ans)))
        run.count("parse=" + outcome)
        if lab == "unmutated-example" and "ok" not in ans:
            run.count("example-does-not-parse")
        run.case(s if ("err" in ans and "position" in ans["err"]) else None)
        probs = judge(s, ans)
        if probs:
            kinds = {k for k, _ in probs}
            key = sorted(kinds)[0]
            nviol[key] = nviol.get(key, 0) + 1
            run.count("oracle_fail:" + key)
            if nviol[key] <= 2:
                small = shrink(s, child, kinds)
                a2 = child.ask({"kind": "parse", "source": small}, TIME_LIMIT)
                p2 = judge(small, a2) or probs
                run.violation("; ".join(m for _, m in p2)[:600],
                              {"kind": "parse", "source": small, "original_source": s if len(s) < 3000 else s[:3000], "mutation": lab, "observed": a2,
                               "contradicts": "property text (exploration half); for positions also C41_position_in_range (coq/theories/Parse/Props.v)"},
                              classes=classify(small, p2))
    run.extra["oracle_failures"] = nviol
    run.extra["slowest_parse_calls"] = sorted(slow, reverse=True)[:5]


def classify(source, probs):
    return []


def replay(run, path):
    r = json.load(open(path))["replay"]
    okb, bindir, blog = harness.build(BIN)
    child = P.Child(os.path.join(bindir, BIN))
    try:
        ans = child.ask({"kind": "parse", "source": r["source"]}, TIME_LIMIT)
    finally:
        child.close()
    run.case(("replay",), {"source": r["source"][:300]})
    probs = judge(r["source"], ans)
    if probs:
        run.violation("; ".join(m for _, m in probs)[:600], dict(r, observed=ans), classes=classify(r["source"], probs))
