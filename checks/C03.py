"""C03 — Kleene closures report every admissible combination, up to the documented caps."""
import itertools

from checks import sase_common as S

META = {
    "technique": "Coq proof (enumeration = filter of the ZDD power-set iteration, on top of the Zdd theorems) + model/impl differential exposing the combination behind each match + brute-force subset enumeration as oracle",
    "design_ref": "DESIGN.md §7 C03",
    "level_text": "Theorems C03_* in coq/theories/Sase/Props.v about the executable model of the SASE engine (Kleene capture built on the proved Zdd model); tie by per-event comparison of every match incl. its combination (hook MatchResult::verif_combo)",
    "level_note": "Program class A -> all B -> C (and trailing all B), filters Compare/CompareRef; floats multiples of 0.5. Trusted: Coq kernel + vm_compute, model (differential tie), hook verif_combo, harness, Python brute-force reference",
}


def split_prog(prog):
    """returns (index of the single all step, self_referencing?) or None"""
    alls = [i for i, s in enumerate(prog["steps"]) if s["all"]]
    if len(alls) != 1:
        return None
    k = alls[0]
    s = prog["steps"][k]
    return k, S.refs_alias(s["pred"], s["alias"])


def reference(prog, events):
    """per event index: list of expected emissions; each emission = ("one", stack) or ("combos", base_stack, acc, set of index tuples)"""
    k, selfref = split_prog(prog)
    steps = prog["steps"]
    trailing = k == len(steps) - 1
    cap = prog["max_kleene"]
    out = [[] for _ in events]
    for i, e0 in enumerate(events):
        if k == 0 or not S.step_ok(steps[0], e0, {}):
            continue
        # only 3-step / 2-step shapes A -> all B [-> C] are generated; steps before k are plain
        capd = {steps[0]["alias"]: e0} if steps[0]["alias"] else {}
        pre = [i]
        si = 1
        acc = []
        j = i + 1
        done = False
        while j < len(events) and not done:
            ev = events[j]
            if si < k:
                if S.step_ok(steps[si], ev, capd):
                    pre.append(j)
                    if steps[si]["alias"]:
                        capd[steps[si]["alias"]] = ev
                    si += 1
                j += 1
                continue
            b = steps[k]
            is_b = ev["ty"] == b["ty"] and (selfref or b["pred"] is None or S.eval_pred(b["pred"], ev, capd))
            if is_b and (acc or si == k):
                if len(acc) < cap:
                    acc.append(j)
                    if b["alias"] and not selfref:
                        capd[b["alias"]] = ev
                    if trailing:
                        out[j].append(("one", pre + list(acc)))
                elif trailing:
                    pass
                j += 1
                continue
            if not trailing and acc and S.step_ok(steps[k + 1], ev, dict(capd, **({b["alias"]: events[acc[-1]]} if b["alias"] else {}))):
                if selfref:
                    good = set()
                    for r in range(1, len(acc) + 1):
                        for comb in itertools.combinations(range(len(acc)), r):
                            ok = True
                            for u, v in zip(comb, comb[1:]):
                                c2 = dict(capd)
                                c2[b["alias"]] = events[acc[u]]
                                if not S.eval_pred(b["pred"], events[acc[v]], c2):
                                    ok = False
                                    break
                            if ok:
                                good.add(comb)
                    out[j].append(("combos", pre + list(acc) + [j], list(acc), good))
                else:
                    out[j].append(("one", pre + list(acc) + [j]))
                done = True
            j += 1
    return out


def judge(prog, events, ans):
    if "panic" in ans:
        return ["implementation panicked: " + ans["panic"]]
    sp = split_prog(prog)
    if sp is None:
        return []
    k, selfref = sp
    steps = prog["steps"]
    trailing = k == len(steps) - 1
    out = []
    got = S.parse_matches(ans)
    want = reference(prog, events)
    for idx, (g, w) in enumerate(zip(got, want)):
        # caps, always
        for m in g:
            nb = len(m["stack"]) - (len(steps) - 1)
            if nb > prog["max_kleene"]:
                out.append("event %d: match keeps %d Kleene events, cap is %d (stack %s)" % (idx, nb, prog["max_kleene"], m["stack"]))
        groups = {}
        for m in g:
            groups.setdefault(tuple(m["stack"]), []).append(m)
        for st, ms in groups.items():
            if any(m["combo"] is not None for m in ms):
                if len(ms) > max(1, prog["max_results"]):
                    out.append("event %d: %d matches emitted for one completion, cap is %d" % (idx, len(ms), prog["max_results"]))
                combos = [tuple(m["combo"]) for m in ms]
                if len(set(combos)) != len(combos):
                    out.append("event %d: a combination is emitted twice: %s" % (idx, combos))
        if trailing:
            # The property text fixes the semantics of A -> all B -> C only. For a trailing `all` the engine closes
            # the run at the first non-matching event (and re-emits the final stack); that is judged here on the
            # caps (above) and on soundness: every reported stack is a prefix-closed accumulation in arrival order.
            for m in g:
                if list(m["stack"]) != sorted(set(m["stack"])):
                    out.append("event %d: trailing-all match not in arrival order: %s" % (idx, m["stack"]))
            continue
        exp_one = sorted(tuple(x[1]) for x in w if x[0] == "one")
        got_one = sorted(tuple(m["stack"]) for m in g if m["combo"] is None)
        if exp_one != got_one:
            out.append("event %d: expected single matches %s, engine reports %s" % (idx, exp_one, got_one))
        for x in w:
            if x[0] != "combos":
                continue
            _, stack, acc, good = x
            mine = [tuple(m["combo"]) for m in g if m["combo"] is not None and tuple(m["stack"]) == tuple(stack)]
            bad = [c for c in mine if c not in good]
            if bad:
                out.append("event %d: emitted combinations %s are not admissible (admissible: %d)" % (idx, bad[:3], len(good)))
            if len(good) <= prog["max_results"] and set(mine) != good:
                out.append("event %d: %d admissible combinations, engine emitted %d: missing %s" % (idx, len(good), len(set(mine)), sorted(good - set(mine))[:3]))
    return out


def gen_case(rng, nmax):
    selfref = rng.chance(1, 2)
    trailing = rng.chance(1, 4)
    bpred = None
    if selfref:
        bpred = ("ref", "x", rng.choice(["gt", "ge", "lt", "ne"]), "b", "x")
        if rng.chance(1, 4):
            bpred = ("and", bpred, ("ref", "y", "ge", "b", "y"))
    elif rng.chance(1, 2):
        bpred = rng.choice([("cmp", "x", "ge", ("i", 1)), ("ref", "x", "ge", "a", "x")])
    steps = [{"ty": "A", "alias": "a", "all": False, "pred": None},
             {"ty": "B", "alias": "b", "all": True, "pred": bpred}]
    if not trailing:
        steps.append({"ty": "C", "alias": "c", "all": False, "pred": None})
    n = rng.range(1, nmax)
    prog = S.default_prog(steps)
    prog["max_kleene"] = rng.choice([1, 2, 3, n, n + 1, 20])
    prog["max_results"] = rng.choice([1, 2, 3, 7, 2 ** min(n, 10), 10000])
    evs = [{"id": 0, "ty": "A", "f": {"x": ("i", rng.range(0, 2)), "y": ("i", 0)}}]
    for _ in range(n):
        if rng.chance(1, 6):
            evs.append({"id": 0, "ty": rng.choice(["D", "A"]), "f": {"x": ("i", 1), "y": ("i", 0)}})
        evs.append({"id": 0, "ty": "B", "f": {"x": ("i", rng.range(0, 5)) if rng.chance(5, 6) else ("h", rng.range(0, 10)), "y": ("i", rng.range(0, 2))}})
    evs.append({"id": 0, "ty": "C", "f": {"x": ("i", 0)}})
    if rng.chance(1, 3):
        evs.append({"id": 0, "ty": "B", "f": {"x": ("i", 1), "y": ("i", 1)}})
        evs.append({"id": 0, "ty": "C", "f": {"x": ("i", 0)}})
    return prog, S.renumber(evs)


def cases_for(run):
    rng = run.rng
    n = 200 if run.tier == "quick" else 2000
    nmax = 8 if run.tier == "quick" else 12
    return [gen_case(rng, nmax) for _ in range(n)]


def check(run):
    run.rule = ("patterns A -> all B [filter] -> C and A -> all B over streams A B^n C (n <= 8 quick / 12 thorough, noise events, second round), "
                "B filter absent / constant / cross-alias / self-referencing, caps max_kleene in {1,2,3,n,n+1,20} x max_results in {1,2,3,7,2^n,10000}; "
                "judged against brute-force subset enumeration; non-trivial = at least one match; distinct = distinct (program, stream)")
    run.trusted += ["Coq 8.16.1 kernel + vm_compute", "hand-written model coq/theories/Sase/Model.v on top of the proved Zdd model (tied by differential run incl. combinations)",
                    "hook MatchResult::verif_combo (cfg varpulis_verif)", "harness/crates/sase, checks/C03.py brute-force reference"]
    binpath = S.build(run, "C03.v")
    if binpath is None:
        return
    S.drive(run, binpath, cases_for(run), "C03", judge, contradicts="C03_* in coq/theories/Sase/Props.v")


def replay(run, path):
    S.replay_case(run, path, judge)
