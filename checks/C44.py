"""C44 — event values keep their types and contents through the REST API."""
import json
import os
import sys

from checks import codec_common as C
from vplib import coqtools, harness
from vplib.common import sh

META = {
    "technique": "Coq proof (structural induction over JSON trees) about an executable model of json_to_runtime_value / value_to_json; "
                 "model tied to the code by a differential run through the real warp routes (inject and inject-batch via warp::test against a "
                 "pass-through pipeline) and an independent tree-equality oracle",
    "level_text": "proof about model + differential correspondence + independent oracle on the implementation",
    "level_note": "Proved: for every JSON payload tree whose integers are within i64 (finite floats, distinct keys) the runtime value has the "
                  "kind of the JSON value and converting it back gives the same tree; refuted by witness for integers above i64::MAX (they "
                  "become floats: known finding, every such integer does). Modelled, not proved: the JSON text layer (serde_json parser and "
                  "printer — the driver prints/parses text with its own code and compares trees, floats by bits), serde_json's BTreeMap "
                  "objects (key order and duplicate keys: compared as maps, last duplicate wins), the pipeline between the two conversions "
                  "(a pass-through .emit). json_from_value (SSE log stream) is not exercised by the differential run: it is tied by the "
                  "translator translate/api_json_arms.py (its match arms, regenerated from the source on every run, are proved equal to "
                  "the arms of websocket::value_to_json the model was written from).",
    "design_ref": "DESIGN.md §7 C44",
}

CLASS_BIGINT = "integer-outside-i64"

RAW_CORPUS = [
    '{"v":1,"w":1.0}',
    '{"v":18446744073709551615,"w":9223372036854775808}',          # DESIGN §7 C44 expected finding
    '{"v":9223372036854775807,"w":-9223372036854775808}',
    '{"v":123456789012345678901234567890,"w":-9223372036854775809}',
    '{"v":1E2,"w":-0}',
    '{"v":1.0e+2,"w":100.000}',
    '{"v":{"b":[1,null,"x",{"z":-0.0}],"a":2},"w":[[],{},[{}]]}',
    '{"v":"s","w":[true,false],"v":2}',
    '{"v":"\\u00e9\\ud83d\\ude00\\n\\"","w":"\\u0000"}',
    '{"v":0.1,"w":5e-324}',
    '{"v":1.7976931348623157e308,"w":2.2250738585072014e-308}',
    '{"v":null,"w":{"event_type":"x","fields":{"v":1}}}',
]


def gen_tree(rng, depth):
    k = rng.below(14 if depth > 0 else 10)
    if k == 0:
        return ("n",)
    if k == 1:
        return ("b", rng.chance(1, 2))
    if k in (2, 3):
        return ("i", rng.choice(C.INTS) if rng.chance(2, 3) else rng.range(C.I64_MIN, C.I64_MAX))
    if k == 4:
        return ("i", rng.choice([C.I64_MAX + 1, C.U64_MAX, C.U64_MAX - 1, (1 << 63) + 1025, (1 << 63) + 1024, (1 << 64) - 1024, (1 << 64) - 1025, rng.range(C.I64_MAX + 1, C.U64_MAX)]))
    if k in (5, 6, 7):
        return ("d", C.gen_float_bits(rng, False))
    if k in (8, 9):
        return ("s", C.gen_str(rng))
    if k in (10, 11):
        return ("a", [gen_tree(rng, depth - 1) for _ in range(rng.below(4))])
    kv = []
    for _ in range(rng.below(4)):
        kv.append((C.gen_key(rng), gen_tree(rng, depth - 1)))
    if kv and rng.chance(1, 6):
        kv.append((kv[0][0], gen_tree(rng, depth - 1)))      # duplicate key
    return ("o", kv)


def normalise(t):
    """a JSON value as a mathematical object: objects are maps (last duplicate wins, keys unordered -> sorted)"""
    if t[0] == "a":
        return ("a", [normalise(x) for x in t[1]])
    if t[0] == "o":
        d = {}
        for k, v in t[1]:
            d[tuple(k)] = normalise(v)
        return ("o", sorted(((list(k), v) for k, v in d.items()), key=lambda p: p[0]))
    if t[0] == "d" and C.is_nan_bits(t[1]):
        return ("d", C.NAN_BITS)
    return t


def has_bigint(t):
    if t[0] == "i":
        return not (C.I64_MIN <= t[1] <= C.I64_MAX)
    if t[0] == "a":
        return any(has_bigint(x) for x in t[1])
    if t[0] == "o":
        return any(has_bigint(v) for _, v in t[1])
    return False


def bigints_as_floats(t):
    if t[0] == "i" and not (C.I64_MIN <= t[1] <= C.I64_MAX):
        return ("d", C.f2b(float(t[1])))
    if t[0] == "a":
        return ("a", [bigints_as_floats(x) for x in t[1]])
    if t[0] == "o":
        return ("o", [(k, bigints_as_floats(v)) for k, v in t[1]])
    return t


def extract(mode, ans):
    """-> (tree of v, tree of w) from the HTTP answer, or an error string"""
    if "panic" in ans:
        return "implementation panicked: " + ans["panic"]
    if ans["status"] != 200:
        return "HTTP %s: %s" % (ans["status"], ans["body"][:200])
    try:
        body = C.parse_json(ans["body"])
        if mode == "single":
            if C.tree_get(body, "accepted") != ("b", True):
                return "not accepted: " + ans["body"][:200]
            evs = C.tree_get(body, "output_events")[1]
            if len(evs) != 1:
                return "%d output events" % len(evs)
            f = C.tree_get(evs[0], "fields")
        else:
            if C.tree_get(body, "accepted") != ("i", 1):
                return "not accepted: " + ans["body"][:200]
            evs = C.tree_get(body, "output_events")[1]
            if len(evs) != 1:
                return "%d output events" % len(evs)
            f = evs[0]
        return C.tree_get(f, "v"), C.tree_get(f, "w")
    except (C.ParseError, KeyError, IndexError, AssertionError) as e:
        return "unreadable response (%r): %s" % (e, ans["body"][:200])


def judge(payload, mode, ans):
    """oracle: both fields come back as the JSON values that went in (same kinds, same contents). -> (failures, classes)"""
    got = extract(mode, ans)
    if isinstance(got, str):
        return [got], []
    fails = []
    classes = []
    want_v = normalise(C.tree_get(normalise(payload), "v"))
    want_w = normalise(C.tree_get(normalise(payload), "w"))
    for name, want, g in (("v", want_v, got[0]), ("w", want_w, got[1])):
        g = normalise(g)
        if g != want:
            fails.append("field %s: sent %s, came back %s" % (name, C.print_json(want)[:160], C.print_json(g)[:160]))
            if has_bigint(want) and normalise(bigints_as_floats(want)) == g:
                classes.append(CLASS_BIGINT)
            else:
                classes.append(None)
    if fails and all(c == CLASS_BIGINT for c in classes):
        return fails, [CLASS_BIGINT]
    return fails, []


def check(run):
    rng = run.rng
    run.rule = ("JSON event payloads {v: <tree>, w: <tree>} of depth <= 3 (integers at and beyond the i64/u64 boundaries, finite floats incl. "
                "subnormal/huge/17-digit, unicode and escaped strings, nested arrays/objects with duplicate keys, null, bool; plus raw-text "
                "corpus with alternative number spellings) through POST .../events and .../events-batch; non-trivial = payload with a nested "
                "value or a boundary number; distinct = distinct (mode, payload text)")
    run.trusted += ["Coq 8.16.1 kernel + vm_compute",
                    "hand-written model coq/theories/Codec/Model.v (json_to_value, value_to_json, f64_of_Z) tied by differential run through the real routes",
                    "JSON text layer: serde_json parser/printer on the server side, the driver's own parser/printer (checks/codec_common.py) on the other",
                    "the pass-through pipeline `stream Out = A .emit(v: v, w: w)` between the two conversions (engine field access and emit)",
                    "translator translate/api_json_arms.py (arm extraction and normalisation) for json_from_value, which the differential run does not reach",
                    "Rust harness harness/crates/codec (warp::test), Python driver"]
    run.assumptions += ["payload depth within serde_json's recursion limit", "finite floats representable in binary64 (1e400 is rejected with 400)"]
    # T-tie: regenerate the arm tables of the three conversion functions from the source
    tr = sh([sys.executable, os.path.join(os.path.dirname(os.path.dirname(os.path.abspath(__file__))), "translate", "api_json_arms.py")], timeout=120)
    if tr.returncode != 0:
        run.tie_broken("translator api_json_arms.py (shape of json_to_runtime_value / json_from_value / value_to_json)", (tr.stdout + tr.stderr)[-1500:])
    binpath = C.build(run, ["theories/Codec/Props.vo", "theories/Codec/PropsArms.vo"], "C44.v")
    if binpath is None:
        return
    cases = []
    for raw in RAW_CORPUS:
        for mode in ("single", "batch"):
            cases.append((mode, raw, C.parse_json(raw)))
    n = 350 if run.tier == "quick" else 8000
    for i in range(n):
        t = ("o", [(C.cps("v"), gen_tree(rng, 3)), (C.cps("w"), gen_tree(rng, 2))])
        if rng.chance(1, 10):
            t = ("o", t[1] + [(C.cps("v"), gen_tree(rng, 1))])
        cases.append(("single" if i % 2 == 0 else "batch", C.print_json(t), t))
    answers = harness.run_jsonl(binpath, [{"prop": "C44", "mode": m, "fields_text": tx} for m, tx, _ in cases])
    exprs = []
    for m, tx, t in cases:
        nt = normalise(t)
        exprs.append("c44_case %s" % C.g_json(C.tree_get(nt, "v")))
        exprs.append("c44_case %s" % C.g_json(C.tree_get(nt, "w")))
    try:
        model = coqtools.coq_eval("C44", C.IMPORTS, exprs, shard=max(20, len(exprs) // 16 + 1))
    except RuntimeError as e:
        run.tie_broken("model evaluation (coqc cases)", str(e))
        model = [None] * len(exprs)
    n_or = n_co = known = 0
    for k, ((m, tx, t), a) in enumerate(zip(cases, answers)):
        big = has_bigint(t)
        nested = any(x[1][0] in "ao" for x in t[1])
        run.case((m, tx) if (big or nested) else None, sample={"mode": m, "payload": tx[:200], "answer": a.get("body", "")[:200]} if k in (2, 30) else None)
        run.count("mode=" + m)
        run.count("payload=" + ("has-integer-outside-i64" if big else "all-integers-in-i64"))
        for _, x in t[1]:
            run.count("top=" + x[0])
        fails, classes = judge(t, m, a)
        if fails:
            if classes == [CLASS_BIGINT]:
                known += 1
                run.violation("; ".join(fails)[:600], {"mode": m, "fields_text": tx}, classes=classes)
            else:
                n_or += 1
                if n_or <= 3:
                    run.violation("; ".join(fails)[:700], {"mode": m, "fields_text": tx, "implementation": a,
                                                           "contradicts": "C44_roundtrip in coq/theories/Codec/Props.v"})
        got = extract(m, a)
        if isinstance(got, str):
            si = ("ERR", "ERR")
        else:
            si = tuple("out=" + C.render_json(normalise(g)) for g in got)
        for j in (0, 1):
            sm = model[2 * k + j]
            if sm is not None:
                sm_out = sm[sm.index("|out=") + 1:]
                if sm_out != si[j]:
                    n_co += 1
                    if n_co <= 3:
                        run.tie_broken("correspondence Codec/Model.v (json_to_value / value_to_json) vs api.rs on %s field %s of %s" % (m, "vw"[j], tx[:300]),
                                       "model and implementation differ:\n impl  %s\n model %s" % (si[j], sm_out))
    run.count("known-finding integer-outside-i64 cases", known)
    if known == 0:
        run.tie_broken("known finding %s not reproduced" % CLASS_BIGINT, "no payload with an integer above i64::MAX came back changed; remove the finding and restate the theorem")
    run.extra["oracle_failures"] = n_or
    run.extra["disagreements"] = n_co


def replay(run, path):
    r = json.load(open(path))["replay"]
    ok, bindir, lg = harness.build("vp-codec")
    a = harness.run_jsonl(os.path.join(bindir, "vp-codec"), [{"prop": "C44", "mode": r["mode"], "fields_text": r["fields_text"]}])[0]
    run.case(("replay",), {"replay": str(r)[:300]})
    run.case(("replay2",))
    fails, classes = judge(C.parse_json(r["fields_text"]), r["mode"], a)
    if fails:
        run.violation("; ".join(fails)[:700], {"mode": r["mode"], "fields_text": r["fields_text"], "implementation": a}, classes=classes)
