"""Shared machinery for C35 / C36 (crates/varpulis-cluster/src/raft).

Abstract data used by the generators (ints are interned strings: 0="id", 1="status", 2="ready", n="s<n>"):
  json    : None | bool | int | ("s", n) | [json..] | {"o": [(k, json)..]}      (object keys unique)
  command : (kind, field values..) in the field order of the Rust enum / the Coq inductive
  logid   : (term, node, index);  entry : (logid, payload), payload = ("b",) | ("m", n) | ("c", command)
  xop     : ("vote",(t,n,c)) ("append",[entry]) ("delete",logid) ("purge",logid) ("apply",[entry]) ("build",)
            ("install",[entry]) ("range",bound,bound) ("restart",);  bound = ("i",n)|("e",n)|("u",)
Three printers per datum: to the harness' JSON (real serde format of ClusterCommand), to Gallina
(Raft/Model.v, Raft/Run.v), and the canonical observation string (same format as Raft/Run.v str_obs).
"""
import json
import os
import subprocess

from vplib import coqtools, harness
from vplib.common import log, VERIF, REPO

IMPORTS = ("From Coq Require Import String.\nFrom VP Require Import Base.Tactics Base.Render Raft.Model Raft.Sync Raft.Run.\n"
           "Open Scope string_scope.\nOpen Scope Z_scope.\n")

KINDS = ["RegisterWorker", "DeregisterWorker", "WorkerStatusChanged", "WorkerPipelinesUpdated", "GroupDeployed",
         "GroupUpdated", "GroupRemoved", "MigrationStarted", "MigrationUpdated", "MigrationRemoved", "ConnectorCreated",
         "ConnectorUpdated", "ConnectorRemoved", "ScalingPolicySet", "ModelRegistered", "ModelRemoved"]


def name(n):
    return {0: "id", 1: "status", 2: "ready"}.get(n, "s%d" % n)


def unname(s):
    if s == "id":
        return 0
    if s == "status":
        return 1
    if s == "ready":
        return 2
    assert s.startswith("s") and s[1:].isdigit(), s
    return int(s[1:])


# ------------------------------------------------------------------ json values
def j_serde(j):
    if j is None or isinstance(j, bool) or isinstance(j, int):
        return j
    if isinstance(j, tuple):
        return name(j[1])
    if isinstance(j, list):
        return [j_serde(x) for x in j]
    return {name(k): j_serde(v) for k, v in j["o"]}


def j_gallina(j):
    if j is None:
        return "JNull"
    if isinstance(j, bool):
        return "(JBool %s)" % ("true" if j else "false")
    if isinstance(j, int):
        return "(JNum (%d))" % j
    if isinstance(j, tuple):
        return "(JStr %d%%N)" % j[1]
    if isinstance(j, list):
        return "(JArr [%s])" % "; ".join(j_gallina(x) for x in j)
    return "(JObj [%s])" % "; ".join("(%d%%N, %s)" % (k, j_gallina(v)) for k, v in j["o"])


def serde_json_str(v):
    """canonical string (Run.v str_json) of a real serde_json value printed by the harness"""
    if v is None:
        return "n"
    if isinstance(v, bool):
        return "t" if v else "f"
    if isinstance(v, int):
        return "#%d" % v
    if isinstance(v, str):
        return "$%d" % unname(v)
    if isinstance(v, list):
        return "[" + ",".join(serde_json_str(x) for x in v) + "]"
    if isinstance(v, dict):
        return "{" + ",".join("%d:%s" % (k, s) for k, s in sorted((unname(k), serde_json_str(x)) for k, x in v.items())) + "}"
    raise ValueError(v)


def j_str(j):
    return serde_json_str(j_serde(j))


# ------------------------------------------------------------------ commands
def cmd_serde(c):
    k = c[0]
    a = c[1:]
    if k == "RegisterWorker":
        body = {"id": name(a[0]), "address": name(a[1]), "api_key": name(a[2]),
                "capacity": {"cpu_cores": a[3][0], "pipelines_running": a[3][1], "max_pipelines": a[3][2]}}
    elif k in ("DeregisterWorker", "MigrationRemoved"):
        body = {"id": name(a[0])}
    elif k in ("WorkerStatusChanged", "MigrationUpdated"):
        body = {"id": name(a[0]), "status": name(a[1])}
    elif k == "WorkerPipelinesUpdated":
        body = {"id": name(a[0]), "assigned_pipelines": [name(x) for x in a[1]]}
    elif k in ("GroupDeployed", "GroupUpdated"):
        body = {"name": name(a[0]), "group": j_serde(a[1])}
    elif k in ("GroupRemoved", "ConnectorRemoved", "ModelRemoved"):
        body = {"name": name(a[0])}
    elif k == "MigrationStarted":
        body = {"task": j_serde(a[0])}
    elif k in ("ConnectorCreated", "ConnectorUpdated"):
        cn = a[1]
        conn = {"name": name(cn[0]), "connector_type": name(cn[1]), "params": {name(x): name(y) for x, y in cn[2]}}
        if cn[3] is not None:
            conn["description"] = name(cn[3])
        body = {"name": name(a[0]), "connector": conn}
    elif k == "ScalingPolicySet":
        body = {"policy": None if a[0] is None else j_serde(a[0][0])}
    elif k == "ModelRegistered":
        m = a[1]
        body = {"name": name(a[0]), "entry": {"name": name(m[0]), "s3_key": name(m[1]), "format": name(m[2]),
                                              "inputs": [name(x) for x in m[3]], "outputs": [name(x) for x in m[4]],
                                              "size_bytes": m[5], "uploaded_at": name(m[6]), "description": name(m[7])}}
    else:
        raise ValueError(k)
    return {k: body}


def g_strs(l):
    return "[%s]" % "; ".join("%d%%N" % x for x in l)


def cmd_gallina(c):
    k = c[0]
    a = c[1:]
    if k == "RegisterWorker":
        return "(RegisterWorker %d%%N %d%%N %d%%N {| cpu_cores := %d; pipelines_running := %d; max_pipelines := %d |})" % (a[0], a[1], a[2], a[3][0], a[3][1], a[3][2])
    if k in ("DeregisterWorker", "MigrationRemoved", "GroupRemoved", "ConnectorRemoved", "ModelRemoved"):
        return "(%s %d%%N)" % (k, a[0])
    if k in ("WorkerStatusChanged", "MigrationUpdated"):
        return "(%s %d%%N %d%%N)" % (k, a[0], a[1])
    if k == "WorkerPipelinesUpdated":
        return "(WorkerPipelinesUpdated %d%%N %s)" % (a[0], g_strs(a[1]))
    if k in ("GroupDeployed", "GroupUpdated"):
        return "(%s %d%%N %s)" % (k, a[0], j_gallina(a[1]))
    if k == "MigrationStarted":
        return "(MigrationStarted %s)" % j_gallina(a[0])
    if k in ("ConnectorCreated", "ConnectorUpdated"):
        cn = a[1]
        return "(%s %d%%N {| cn_name := %d%%N; cn_type := %d%%N; cn_params := [%s]; cn_desc := %s |})" % (
            k, a[0], cn[0], cn[1], "; ".join("(%d%%N, %d%%N)" % p for p in cn[2]), "None" if cn[3] is None else "(Some %d%%N)" % cn[3])
    if k == "ScalingPolicySet":
        return "(ScalingPolicySet %s)" % ("None" if a[0] is None else "(Some %s)" % j_gallina(a[0][0]))
    if k == "ModelRegistered":
        m = a[1]
        return ("(ModelRegistered %d%%N {| me_name := %d%%N; me_s3_key := %d%%N; me_format := %d%%N; me_inputs := %s; me_outputs := %s; "
                "me_size := %d; me_uploaded := %d%%N; me_desc := %d%%N |})") % (a[0], m[0], m[1], m[2], g_strs(m[3]), g_strs(m[4]), m[5], m[6], m[7])
    raise ValueError(k)


def cmd_digest_serde(v):
    """Run.v cmd_digest of a serde ClusterCommand as printed by the harness"""
    (k, b), = v.items()
    i = KINDS.index(k)
    if k == "MigrationStarted":
        return "%d.%s" % (i, serde_json_str(b["task"]))
    if k == "ScalingPolicySet":
        return "%d.%s" % (i, "none" if b["policy"] is None else serde_json_str(b["policy"]))
    return "%d.%d" % (i, unname(b["id"] if "id" in b else b["name"]))


# ------------------------------------------------------------------ entries / ops
def logid_serde(l):
    return list(l)


def g_logid(l):
    return "{| l_term := %d; l_node := %d; l_index := %d |}" % l


def entry_serde(e):
    lid, p = e
    if p[0] == "b":
        pj = ["blank"]
    elif p[0] == "m":
        pj = ["mem", p[1]]
    else:
        pj = ["cmd", cmd_serde(p[1])]
    return {"id": list(lid), "p": pj}


def g_entry(e):
    lid, p = e
    if p[0] == "b":
        pg = "PBlank"
    elif p[0] == "m":
        pg = "(PMember %d%%N)" % p[1]
    else:
        pg = "(PNormal %s)" % cmd_gallina(p[1])
    return "{| e_id := %s; e_pl := %s |}" % (g_logid(lid), pg)


def g_entries(es):
    return "[%s]" % "; ".join(g_entry(e) for e in es)


def bound_serde(b):
    return list(b)


def g_bound(b):
    return {"i": "(BIncl %d)", "e": "(BExcl %d)"}[b[0]] % b[1] if b[0] != "u" else "BUnb"


def op_serde(o):
    k = o[0]
    if k == "vote":
        return ["vote", [o[1][0], o[1][1], bool(o[1][2])]]
    if k in ("append", "apply", "install"):
        return [k, [entry_serde(e) for e in o[1]]]
    if k in ("delete", "purge"):
        return [k, list(o[1])]
    if k == "range":
        return ["range", list(o[1]), list(o[2])]
    return [k]


def g_op(o):
    k = o[0]
    if k == "vote":
        return "XVote {| v_term := %d; v_node := %d; v_committed := %s |}" % (o[1][0], o[1][1], "true" if o[1][2] else "false")
    if k == "append":
        return "XAppend %s" % g_entries(o[1])
    if k == "apply":
        return "XApply %s" % g_entries(o[1])
    if k == "install":
        return "XInstall %s" % g_entries(o[1])
    if k == "delete":
        return "XDelete %s" % g_logid(o[1])
    if k == "purge":
        return "XPurge %s" % g_logid(o[1])
    if k == "range":
        return "XRange %s %s" % (g_bound(o[1]), g_bound(o[2]))
    if k == "build":
        return "XBuild"
    if k == "restart":
        return "XRestart"
    raise ValueError(k)


def g_ops(ops):
    return "[%s]" % "; ".join(g_op(o) for o in ops)


# ------------------------------------------------------------------ canonical observation strings (Run.v)
def s_logid(l):
    return "-" if l is None else "%d.%d.%d" % tuple(l)


def s_smember(m):
    return "%s/%d" % (s_logid(m[0]), m[1])


def s_entry(e):
    p = e["p"]
    if p[0] == "blank":
        d = "b"
    elif p[0] == "mem":
        d = "m%d" % p[1]
    else:
        d = "c" + cmd_digest_serde(p[1])
    return "%s:%s" % (s_logid(e["id"]), d)


def s_entries(es):
    return ",".join(s_entry(e) for e in es)


def s_kvs(sep, pairs):
    return sep.join("%d:%s" % p for p in sorted(pairs))


def s_strs(l):
    return ".".join(str(unname(x)) for x in l)


def s_state(st):
    def worker(w):
        return ",".join([str(unname(w["id"])), str(unname(w["address"])), str(unname(w["api_key"])), str(unname(w["status"])),
                         str(w["cpu_cores"]), str(w["pipelines_running"]), str(w["max_pipelines"]), s_strs(w["assigned_pipelines"]),
                         str(w["events_processed"])])

    def conn(c):
        return ",".join([str(unname(c["name"])), str(unname(c["connector_type"])),
                         "<" + s_kvs(",", [(unname(k), str(unname(v))) for k, v in c["params"].items()]) + ">",
                         "none" if c.get("description") is None else str(unname(c["description"]))])

    def model(m):
        return ",".join([str(unname(m["name"])), str(unname(m["s3_key"])), str(unname(m["format"])), s_strs(m["inputs"]), s_strs(m["outputs"]),
                         str(m["size_bytes"]), str(unname(m["uploaded_at"])), str(unname(m["description"]))])

    def mp(f, d):
        return s_kvs(";", [(unname(k), f(v)) for k, v in d.items()])
    return ("W(" + mp(worker, st["workers"]) + ")G(" + mp(serde_json_str, st["pipeline_groups"]) + ")C(" + mp(conn, st["connectors"]) +
            ")M(" + mp(serde_json_str, st["active_migrations"]) + ")P(" + ("none" if st["scaling_policy"] is None else serde_json_str(st["scaling_policy"])) +
            ")R(" + mp(model, st.get("models", {})) + ")")


def s_snapshot(sn):
    return "%s/%s/%s/%s" % (s_logid(sn["last"]), s_smember(sn["mem"]), sn["id"], s_state(sn["state"]))


def obs_str(o, op=None):
    """canonical string of one harness observation (same format as Run.v str_obs)"""
    if "error" in o:
        return "ERROR " + o["error"]
    res = o.get("res")
    if op is None or res is None:
        r = ""
    elif op[0] == "apply":
        r = str(len(res))
    elif op[0] == "build":
        r = s_snapshot(res)
    elif op[0] == "range":
        r = s_entries(res["store"]) + "&" + s_entries(res["reader"])
    else:
        r = ""
    v = o["vote"]
    return ("V" + ("none" if v is None else "%d.%d.%d" % (v[0], v[1], 1 if v[2] else 0)) + "|P" + s_logid(o["purged"]) + "|L" + s_logid(o["last"]) +
            "|G" + s_entries(o["log"]) + "|A" + s_logid(o["applied"]) + "|M" + s_smember(o["mem"]) +
            "|S" + ("none" if o["snap"] is None else s_snapshot(o["snap"])) + "|T" + s_state(o["state"]) + "|R" + r)


def impl_case_str(ans, ops):
    if "panic" in ans:
        return "PANIC"
    return "#".join(obs_str(o, op) for o, op in zip(ans["steps"], ops))


# ------------------------------------------------------------------ generators
KEYS = [3, 4, 5, 6]


def gen_json(rng, depth=0):
    k = rng.below(8 if depth < 2 else 5)
    if k == 0:
        return None
    if k == 1:
        return rng.chance(1, 2)
    if k == 2:
        return rng.choice([0, 1, -1, 7, 42, 2 ** 40, -(2 ** 53)])
    if k in (3, 4):
        return ("s", rng.range(0, 9))
    if k == 5:
        return [gen_json(rng, depth + 1) for _ in range(rng.below(3))]
    keys = rng.shuffle([0, 1, 7, 8, 9])[:rng.below(4)]
    return {"o": [(kk, gen_json(rng, depth + 1)) for kk in keys]}


def gen_task(rng):
    """migration task: mostly objects with a string "id"; the shapes the guard in apply_command rejects too"""
    k = rng.below(10)
    if k <= 5:
        fields = [(0, ("s", rng.choice(KEYS)))]
        if rng.chance(1, 2):
            fields.append((1, ("s", rng.range(7, 9))))     # already has a "status"
        if rng.chance(1, 2):
            fields.append((7, gen_json(rng, 1)))
        return {"o": rng.shuffle(fields)}
    if k == 6:
        return {"o": [(0, rng.choice([5, None, True, [("s", 3)]]))]}      # "id" is not a string
    if k == 7:
        return {"o": [(7, ("s", 3))]}                                      # no "id"
    return rng.choice([None, ("s", 3), [("s", 3)], 5, True])              # not an object


def gen_command(rng):
    k = rng.choice(KINDS)
    key = rng.choice(KEYS)
    sv = lambda: rng.range(7, 12)
    if k == "RegisterWorker":
        return (k, key, sv(), sv(), (rng.choice([0, 1, 4, 64]), rng.choice([0, 2]), rng.choice([0, 10, 100, 2 ** 32])))
    if k in ("DeregisterWorker", "MigrationRemoved", "GroupRemoved", "ConnectorRemoved", "ModelRemoved"):
        return (k, key)
    if k in ("WorkerStatusChanged", "MigrationUpdated"):
        return (k, key, rng.choice([2, 7, 8, 9]))
    if k == "WorkerPipelinesUpdated":
        return (k, key, [sv() for _ in range(rng.below(3))])
    if k in ("GroupDeployed", "GroupUpdated"):
        return (k, key, gen_json(rng))
    if k == "MigrationStarted":
        return (k, gen_task(rng))
    if k in ("ConnectorCreated", "ConnectorUpdated"):
        pk = rng.shuffle([7, 8, 9])[:rng.below(3)]
        return (k, key, (sv(), sv(), [(p, sv()) for p in pk], None if rng.chance(1, 2) else sv()))
    if k == "ScalingPolicySet":
        pol = gen_json(rng)
        # Option<Value>: JSON null deserialises to None, so Some(null) cannot be sent
        return (k, None if pol is None or rng.chance(1, 3) else (pol,))
    if k == "ModelRegistered":
        return (k, key, (sv(), sv(), sv(), [sv() for _ in range(rng.below(3))], [sv() for _ in range(rng.below(2))],
                         rng.choice([0, 1, 10 ** 6, 2 ** 40]), sv(), sv()))
    raise ValueError(k)


def gen_payload(rng):
    k = rng.below(10)
    if k == 0:
        return ("b",)
    if k == 1:
        return ("m", rng.range(1, 63))
    return ("c", gen_command(rng))


def gen_log(rng, n, start=1, term=1):
    """n committed entries with indices start.., non-decreasing terms"""
    es = []
    for i in range(n):
        if rng.chance(1, 4):
            term += 1
        es.append(((term, rng.choice([1, 1, 2]), start + i), gen_payload(rng)))
    return es


def panics_free(entries):
    """True unless some MigrationUpdated would index a non-object migration (cannot happen: MigrationStarted only stores objects)"""
    return True


# ------------------------------------------------------------------ reviving ops from a replay file (tuples became lists)
def revive_json(j):
    if isinstance(j, list):
        if len(j) == 2 and j[0] == "s" and isinstance(j[1], int) and not isinstance(j[1], bool):
            return ("s", j[1])
        return [revive_json(x) for x in j]
    if isinstance(j, dict):
        return {"o": [(k, revive_json(v)) for k, v in j["o"]]}
    return j


def revive_cmd(c):
    k = c[0]
    a = list(c[1:])
    if k in ("GroupDeployed", "GroupUpdated"):
        a[1] = revive_json(a[1])
    elif k == "MigrationStarted":
        a[0] = revive_json(a[0])
    elif k == "ScalingPolicySet":
        a[0] = None if a[0] is None else (revive_json(a[0][0]),)
    elif k == "RegisterWorker":
        a[3] = tuple(a[3])
    elif k in ("ConnectorCreated", "ConnectorUpdated"):
        a[1] = (a[1][0], a[1][1], [tuple(p) for p in a[1][2]], a[1][3])
    elif k == "ModelRegistered":
        a[1] = tuple(a[1])
    return tuple([k] + a)


def revive_entry(e):
    lid, p = e
    p = tuple(p)
    if p[0] == "c":
        p = ("c", revive_cmd(p[1]))
    return (tuple(lid), p)


def revive_ops(ops):
    out = []
    for o in ops:
        k = o[0]
        if k in ("append", "apply", "install"):
            out.append((k, [revive_entry(e) for e in o[1]]))
        elif k in ("vote", "delete", "purge"):
            out.append((k, tuple(o[1])))
        elif k == "range":
            out.append((k, tuple(o[1]), tuple(o[2])))
        else:
            out.append((k,))
    return out


# ------------------------------------------------------------------ build / run
def build_all(run, audit_file, translator=True):
    """translator + Coq build + audit + harness build; returns path of vp-raft or None"""
    if translator:
        p = subprocess.run(["python3", os.path.join(VERIF, "translate", "cluster_command.py")], capture_output=True, text=True,
                           env=dict(os.environ, VERIF_REPO=REPO))
        run.oblige("translate/cluster_command.py regenerates Raft/Gen_Commands.v from raft/mod.rs + raft/state_machine.rs (shape assertions)",
                   p.returncode == 0, (p.stdout + p.stderr)[-3000:])
    hits = coqtools.banned_scan([f for f in coqtools.all_v_files() if "/Raft/" in f or "/Base/" in f] +
                                [os.path.join(VERIF, "coq", "audit", audit_file)])
    run.oblige("no Admitted/admit/Axiom/Parameter/guard-off in coq/theories/{Base,Raft} and the audit file", not hits, str(hits[:5]))
    targets = ["theories/Raft/Props.vo", "theories/Raft/Run.vo"]
    ok, lg = coqtools.make(targets)
    run.oblige("make " + " ".join(targets), ok, lg[-3000:])
    if ok:
        a = coqtools.audit(audit_file)
        run.axioms |= a["axioms"]
        run.oblige("audit %s: %d Check pins, %d/%d Print Assumptions closed" % (audit_file, a["n_pins"], a["n_print"], a["n_expected"]),
                   a["ok"], a["log"] + str(a["bad_axioms"]))
        run.extra["theorems_audited"] = a["n_print"]
    run.checker_cmd = "coqc 8.16.1 (full .vo) %s; coqc coq/audit/%s" % (" ".join(targets), audit_file)
    okb, bindir, blog = harness.build("vp-raft")
    if not okb:
        run.tie_broken("harness build vp-raft (feature persistent)", blog[-3000:])
        return None
    return os.path.join(bindir, "vp-raft")


def run_batched(binpath, reqs, chunk=40, nproc=6, timeout=3600):
    """Run harness requests in small batches (one vp-raft process each, `nproc` at a time) so that no single
    process call comes near its timeout even on a loaded machine; answers in request order."""
    import concurrent.futures
    chunks = [reqs[i:i + chunk] for i in range(0, len(reqs), chunk)]
    with concurrent.futures.ThreadPoolExecutor(max_workers=nproc) as ex:
        outs = list(ex.map(lambda c: harness.run_jsonl(binpath, c, (), timeout), chunks))
    return [a for o in outs for a in o]


def model_eval(run, tag, exprs):
    try:
        return coqtools.coq_eval(tag, IMPORTS, exprs, shard=max(30, min(120, len(exprs) // 8 + 1)), timeout=3000)
    except RuntimeError as e:
        run.tie_broken("model evaluation (coqc cases)", str(e))
        return [None] * len(exprs)
