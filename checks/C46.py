"""C46 — both event-file readers read the same events from the same file."""
import json

from checks import text_common as T
from vplib import coqtools, harness

META = {
    "technique": "Coq proof (per-line equivalence + induction over the line list, event-line parsers abstract) "
                 "+ model/impl differential on generated event files + direct reader-vs-reader oracle",
    "design_ref": "DESIGN.md §7 C46",
    "level_text": "Coq theorem: the streaming reader's events equal the preload reader's for every file and every pair of event-line parsers (outside one known class), about an executable model tied to event_file.rs by a differential run on every check",
    "level_note": "Proved for the model Text/EventFile.v: for every file text whose read_line pieces are all within MAX_LINE_LENGTH, and for "
                  "every pair of event-line parsers, the streaming reader yields exactly the preload reader's events (timing dropped) or both "
                  "reject/panic. Modelled, tied by the differential run: line splitting, trimming, comment/BATCH/@ classification, timing-prefix "
                  "and BATCH parsing incl. u64 overflow. Abstract (shared by both readers, not modelled): parse_event_line / parse_jsonl_line. "
                  "Only tested (oracle): files that are not valid UTF-8. Known finding: a line longer than MAX_LINE_LENGTH is skipped by the "
                  "streaming reader only.",
}
IMPORTS = ("From Coq Require Import String.\nFrom VP Require Import Base.Tactics Base.Render Text.Str Text.EventFile Text.EventFileRun.\n"
           "Open Scope string_scope.\nOpen Scope N_scope.\n")
WS = ["\t", " ", "  ", " ", "　", " ", "\x0b", "\x0c", "\u0085"]
TYPES = ["A", "B", "StockTick", "Order", "BATCHX", "e1", "Té", "﻿A", "my.Type"]
NAMES = ["x", "y", "price", "symbol", "id", "a b", "näme", "x"]


def gen_value(rng, depth=0, clean=False):
    k = rng.below(16)
    if clean and k == 10:
        k = 11
    if k == 0:
        return str(rng.range(-5, 300))
    if k == 1:
        return rng.choice(["9223372036854775807", "-9223372036854775808", "9223372036854775808", "007", "+5", "-0"])
    if k == 2:
        return rng.choice(["1.5", "150.0", "-0.0", "1e3", "2.5E-3", ".5", "5.", "1e400"])
    if k == 3:
        return rng.choice(["inf", "-inf", "nan", "NaN", "infinity", "+inf"])
    if k == 4:
        return rng.choice(["true", "false", "null", "nil", "True"])
    if k == 5:
        return rng.choice(["AAPL", "foo_bar", "a-b", "x y", "1s", "5ms"])
    if k in (6, 7):
        body = "".join(rng.choice(["a", "B", " ", "#", "//", "@", ";", ",", "{", "}", "(", ")", "[", "]", ":", "'", "\\\"", "\\\\", "\\n", "\\t", "\\q",
                                   "é", "中", "\U0001f600", "BATCH", "0"]) for _ in range(rng.below(7)))
        return '"' + body + '"'
    if k == 8:
        body = "".join(rng.choice(["a", " ", "\"", "\\'", ",", "#", "}"]) for _ in range(rng.below(5)))
        return "'" + body + "'"
    if k == 9 and depth < 3:
        return "[" + ", ".join(gen_value(rng, depth + 1, clean) for _ in range(rng.below(4))) + "]"
    if k == 10:
        return rng.choice(['"', "'", '"abc', "abc\"", "", " ", "[1, 2", "]", "\\"])
    return str(rng.range(0, 100))


def gen_evt(rng, clean=False):
    ty = rng.choice(TYPES)
    form = rng.below(10)
    if clean and form == 1:
        form = 2
    if form == 0:
        body = "(" + ", ".join(gen_value(rng, 0, clean) for _ in range(rng.below(4))) + ")"
    elif form == 1:
        body = rng.choice(["", " {", "{}", "{ }", "{ x: 1", " x: 1 }", "{ x 1 }", "{ : 1 }", "{ x: }", "{ x: 1,, y: 2 }", "{{ x: 1 }}"])
    else:
        fs = []
        for _ in range(rng.below(4)):
            fs.append(rng.choice(NAMES) + rng.choice([": ", ":", " : "]) + gen_value(rng, 0, clean))
        body = rng.choice([" ", ""]) + "{" + rng.choice([" ", ""]) + rng.choice([", ", ",", " , "]).join(fs) + rng.choice([" ", ""]) + "}"
    return ty + body + rng.choice(["", "", "", ";", ";;", " ;"])


def gen_json_value(rng, depth=0):
    k = rng.below(10)
    if k == 0:
        return rng.range(-5, 1000)
    if k == 1:
        return rng.choice([1.5, -0.0, 1e300, 2.5e-3, 18446744073709551615, 18446744073709551616, -9223372036854775808, 9223372036854775808])
    if k == 2:
        return rng.choice([True, False, None])
    if k == 3 and depth < 2:
        return [gen_json_value(rng, depth + 1) for _ in range(rng.below(3))]
    if k == 4 and depth < 2:
        return {rng.choice(NAMES): gen_json_value(rng, depth + 1) for _ in range(rng.below(3))}
    return "".join(rng.choice(["a", "Z", " ", "#", "//", "@", "\"", "\\", "\n", "é", "\U0001f600", "{", "}"]) for _ in range(rng.below(6)))


def gen_jsonl(rng, clean=False):
    form = rng.below(10)
    if clean and form == 0:
        form = 1
    if form == 0:
        return rng.choice(["{", "{}", '{"data": {"x": 1}}', '{"event_type": 5}', '{"event_type": "A", "data": 3}', '{"event_type": "A"} trailing',
                           '{"event_type": "A", "data": {"x": 1e999}}', "{ x: 1 }", '{"event_type":"A","event_type":"B"}'])
    obj = {"event_type": rng.choice(TYPES)}
    if rng.chance(4, 5):
        obj["data"] = {rng.choice(NAMES): gen_json_value(rng) for _ in range(rng.below(4))}
    if rng.chance(1, 6):
        obj["extra"] = 1
    return json.dumps(obj, ensure_ascii=rng.chance(1, 2)) + rng.choice(["", "", " "] if clean else ["", "", ";", " "])


def gen_timing(rng, clean=False):
    k = rng.below(12)
    if clean and k in (4, 5):
        return rng.choice(["@@5s", "@5ss", "@5msms", "@+7s", "@18446744073709551s", "@307445734561825m", "@18446744073709551615", "@18446744073709551615ms", "@0"])
    if k < 4:
        return "@%d%s" % (rng.below(200), rng.choice(["s", "ms", "m", ""]))
    if k == 4:
        return rng.choice(["@@5s", "@5ss", "@5msms", "@5sm", "@5ms5", "@+7s", "@-1s", "@1.5s", "@s", "@ms", "@m", "@", "@x", "@5 s", "@٥s", "@5S"])
    if k == 5:
        # around the u64 overflow boundaries of  secs*1000  and  mins*60*1000
        return rng.choice(["@18446744073709551s", "@18446744073709552s", "@307445734561825m", "@307445734561826m", "@18446744073709551615",
                           "@18446744073709551616", "@18446744073709551615ms", "@18446744073709551615s", "@307445734561825860m", "@307445734561825861m"])
    return "@%d%s" % (rng.below(10), rng.choice(["s", "ms"]))


def gen_line(rng, clean=False):
    k = rng.below(40)
    if clean and k >= 34:
        k = rng.below(34)
    if k < 9:
        body = gen_evt(rng, clean)
    elif k < 14:
        body = gen_jsonl(rng, clean)
    elif k < 22:
        # timing prefix + something
        rest = rng.below(12)
        if clean and rest in (8, 11):
            rest = 0
        if rest < 6:
            tail = gen_evt(rng, clean)
        elif rest < 8:
            tail = gen_jsonl(rng, clean)
        elif rest == 8:
            tail = rng.choice(["# c", "// c", "BATCH 5", "BATCH {}", "@1s A {}", ""])
        else:
            tail = gen_evt(rng, clean)
        seps = [" ", " ", "  ", "\t", "\u00a0", "\u3000"]
        sep = rng.choice(seps if clean else seps + [""]) if rest != 11 else ""
        body = gen_timing(rng, clean) + sep + tail
    elif k < 27:
        good = ["BATCH %d" % rng.below(500), "BATCH  %d" % rng.below(500), "BATCH\t7", "BATCH", "BATCH ", "BATCH +3", "BATCH 18446744073709551615",
                "BATCH 5 junk", "BATCH5", "BATCH5 6", "BATCH 9", "BATCH\u00a012"]
        bad = ["BATCH abc", "BATCH -1", "BATCH 1.5", "BATCH 18446744073709551616", "BATCHED { x: 1 }", "batch 5", "BATCH 10ms", "BATCH # 4"]
        body = rng.choice(good if clean else good + bad)
    elif k < 31:
        body = rng.choice(["# comment", "#", "// comment", "//", "#A { x: 1 }", "// @1s A {}", "# BATCH 5", "#@", "//BATCH x"]
                          + ([] if clean else ["/ not a comment", "/* x */", "-- x"]))
    elif k < 34:
        body = rng.choice(["", "", " ", "\t", "\u00a0", "\u3000 \t"] + ([] if clean else ["\u200b", "\ufeff"]))
    elif k < 36:
        body = rng.choice(["garbage", "A", "A x: 1", "=", "\u00e9\u00e9", ";", "A;", "}{", ")("])
    else:
        body = gen_evt(rng, clean)
    lead = rng.choice(WS) if rng.chance(1, 5) else ""
    trail = rng.choice(WS + ["\r"]) if rng.chance(1, 5) else ""
    return lead + body + trail


def gen_file(rng):
    """half of the files use only well-formed line forms (so that long files are read to the end), the rest mix in malformed ones"""
    clean = rng.chance(1, 2)
    n = rng.choice([0, 1, 1, 2, 3, 4, 5, 6, 8, 12])
    parts = []
    for i in range(n):
        eol = rng.choice(["\n", "\n", "\n", "\n", "\r\n", "\r\n", "\n\n", "\r\r\n"])
        if i == n - 1 and rng.chance(1, 3):
            eol = rng.choice(["", "\r"])
        parts.append(["lit", gen_line(rng, clean or rng.chance(2, 3)) + eol])
    return parts


def text_of(parts, limit=None):
    out = []
    for p in parts:
        out.append(p[1] if p[0] == "lit" else p[1] * p[2])
    return "".join(out)


CORPUS = [
    [["lit", "@1s A { x: 1 }\n"], ["lit", "B { y: 2 }"]],                      # DESIGN §10: streaming reader skipped the timed line
    [["lit", "BATCH abc\n"], ["lit", "A { x: 1 }\n"]],                          # preload rejected, streaming read A
    [["lit", "BATCHED { x: 1 }\n"]],
    [["lit", "@1s\n"], ["lit", "A {}\n"]],
    [["lit", "@18446744073709551615s A {}\n"]],
    [["lit", "@@5msms  {\"event_type\":\"X\",\"data\":{\"a\":1.5,\"b\":[1,\"q\"]}}\r\n"], ["lit", "# c\n"], ["lit", "// d\n"], ["lit", "\n"], ["lit", "  A(1, \"x\", foo)  \n"]],
    [["lit", "BATCH 100\n"], ["lit", "Order { id: 1, symbol: \"AAPL\" }\n"], ["lit", "@5s # not a comment\n"]],
    [["lit", "A { x: 1 }\n"], ["lit", "garbage\n"], ["lit", "B {}\n"]],
]


def oversize_corpus(maxlen):
    return [
        # comment line longer than the limit: skipped by both
        [["lit", "A { x: 1 }\n"], ["lit", "#"], ["rep", "c", maxlen], ["lit", "\n"], ["lit", "B {}\n"]],
        # event line of exactly the limit (with its newline): read by both
        [["lit", "A { x: 1 }"], ["rep", " ", maxlen - 11], ["lit", "\n"], ["lit", "B {}\n"]],
        # event line one byte over the limit: known finding (streaming skips it)
        [["lit", "A { x: 1 }"], ["rep", " ", maxlen - 10], ["lit", "\n"], ["lit", "B {}\n"]],
        # multi-byte characters count in bytes
        [["lit", "A { x: 1 }"], ["rep", "　", maxlen // 3], ["lit", "\n"], ["lit", "B {}\n"]],
    ]


def g_parts(parts):
    out = []
    for p in parts:
        if p[0] == "lit":
            out.append("Lit " + T.g_cps(p[1]))
        else:
            assert len(p[1]) == 1
            out.append("Rep %d %d" % (ord(p[1]), p[2]))
    return "[" + "; ".join(out) + "]"


def split_incl_bytes_over(parts, maxlen):
    """class predicate of the known finding: some read_line piece (split after each \\n) is longer than maxlen bytes"""
    text = text_of(parts)
    if len(text.encode("utf-8")) <= maxlen:
        return False
    pieces = text.split("\n")
    for i, p in enumerate(pieces):
        n = len(p.encode("utf-8")) + (1 if i < len(pieces) - 1 else 0)
        if n > maxlen:
            return True
    return False


def canon_events(side):
    """outcome of one reader for the property: ('ok', [(type, sorted fields)]) or ('fail',)"""
    if "ok" in side:
        return ("ok", [(e["ev"]["type"], sorted((k, json.dumps(v, sort_keys=True)) for k, v in e["ev"]["fields"])) for e in side["ok"]])
    return ("fail",)


def judge(ans):
    """The property itself, on the implementation: same events (types, field values) or both fail."""
    a, b = canon_events(ans["preload"]), canon_events(ans["stream"])
    if a == b:
        return None
    if a[0] != b[0]:
        return "preload %s, streaming %s" % (describe(ans["preload"]), describe(ans["stream"]))
    return "preload reads %d events %s, streaming reads %d events %s" % (len(a[1]), [t for t, _ in a[1]][:8], len(b[1]), [t for t, _ in b[1]][:8])


def describe(side):
    if "ok" in side:
        return "reads %d events" % len(side["ok"])
    if "panic" in side:
        return "panics (%s)" % side["panic"][:80]
    return "rejects (%s)" % side.get("err", "")[:80]


def parse_model(s):
    """P=..#S=.. -> (preload, stream) with OK lists of (off, text) / text"""
    p, st = s.split("#S=", 1)
    p = p[2:]

    def items(x, with_off):
        if not x.startswith("OK|"):
            return x
        body = x[3:]
        if body == "":
            return []
        out = []
        for it in body.split(";"):
            if with_off:
                off, t = it.split(":", 1)
                out.append((off, T.from_cps(t)))
            else:
                out.append(T.from_cps(it))
        return out
    return items(p, True), items(st, False)


def impl_side(side, with_off):
    if "ok" in side:
        return [((e["off"], e["ev"]) if with_off else e["ev"]) for e in side["ok"]]
    return "PANIC" if "panic" in side else "REJECT"


def check(run):
    maxlen = T.repo_const("crates/varpulis-runtime/src/limits.rs", "MAX_LINE_LENGTH")
    run.rule = ("event files assembled from the documented line forms (plain/positional events, BATCH n, @N[s|ms|m] prefixes, JSONL, comments, blank and "
                "whitespace-only lines, semicolons, CRLF, unicode whitespace, malformed variants of each), corpus of earlier failures and four files around "
                "the line-length limit; non-trivial = the preload reader returns >= 2 events from >= 3 lines or rejects after >= 2 lines; distinct = distinct file text")
    run.trusted += ["Coq 8.16.1 kernel + vm_compute",
                    "hand-written model coq/theories/Text/EventFile.v (+ Text/Str.v string operations) tied by differential run against both readers",
                    "event-line parsers parse_event_line/parse_jsonl_line are abstract in the model; in the differential run they are instantiated from the real "
                    "parser reached through EventFileParser::parse(\"@0 <text>\")",
                    "MAX_LINE_LENGTH read from crates/varpulis-runtime/src/limits.rs on every run",
                    "Rust harness harness/crates/text, Python driver checks/C46.py (generators, reader-vs-reader oracle)"]
    run.assumptions += ["file is valid UTF-8 in the model (invalid UTF-8 is exercised against the implementation only: both readers must fail)",
                        "u64 overflow in the timing prefix panics (debug / overflow-checks build); a release build wraps instead — in both readers alike",
                        "streaming reader result = events up to the first Err, which rejects the file (what `varpulis simulate --immediate` does)"]
    binpath = T.build_all(run, ["theories/Text/EventFileProps.vo", "theories/Text/EventFileRun.vo"], "C46.v")
    if binpath is None:
        return
    rng = run.rng
    cases = [c for c in CORPUS] + oversize_corpus(maxlen)
    n = 700 if run.tier == "quick" else 6000
    for _ in range(n):
        cases.append(gen_file(rng))
    run_cases(run, binpath, cases, maxlen)
    # invalid UTF-8: outside the model, both readers must fail
    byte_cases = []
    for _ in range(40 if run.tier == "quick" else 400):
        b = list(text_of(gen_file(rng)).encode("utf-8"))
        pos = rng.below(len(b) + 1)
        b[pos:pos] = rng.choice([[0xff], [0xc3], [0xe2, 0x82], [0xed, 0xa0, 0x80], [0x80]])
        byte_cases.append(b)
    answers = harness.run_jsonl(binpath, [{"kind": "eventfile", "bytes": b} for b in byte_cases])
    for b, ans in zip(byte_cases, answers):
        run.case(None)
        run.count("form=invalid-utf8")
        why = judge(ans)
        if why:
            run.violation("invalid UTF-8 file: " + why, {"kind": "eventfile", "bytes": b, "implementation": ans})


def run_cases(run, binpath, cases, maxlen):
    answers = harness.run_jsonl(binpath, [{"kind": "eventfile", "parts": c} for c in cases])
    # ---- oracle: the property on the implementation
    nviol = 0
    for c, ans in zip(cases, answers):
        text = text_of(c) if sum(p[2] for p in c if p[0] == "rep") == 0 else None
        pre = ans["preload"]
        nlines = len(c)
        nontrivial = None
        if text is not None and (("ok" in pre and len(pre["ok"]) >= 2 and nlines >= 3) or ("ok" not in pre and nlines >= 2)):
            nontrivial = text
        run.case(nontrivial, sample={"file": text[:300], "preload": describe(pre), "stream": describe(ans["stream"])} if text is not None and len(run.samples) < 3 else None)
        count_forms(run, c, ans)
        why = judge(ans)
        if why:
            run.count("oracle_fail")
            nviol += 1
            if nviol <= 4:
                def still(parts):
                    a = harness.run_jsonl(binpath, [{"kind": "eventfile", "parts": parts}])[0]
                    return judge(a) is not None
                small = T.shrink_list(c, still) if len(c) <= 40 else c
                a = harness.run_jsonl(binpath, [{"kind": "eventfile", "parts": small}])[0]
                classes = ["oversize-line"] if split_incl_bytes_over(small, maxlen) else []
                shown = small if sum(p[2] for p in small if p[0] == "rep") else text_of(small)
                run.violation("event file %r: %s" % (shown if isinstance(shown, str) else "<parts>", judge(a)),
                              {"kind": "eventfile", "parts": small, "implementation": {k: describe(v) for k, v in a.items()},
                               "contradicts": "C46_same (coq/theories/Text/EventFileProps.v)"}, classes=classes)
    run.extra["oracle_failures"] = nviol
    # ---- correspondence: model vs each reader
    try:
        phase1 = coqtools.coq_eval("C46a", IMPORTS, ["ef_requests %s" % g_parts(c) for c in cases], shard=max(10, len(cases) // 16 + 1))
    except RuntimeError as e:
        run.tie_broken("model evaluation (coqc cases, phase 1)", str(e))
        return
    texts = {}
    per_case = []
    for s in phase1:
        mine = [T.from_cps(t) for t in s.split(";")] if s != "" else []
        per_case.append(mine)
        for t in mine:
            texts.setdefault(t, None)
    keys = list(texts)
    for k, a in zip(keys, harness.run_jsonl(binpath, [{"kind": "evline", "text": k} for k in keys])):
        texts[k] = a
        run.count("event-line=" + ("ok" if "ok" in a else "rejected"))
    exprs = []
    for c, mine in zip(cases, per_case):
        bad = sorted({t for t in mine if "ok" not in texts[t]})
        exprs.append("ef_case %d [%s] %s" % (maxlen, "; ".join(T.g_cps(b) for b in bad), g_parts(c)))
    try:
        phase2 = coqtools.coq_eval("C46b", IMPORTS, exprs, shard=max(10, len(cases) // 16 + 1))
    except RuntimeError as e:
        run.tie_broken("model evaluation (coqc cases, phase 2)", str(e))
        return
    ndis = 0
    for c, ans, s in zip(cases, answers, phase2):
        mp, ms = parse_model(s)
        if isinstance(mp, list):
            mp = [(off, texts[t].get("ok")) for off, t in mp]
        if isinstance(ms, list):
            ms = [texts[t].get("ok") for t in ms]
        ip, is_ = impl_side(ans["preload"], True), impl_side(ans["stream"], False)
        if isinstance(ip, list):
            ip = [(off, ev) for off, ev in ip]
        if mp != ip or ms != is_:
            ndis += 1
            if ndis <= 3:
                shown = text_of(c) if sum(p[2] for p in c if p[0] == "rep") == 0 else "<parts %s>" % [(p[0], len(p[1]) if p[0] == "lit" else p[2]) for p in c]
                which = "preload" if mp != ip else "streaming"
                run.tie_broken("correspondence Text/EventFile.v vs event_file.rs (%s reader) on file %r" % (which, shown),
                               "model %s\n impl  %s" % (json.dumps(mp if mp != ip else ms)[:800], json.dumps(ip if mp != ip else is_)[:800]))
    run.extra["disagreements"] = run.extra.get("disagreements", 0) + ndis


def count_forms(run, parts, ans):
    for p in parts:
        if p[0] != "lit":
            run.count("form=huge-line")
            continue
        l = p[1].strip()
        if l == "":
            f = "blank"
        elif l.startswith("#") or l.startswith("//"):
            f = "comment"
        elif l.startswith("BATCH"):
            f = "batch"
        elif l.startswith("@"):
            f = "timed"
        elif l.startswith("{"):
            f = "jsonl"
        else:
            f = "event"
        run.count("form=" + f)
        if ";" in l:
            run.count("has-semicolon")
    run.count("lines=%d" % min(len(parts), 12))
    run.count("preload=" + ("ok" if "ok" in ans["preload"] else "panic" if "panic" in ans["preload"] else "reject"))
    run.count("stream=" + ("ok" if "ok" in ans["stream"] else "panic" if "panic" in ans["stream"] else "reject"))


def replay(run, path):
    r = json.load(open(path))["replay"]
    maxlen = T.repo_const("crates/varpulis-runtime/src/limits.rs", "MAX_LINE_LENGTH")
    ok, bindir, lg = harness.build(T.BIN)
    import os
    binpath = os.path.join(bindir, T.BIN)
    req = {"kind": "eventfile", "bytes": r["bytes"]} if "bytes" in r else {"kind": "eventfile", "parts": r["parts"]}
    ans = harness.run_jsonl(binpath, [req])[0]
    run.case(("replay",), req if "bytes" in r else {"file": text_of(r["parts"])[:300]})
    why = judge(ans)
    if why:
        classes = ["oversize-line"] if "parts" in r and split_incl_bytes_over(r["parts"], maxlen) else []
        run.violation(why, {**req, "implementation": {k: describe(v) for k, v in ans.items()}}, classes=classes)
