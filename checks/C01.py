"""C01 — every reported pattern match is a genuine occurrence of the pattern."""
from checks import sase_common as S

META = {
    "technique": "Coq proof (run invariant preserved by every branch of the run-advance function, lifted over all event streams) + model/impl differential on generated sequence programs",
    "design_ref": "DESIGN.md §7 C01",
    "level_text": "Theorems C01_* in coq/theories/Sase/Props.v about the executable model of the SASE engine; the model is tied to sase.rs by comparing, per event, every match (stack, captures, Kleene combination) and the run counters",
    "level_note": "C01_matches_are_occurrences covers step order, event types, step filters (with captures) and .not clauses for every pattern/stream/configuration of the model; the partition clause is C04_matches_single_key (coq/theories/Sase/Props.v), audited by coq/audit/C04.v. Predicate::Expr filters, .within, event-time mode, AND/OR/NOT pattern operators are outside the modelled class. Floats restricted to multiples of 0.5. Trusted: Coq kernel + vm_compute, hand-written model (differential tie), harness, Python reference judge",
}


def judge(prog, events, ans):
    if "panic" in ans:
        return ["implementation panicked: " + ans["panic"]]
    out = []
    for k, ms in enumerate(S.parse_matches(ans)):
        for m in ms:
            if m["stack"] and m["stack"][-1] > k:
                out.append("match %s reported at event %d before its last event arrived" % (m["stack"], k))
            out += S.check_match_genuine(prog, events, m)
    return out


def cases_for(run):
    rng = run.rng
    cases = []
    n = 220 if run.tier == "quick" else 2500
    for i in range(n):
        prog = S.gen_prog(rng, allow_all=(i % 2 == 0), allow_self=False)
        keys = [("i", k) if i % 4 else ("s", k) for k in range(rng.range(1, 3))] if prog["partition"] else None
        cases.append((prog, S.gen_events(rng, rng.range(4, 14), keys=keys, prog=prog)))
    # directed class (seed C01-negation-only-own-partition): a partitioned pattern with a .not clause whose forbidden
    # event arrives, under ANOTHER partition value (or without the field), between the events of an otherwise complete run
    for i in range(40 if run.tier == "quick" else 600):
        cases.append(gen_cross_partition_neg(rng, strings=(i % 3 == 0)))
    return cases


def gen_cross_partition_neg(rng, strings):
    n = rng.range(2, 3)
    tys = [S.TYPES[rng.below(3)] for _ in range(n)]
    steps = [{"ty": t, "alias": S.ALIASES[j], "all": False,
              "pred": S.gen_pred(rng, [S.ALIASES[q] for q in range(j)], S.ALIASES[j], 0, False) if rng.chance(1, 4) else None}
             for j, t in enumerate(tys)]
    nty = S.TYPES[3] if rng.chance(3, 4) else S.TYPES[rng.below(3)]
    neg = {"ty": nty, "pred": S.gen_pred(rng, [], None, 0, False) if rng.chance(1, 4) else None}
    prog = S.default_prog(steps, [neg], "k")
    kind = "s" if strings else "i"
    k0, k1 = (kind, 0), (kind, 1)

    def ev(ty, key):
        f = {name: S.gen_value(rng, name) for name in ("x", "y", "s")}
        if key is not None:
            f["k"] = key
        return {"ty": ty, "f": f}
    evs = [ev(S.TYPES[rng.below(4)], rng.choice([k0, k1])) for _ in range(rng.below(3))]
    cut = rng.range(1, n - 1)
    for j, t in enumerate(tys):
        if j == cut:
            evs.append(ev(nty, k1 if rng.chance(4, 5) else None))
        evs.append(ev(t, k0))
        if rng.chance(1, 4):
            evs.append(ev(S.TYPES[rng.below(3)], k1))
    evs += [ev(S.TYPES[rng.below(4)], rng.choice([k0, k1])) for _ in range(rng.below(3))]
    for i, e in enumerate(evs):
        e["id"] = i
    return prog, evs


def check(run):
    run.rule = ("random 2-4 step sequence programs (optional all, Compare/CompareRef/And/Or/Not filters on constants and earlier aliases, optional "
                "partition_by, optional .not) x random streams of 4-14 events that follow the pattern's type order 60% of the time; non-trivial = at "
                "least one match reported; distinct = distinct (program, stream)")
    run.trusted += ["Coq 8.16.1 kernel + vm_compute", "hand-written model coq/theories/Sase/Model.v (tied by differential run)",
                    "harness/crates/sase, checks/sase_common.py (generator, reference judge)"]
    binpath = S.build(run, "C01.v")
    if binpath is None:
        return
    S.drive(run, binpath, cases_for(run), "C01", judge, contradicts="C01_* in coq/theories/Sase/Props.v")


def replay(run, path):
    S.replay_case(run, path, judge)
