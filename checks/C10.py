"""C10 — compile-time constant folding never changes what an expression computes."""
import json
import os

from checks import expr_common as X
from vplib import coqtools, harness

AXIOMS = ("ClassicalDedekindReals.sig_not_dec", "ClassicalDedekindReals.sig_forall_dec",
          "FunctionalExtensionality.functional_extensionality_dep", "Classical_Prop.classic")

META = {
    "technique": "Coq proof (induction on the expression; fold rules and evaluator arms regenerated from the Rust source by translators) + model/impl differential on ASTs and on real programs (parse vs parse_unfolded, Engine)",
    "design_ref": "DESIGN.md §7 C10",
    "level_text": "Theorem C10_fold_sound (coq/theories/Expr/PropsC10.v): for every expression e outside the known-finding class Known_C10_identity (a type-blind identity rewrite x*0, 0*x, x*1, 1*x, x+0, 0+x, x-0, x/1 fires while folding e; C10_identity_refuted shows the class is a genuine defect, pinned by optimize.rs's unit tests) the folder returns some e' (it never panics) and on every event eval(e') = eval(e) -- same value, same absence of a value -- for every implementation of the f64 operations; C10_fold_sound_b64 is the binary64 instance that is run against the implementation. The folder's rule table and the evaluator's arithmetic arms are regenerated from optimize.rs / evaluator.rs on every run and the theorem is re-proved against them",
    "level_note": "Floats: the theorems hold for an abstract f64 interface (any total implementation of + - * / % powi powf neg ...), which is all C10 needs (folder and evaluator use the same operations); the correspondence check runs the Flocq binary64 instance (exact for + - * / % sqrt floor ceil round casts powi comparisons; powf/ln/exp/sin/cos/tan/parse::<f64> are not modelled and expressions that may reach them are judged by the oracle only). Modelled by hand and tied by digest to the source (translate/expr_shape.json, fold_shape.json) + differential run: fold_expr's recursion, every non-arithmetic evaluator arm, the built-ins. Not modelled: user-defined functions / statement interpreter (fold_stmt on fn bodies), SequenceContext and bindings (empty at .where/.emit), the pest parser (parse_unfolded hook, checked against parse on every program: parse(t) = fold_program(parse_unfolded(t))). Trusted: Coq kernel + vm_compute, 4 standard-library axioms under Flocq (instance theorem only), translators, harness, Python driver",
}

CORPUS = [
    # DESIGN.md §10: type-blind identity rewrites and literal folds that disagreed with the evaluator
    ({"bin": ["Mul", {"id": "price"}, {"i": "0"}]}, [{"type": "A", "fields": [["price", {"f": str(X.f_bits(2.5))}]]}]),
    ({"bin": ["Add", {"id": "name"}, {"i": "0"}]}, [{"type": "A", "fields": [["name", {"s": "n"}]]}]),
    ({"bin": ["Mul", {"id": "name"}, {"i": "1"}]}, [{"type": "A", "fields": [["name", {"s": "n"}]]}]),
    ({"bin": ["Sub", {"id": "price"}, {"i": "0"}]}, [{"type": "A", "fields": [["price", {"f": str(X.f_bits(-0.0))}]]}, {"type": "A", "fields": []}]),
    ({"bin": ["Div", {"id": "flag"}, {"i": "1"}]}, [{"type": "A", "fields": [["flag", {"b": True}]]}]),
    ({"bin": ["Mul", {"i": "0"}, {"id": "price"}]}, [{"type": "A", "fields": [["price", {"f": str(X.f_bits(float("inf")))}]]}]),
    ({"bin": ["Pow", {"i": "2"}, {"i": "63"}]}, [{"type": "A", "fields": []}]),
    ({"bin": ["Pow", {"i": "3"}, {"i": "34"}]}, [{"type": "A", "fields": []}]),
    ({"bin": ["Pow", {"i": "2"}, {"i": "4294967296"}]}, [{"type": "A", "fields": []}]),
    ({"bin": ["Div", {"i": str(X.I64_MIN)}, {"i": "-1"}]}, [{"type": "A", "fields": []}]),
    ({"bin": ["Mod", {"i": str(X.I64_MIN)}, {"i": "-1"}]}, [{"type": "A", "fields": []}]),
    ({"un": ["Neg", {"i": str(X.I64_MIN)}]}, [{"type": "A", "fields": []}]),
    ({"bin": ["Add", {"i": str(X.I64_MAX)}, {"i": "1"}]}, [{"type": "A", "fields": []}]),
    ({"bin": ["Mul", {"i": str(X.I64_MAX)}, {"i": "2"}]}, [{"type": "A", "fields": []}]),
    ({"mem": [{"bin": ["Mul", {"id": "m"}, {"i": "1"}]}, "a"]}, [{"type": "A", "fields": [["m.a", {"i": "5"}]]}]),
    ({"call": [{"bin": ["Add", {"id": "abs"}, {"i": "0"}]}, [{"i": "-3"}]]}, [{"type": "A", "fields": []}]),
]
PROGRAM_CORPUS = [
    (None, [("y", {"bin": ["Mul", {"id": "price"}, {"i": "0"}]}), ("z", {"bin": ["Add", {"id": "name"}, {"i": "0"}]}),
            ("w", {"bin": ["Pow", {"i": "2"}, {"i": "63"}]})],
     [{"type": "A", "fields": [["price", {"f": str(X.f_bits(2.5))}], ["name", {"s": "n"}]]}]),
    (None, [("y", {"bin": ["Div", {"bin": ["Sub", {"un": ["Neg", {"i": str(X.I64_MAX)}]}, {"i": "1"}]}, {"un": ["Neg", {"i": "1"}]}]})],
     [{"type": "A", "fields": []}]),
    (None, [("y", {"bin": ["Mul", {"id": "x"}, {"i": "1"}]})], [{"type": "A", "fields": []}, {"type": "A", "fields": [["x", {"s": "q"}]]}]),
    ({"bin": ["Eq", {"bin": ["Mul", {"id": "x"}, {"i": "0"}]}, {"i": "0"}]}, [("k", {"i": "1"})],
     [{"type": "A", "fields": [["x", {"f": str(X.f_bits(float("nan")))}]]}, {"type": "A", "fields": [["x", {"i": "4"}]]}, {"type": "A", "fields": [["x", {"s": "4"}]]}]),
]


def gen_cases(run):
    rng = run.rng
    quick = run.tier == "quick"
    n_ast = 420 if quick else 6000
    n_prog = 110 if quick else 600
    g = X.Gen(rng, "fold")
    cases = list(CORPUS)
    while len(cases) < len(CORPUS) + n_ast:
        e = g.expr(rng.range(1, 3) if rng.chance(4, 5) else 4)
        if X.has_big_range(e):
            continue
        cases.append((e, [X.gen_event(rng) for _ in range(3)]))
    gt = X.Gen(rng, "fold", text=True)
    progs = list(PROGRAM_CORPUS)
    while len(progs) < len(PROGRAM_CORPUS) + n_prog:
        shape = rng.below(3)
        evs = [X.gen_event(rng) for _ in range(3)]
        if shape == 0:
            p = (None, [("y", gt.expr(rng.range(1, 3)))], evs)
        elif shape == 1:
            p = (gt.expr(rng.range(1, 3)), [("k", {"i": "1"})], evs)
        else:
            p = (gt.expr(rng.range(1, 2)), [("y", gt.expr(rng.range(1, 3))), ("z", gt.expr(rng.range(1, 2)))], evs)
        exprs = ([p[0]] if p[0] is not None else []) + [x for _, x in p[1]]
        if any(X.has_big_range(x) for x in exprs):
            continue
        progs.append(p)
    return cases, progs


def check(run):
    run.rule = ("expressions of depth <= 4 mixing literals (0, 1, -1, i64 extremes, special floats) with field references of every value type, "
                "each on 3 events with boundary field values: (a) ASTs through optimize::fold_program + the evaluator API, (b) VPL programs "
                "(.where / .emit) through parse vs parse_unfolded and the Engine; non-trivial = the folder changed the expression, or the "
                "expression has an operator and yields a value on some event; distinct = distinct expression")
    run.trusted += ["Coq 8.16.1 kernel + vm_compute",
                    "translators translate/fold_rules.py (optimize.rs fold_binary/fold_unary rule tables) and translate/expr_arms.py (evaluator.rs arithmetic/ordering/negation arms, built-in list, fallthrough arm); digests of the hand-modelled arms in translate/*_shape.json",
                    "hand-written model coq/theories/Expr/Model.v tied by differential run (folded AST and every evaluation outcome compared verbatim, floats by bits)",
                    "Flocq binary64 instance coq/theories/Expr/B64.v (powf, ln, exp, sin, cos, tan, parse::<f64> not modelled: oracle only)",
                    "hook varpulis_parser::pest_parser::parse_unfolded (checked against parse on every generated program)",
                    "Rust harness harness/crates/expr, Python driver checks/expr_common.py"]
    run.assumptions += ["no user-defined functions, empty SequenceContext and bindings (the .where / .emit call sites)",
                        "collection lengths fit i64 (model uses unbounded Z for lengths)"]
    binpath, model_ok, fold_ok = X.build_all(run, ["theories/Expr/PropsC10.vo"], "C10.v", AXIOMS)
    if binpath is None:
        return
    cases, progs = gen_cases(run)
    shown = {"c10": 0, "corr": 0, "hook": 0, "known": 0}
    n_fail = 0
    ast_out, prog_out = X.run_all(run, binpath, "C10", cases, progs)
    for e, evs, a, m, v in ast_out:
        key = X.r_expr(e)
        changed = "folded" in a and "panic" not in a.get("folded", {}) and X.r_expr(a["folded"]) != key if "abort" not in a else False
        has_val = "res" in a and any("v" in r[0] for r in a["res"])
        nontrivial = key if (changed or (has_val and any(k in ("bin", "un", "call", "if", "idx") for s in X.subexprs(e) for k in s))) else None
        run.case(nontrivial, {"expr": X.to_text(e), "folded": X.short(X.impl_fold_str(a), 200) if "abort" not in a else "abort"} if changed else None)
        run.count("ast")
        run.count("folder-changed" if changed else "folder-unchanged")
        run.count("depth=%d" % X.depth_of(e))
        for b in X.classify_expr(e):
            if b.startswith("op="):
                run.count(b)
        for ev in evs:
            for _, fv in ev["fields"][:3]:
                run.count("field-type=" + next(iter(fv)))
        if v["c10"]:
            n_fail += 1
            known = m["known"] if m is not None else X.py_identity_fires(e)[0]
            run.count("oracle_fail(known class)" if known else "oracle_fail")
            if known:
                if shown["known"] < 2:
                    shown["known"] += 1
                    run.violation("folding changes what the expression computes: " + "; ".join(v["c10"])[:500],
                                  {"kind": "ast", "expr": e, "expr_text": X.to_text(e), "events": evs, "implementation": a},
                                  classes=[X.KNOWN_IDENTITY])
            elif shown["c10"] < 3:
                shown["c10"] += 1
                base = X.ast_still(binpath, "c10")
                se, sev = X.shrink_expr(e, evs, lambda x, y: base(x, y) and not X.py_identity_fires(x)[0])
                sa = X.run_resilient(binpath, [{"op": "eval", "expr": se, "events": sev}])[0]
                msgs = X.judge_ast(se, sev, sa, None)["c10"]
                sm = X.model_eval(run, "C10s", [(se, sev)])[0]
                sknown = sm["known"] if sm is not None else X.py_identity_fires(se)[0]
                run.violation("folding changes what the expression computes: " + "; ".join(msgs)[:500],
                              {"kind": "ast", "expr": se, "expr_text": X.to_text(se), "events": sev, "implementation": sa,
                               "contradicts": "C10_fold_sound (coq/theories/Expr/PropsC10.v)"},
                              classes=[X.KNOWN_IDENTITY] if sknown else [])
        if v["corr"] and shown["corr"] < 3:
            shown["corr"] += 1
            run.tie_broken("correspondence Expr/Model.v vs optimize.rs/evaluator.rs on %s" % X.short(X.to_text(e), 200), "; ".join(v["corr"])[:1500] + " events=" + X.short(evs, 600))
    for c, a, v in prog_out:
        where, emits, evs, text = c
        run.case(("prog", text) if "out" in a.get("run_folded", {}) and any(a["run_folded"]["out"]) else None,
                 {"program": text} if run.evaluations % 97 == 0 else None)
        run.count("program")
        if v["hook"] and shown["hook"] < 2:
            shown["hook"] += 1
            run.tie_broken("hook parse_unfolded", v["hook"][0])
        if v["c10"]:
            n_fail += 1
            exprs = ([where] if where is not None else []) + [x for _, x in emits]
            known = any(X.py_identity_fires(x)[0] for x in (a["unfolded"] if isinstance(a.get("unfolded"), list) else exprs))
            run.count("oracle_fail(known class)" if known else "oracle_fail")
            if (known and shown["known"] < 4) or (not known and shown["c10"] < 5):
                shown["known" if known else "c10"] += 1
                run.violation("folding changes what the program computes: " + "; ".join(v["c10"])[:500],
                              {"kind": "program", "vpl": text, "events": evs, "implementation": {k: a.get(k) for k in ("folded", "unfolded", "run_folded", "run_unfolded")},
                               "contradicts": "C10_fold_sound (coq/theories/Expr/PropsC10.v)"},
                              classes=[X.KNOWN_IDENTITY] if known else [])
        if v["corr"] and shown["corr"] < 5:
            shown["corr"] += 1
            run.tie_broken("correspondence Expr/Model.v vs parser+Engine on %s" % X.short(text, 200), "; ".join(v["corr"])[:1500] + " events=" + X.short(evs, 600))
    run.extra["oracle_failures"] = n_fail


def replay(run, path):
    r = json.load(open(path))["replay"]
    ok, bindir, lg = harness.build("vp-expr")
    binpath = os.path.join(bindir, "vp-expr")
    if r["kind"] == "ast":
        a = X.run_resilient(binpath, [{"op": "eval", "expr": r["expr"], "events": r["events"]}])[0]
        msgs = X.judge_ast(r["expr"], r["events"], a, None)["c10"]
    else:
        a = X.run_resilient(binpath, [{"op": "program", "vpl": r["vpl"], "events": r["events"]}])[0]
        msgs = X.judge_program((None, [], r["events"], r["vpl"]), a, None)["c10"]
    run.case(("replay",), {"replay": r.get("expr_text") or r.get("vpl")})
    run.case(("replay2",))
    if msgs:
        if r["kind"] == "ast":
            known = X.py_identity_fires(r["expr"])[0]
        else:
            known = isinstance(a.get("unfolded"), list) and any(X.py_identity_fires(x)[0] for x in a["unfolded"])
        run.violation("; ".join(msgs)[:600], dict(r, implementation=a), classes=[X.KNOWN_IDENTITY] if known else [])
