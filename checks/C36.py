"""C36 — a restarted coordinator recovers exactly its applied Raft state (RocksStore, crash after every storage write)."""
import concurrent.futures
import copy
import json
import os

from checks import raft_common as R
from vplib import harness

META = {
    "technique": "Coq proof (invariant over histories of storage calls with a crash after every RocksDB write: recovery = replay of the "
                 "committed log up to the recorded applied position) + model/impl differential on a real RocksDB directory with the "
                 "cfg(varpulis_verif) crash-point hook",
    "design_ref": "DESIGN.md §7 C36",
    "level_text": "proof",
    "level_note": "Proved in Coq for the model: for every protocol-conforming history (append / delete-conflict / apply / build / install / "
                  "purge <= snapshot / vote) and a crash before or after any of its writes, reopening yields the state machine obtained by "
                  "replaying the committed log up to the persisted last_applied, and vote/log/purge position are the persisted ones. "
                  "Modelled, not proved: RocksDB WriteBatch atomicity and WAL recovery after a process crash (crash = panic after the write, "
                  "store dropped, directory reopened in the same process), serde_json round trips. Tested: model = implementation after every "
                  "crash point of generated histories; oracle: recovered state = real apply_command folded over the committed entries up to the "
                  "recovered applied index.",
}


# ------------------------------------------------------------------ reference of the protocol (history generator + oracle)
class Ref:
    """What openraft guarantees about the call sequence (Raft/ProofsRecover.v wf_op), and what must be on disk after each call.
    The committed log G has indices 0..n-1; cnt(logid) = index + 1 = number of entries covered."""

    def __init__(self, G):
        self.G = G
        self.log = {}                   # index -> entry
        self.purged = None              # logid
        self.vote = None
        self.applied = None             # logid
        self.snap = None                # logid of the last built/installed snapshot
        self.has_snap = False

    @staticmethod
    def cnt(l):
        return 0 if l is None else l[2] + 1

    def next_index(self):
        return max(self.log) + 1 if self.log else self.cnt(self.purged)

    def ok(self, op):
        """precondition of the call under the openraft protocol"""
        k = op[0]
        a = self.cnt(self.applied)
        if k in ("vote", "build"):
            return True
        if k == "append":
            nxt = self.next_index()
            return (bool(op[1]) and [e[0][2] for e in op[1]] == list(range(nxt, nxt + len(op[1]))) and nxt >= a
                    and nxt >= self.cnt(self.snap))
        if k == "delete":
            return op[1][2] >= a
        if k == "purge":
            return self.has_snap and self.cnt(self.purged) <= op[1][2] < self.cnt(self.snap)
        if k == "apply":
            es = op[1]
            return bool(es) and es == self.G[a:a + len(es)] and all(self.log.get(e[0][2]) == e for e in es)
        if k == "install":
            s = len(op[1])
            return s > a and op[1] == self.G[:s]
        return False

    def step(self, op):
        k = op[0]
        if k == "vote":
            self.vote = [op[1][0], op[1][1], bool(op[1][2])]
        elif k == "append":
            for e in op[1]:
                self.log[e[0][2]] = e
        elif k == "delete":
            self.log = {i: e for i, e in self.log.items() if i < op[1][2]}
        elif k == "purge":
            self.log = {i: e for i, e in self.log.items() if i > op[1][2]}
            self.purged = tuple(op[1])
        elif k == "apply":
            self.applied = op[1][-1][0]
        elif k == "build":
            self.snap, self.has_snap = self.applied, True
        elif k == "install":
            self.applied = op[1][-1][0]
            self.snap, self.has_snap = self.applied, True

    def view(self):
        return {"vote": self.vote, "purged": None if self.purged is None else list(self.purged),
                "log": {i: list(e[0]) for i, e in self.log.items()}, "applied": None if self.applied is None else list(self.applied)}


def gen_history(rng, maxops):
    n = rng.range(3, 9)
    G = R.gen_log(rng, n, start=0)
    ref = Ref(G)
    ops = []
    diverged = None                      # first index holding an uncommitted entry of a deposed leader
    tries = 0
    while len(ops) < maxops and tries < 300:
        tries += 1
        k = rng.below(16)
        a = ref.cnt(ref.applied)
        op = None
        if k <= 3:
            nxt = ref.next_index()
            cnt = rng.range(1, 3)
            es = []
            for j in range(nxt, nxt + cnt):
                if diverged is None and j < n and not rng.chance(1, 10):
                    es.append(G[j])
                else:
                    if diverged is None:
                        diverged = j
                    es.append(((20 + rng.below(3), 2, j), R.gen_payload(rng)))
            op = ("append", es)
        elif k <= 5:
            if diverged is not None:
                op = ("delete", ref.log[diverged][0] if diverged in ref.log else (1, 1, diverged))
            elif ref.next_index() > a and rng.chance(1, 2):
                j = rng.range(a, ref.next_index() - 1)
                op = ("delete", ref.log[j][0] if j in ref.log else (1, 1, j))
        elif k <= 9:
            avail = 0
            while a + avail < n and ref.log.get(a + avail) == G[a + avail]:
                avail += 1
            if avail:
                op = ("apply", G[a:a + rng.range(1, avail)])
        elif k == 10:
            op = ("build",)
        elif k == 11:
            if a < n:
                lo = a + 1
                if diverged is not None and diverged + 1 <= n and rng.chance(2, 3):
                    lo = max(lo, diverged + 1)          # snapshot beyond stale uncommitted entries that stay in the log
                op = ("install", G[:rng.range(lo, n)])
        elif k <= 14:
            lo, hi = ref.cnt(ref.purged), ref.cnt(ref.snap)
            if ref.has_snap and hi > lo:
                p = rng.choice([hi - 1, rng.range(lo, hi - 1)])
                op = ("purge", G[p][0])
        else:
            op = ("vote", (rng.below(6), rng.range(1, 3), rng.chance(1, 2)))
        if op is None or not ref.ok(op):
            continue
        if op[0] == "delete" and diverged is not None and op[1][2] <= diverged:
            diverged = None
        ref.step(op)
        ops.append(op)
    return G, ops


def wf(G, ops):
    ref = Ref(G)
    for op in ops:
        if not ref.ok(op):
            return False
        ref.step(op)
    return True


# ------------------------------------------------------------------ oracle
def judge(G, ops, ans):
    """the property text on one crash run: recovered state = commands up to the recovered applied position;
    vote / log / purge position are those persisted (those before the interrupted call or those after it)"""
    if "panic" in ans or "error" in ans:
        return ["implementation failed: %s" % (ans.get("panic") or ans.get("error"))]
    post = ans["post"]
    j = ans["crashed_in"] if ans["crashed"] else len(ops)
    ref = Ref(G)
    for op in ops[:j]:
        ref.step(op)
    before = ref.view()
    after = before
    if j < len(ops):
        r2 = copy.deepcopy(ref)
        r2.step(ops[j])
        after = r2.view()
    f = []
    if R.s_state(post["state"]) != R.s_state(ans["expected_state"]):
        f.append("recovered state %s is not the state of the committed commands up to the recovered applied position %s: %s" % (
            R.s_state(post["state"])[:300], post["applied"], R.s_state(ans["expected_state"])[:300]))
    if post["applied"] not in (before["applied"], after["applied"]):
        f.append("recovered last_applied %s, persisted was %s (before the interrupted call) / %s (after it)" % (post["applied"], before["applied"], after["applied"]))
    if post["vote"] not in (before["vote"], after["vote"]):
        f.append("recovered vote %s, persisted was %s / %s" % (post["vote"], before["vote"], after["vote"]))
    plog = {e["id"][2]: e["id"] for e in post["log"]}
    cands = [(before["purged"], before["log"]), (after["purged"], after["log"])]
    okay = (post["purged"], plog) in cands
    if not okay and post["purged"] == after["purged"]:
        # a purge that records its position first and deletes afterwards leaves a harmless superset
        okay = all(plog.get(i) == l for i, l in after["log"].items()) and all(before["log"].get(i) == l for i, l in plog.items())
    if not okay:
        f.append("recovered log %s with purge position %s; persisted was log %s / purged %s (before the interrupted call) or log %s / purged %s (after it)" % (
            sorted(plog), post["purged"], sorted(before["log"]), before["purged"], sorted(after["log"]), after["purged"]))
    return f


# ------------------------------------------------------------------ check
def crash_req(G, ops, k):
    return {"mode": "crash", "ops": [R.op_serde(o) for o in ops], "crash_at": k, "ground": [R.entry_serde(e) for e in G]}


def run_parallel(binpath, reqs, nproc=6, chunk=30):
    return R.run_batched(binpath, reqs, chunk=chunk, nproc=nproc)


REPORTED = set()


def corpus(rng):
    """the histories that failed on the unchanged tree"""
    G = R.gen_log(rng, 4, start=0)
    return [(G, [("append", G[:3]), ("apply", G[:3]), ("build",), ("purge", G[2][0])]),          # state applied before a purge
            (G, [("append", G[:3]), ("apply", G[:2]), ("build",), ("purge", G[1][0]), ("apply", G[2:3])]),
            (G, [("append", G[:1]), ("install", G[:3]), ("purge", G[2][0]), ("append", G[3:4]), ("apply", G[3:4])]),   # installed snapshot
            (G, [("install", G[:2]), ("vote", (2, 1, True))]),
            # uncommitted entries of a deposed leader still in the log below an installed snapshot: must not be replayed
            (G, [("append", [G[0], ((20, 2, 1), ("c", ("GroupDeployed", 3, 12345))), ((20, 2, 2), ("c", ("ScalingPolicySet", (777,))))]),
                 ("apply", G[:1]), ("install", G[:3]), ("vote", (21, 1, False))])]


def check(run):
    run.rule = ("protocol-conforming histories (<= 9 committed entries, <= 10 calls: append incl. uncommitted entries of a deposed leader, "
                "delete-conflict, apply batches, build snapshot, install snapshot, purge up to the snapshot, vote) on a real RocksDB directory, "
                "each re-run once per RocksDB write with a process crash after that write, then reopened; "
                "non-trivial = crash run whose history purged or installed before the crash; distinct = distinct (history, crash point)")
    run.trusted += ["Coq 8.16.1 kernel + vm_compute",
                    "hand-written model coq/theories/Raft/Model.v (disk = three column families, one atomic write per call, ropen = recover_metadata + replay_log) "
                    "tied by differential run after every crash point",
                    "crash hook raft::persistent_store::verif_crash (cfg varpulis_verif): panic after the n-th completed RocksDB write, store dropped, "
                    "directory reopened = process crash; RocksDB WAL recovery and WriteBatch atomicity are RocksDB's",
                    "Rust harness harness/crates/raft (expected state = real apply_command folded over the committed entries), Python driver checks/C36.py"]
    run.assumptions += ["the caller follows the openraft protocol (entries are appended before they are applied, only uncommitted entries are "
                        "deleted as conflicts, purge never passes the last snapshot) — Raft/Proofs*.v wf_op",
                        "process crash, not power loss (no fsync modelling)"]
    binpath = R.build_all(run, "C36.v", translator=False)
    if binpath is None:
        return
    rng = run.rng
    nh = 22 if run.tier == "quick" else 150
    hists = corpus(rng) + [gen_history(rng, 5 + i % 5) for i in range(nh)]
    for G, ops in hists:
        assert wf(G, ops), "generator produced a non-conforming history"
    # pass 1: count writes
    base = run_parallel(binpath, [crash_req(G, ops, 0) for G, ops in hists])
    reqs, meta = [], []
    for hi, ((G, ops), b) in enumerate(zip(hists, base)):
        for k in range(1, b.get("writes", 0) + 1):
            reqs.append(crash_req(G, ops, k))
            meta.append((hi, k))
    answers = base + run_parallel(binpath, reqs)
    meta = [(hi, 0) for hi in range(len(hists))] + meta
    # model: one write per call
    exprs, has_model = [], []
    for (hi, k), ans in zip(meta, answers):
        G, ops = hists[hi]
        aligned = "writes_before" in base[hi] and base[hi]["writes_before"] == list(range(len(ops))) and base[hi]["writes"] == len(ops)
        has_model.append(aligned)
        if aligned:
            exprs.append("crash_case %s %d%%nat" % (R.g_ops(ops), k if k else len(ops)))
    model = iter(R.model_eval(run, "C36", exprs))
    n_oracle = n_corr = n_align = 0
    for (hi, k), ans, hm in zip(meta, answers, has_model):
        G, ops = hists[hi]
        j = ans.get("crashed_in", -1) if ans.get("crashed") else len(ops)
        done = ops[:j + 1]
        risky = any(o[0] in ("purge", "install") for o in done)
        run.case((hi, k) if risky else None, sample={"ops": [R.op_serde(o) for o in ops][:3], "crash_at": k} if (hi, k) in ((4, 1), (5, 2)) else None)
        run.count("crash_in=" + (ops[j][0] if j < len(ops) else "none(restart at end)"))
        run.count("history_len=%d" % len(ops))
        if k == 0:
            for o in ops:
                run.count("op=" + o[0])
        fails = judge(G, ops, ans)
        if fails:
            n_oracle += 1
            run.count("oracle_fail")
            if n_oracle <= 3:
                report(run, binpath, G, ops, k, fails)
        if not hm:
            n_align += 1
            if n_align == 1:
                run.tie_broken("write count per call: the model assumes exactly one atomic RocksDB write per mutating call",
                               "history %s: writes_before=%s total=%s" % (json.dumps([R.op_serde(o) for o in ops])[:600], base[hi].get("writes_before"), base[hi].get("writes")))
            continue
        sm = next(model)
        if sm is None or "post" not in ans:
            continue
        si = R.obs_str(ans["post"])
        if si != sm:
            n_corr += 1
            if n_corr <= 3:
                run.tie_broken("correspondence Raft/Model.v ropen/crash_disks vs RocksStore after crash at write %d of %s" % (
                    k, json.dumps([R.op_serde(o) for o in ops])[:1200]), "impl  %s\nmodel %s" % (si[:1500], sm[:1500]))
    run.extra["oracle_failures"] = n_oracle
    run.extra["disagreements"] = n_corr
    run.extra["histories"] = len(hists)


def report(run, binpath, G, ops, k, fails):
    def fails_at(c):
        b = harness.run_jsonl(binpath, [crash_req(G, c, 0)])[0]
        for kk in range(1, b.get("writes", 0) + 1):
            a = harness.run_jsonl(binpath, [crash_req(G, c, kk)])[0]
            if judge(G, c, a):
                return kk
        a = harness.run_jsonl(binpath, [crash_req(G, c, 0)])[0]
        return 0 if judge(G, c, a) else None
    small, sk = ops, k
    changed = True
    while changed and len(small) > 1:
        changed = False
        for i in range(len(small) - 1, -1, -1):
            cand = small[:i] + small[i + 1:]
            if cand and wf(G, cand):
                kk = fails_at(cand)
                if kk is not None:
                    small, sk, changed = cand, kk, True
                    break
    key = json.dumps([small, sk], default=str)
    if key in REPORTED:
        return
    REPORTED.add(key)
    ans = harness.run_jsonl(binpath, [crash_req(G, small, sk)])[0]
    msg = judge(G, small, ans) or fails
    run.violation(("crash after write %d (0 = clean restart at the end): " % sk) + "; ".join(msg)[:700],
                  {"ground": G, "ops": small, "crash_at": sk, "observed_after_reopen": ans.get("post"),
                   "expected_state": ans.get("expected_state"), "contradicts": "Raft/Props.v C36_recover"})


def replay(run, path):
    r = json.load(open(path))["replay"]
    ok, bindir, lg = harness.build("vp-raft")
    binpath = os.path.join(bindir, "vp-raft")
    G = R.revive_ops([["apply", r["ground"]]])[0][1]
    ops = R.revive_ops(r["ops"])
    ans = harness.run_jsonl(binpath, [crash_req(G, ops, r["crash_at"])])[0]
    run.case(("replay",), {"ops": [R.op_serde(o) for o in ops], "crash_at": r["crash_at"]})
    fails = judge(G, ops, ans)
    if fails:
        run.violation("; ".join(fails)[:700], r)
