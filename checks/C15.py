"""C15 — joins correlate exactly the same-key events that are within the window."""
import json
import os

from checks import join_common as J
from vplib import coqtools, harness

# vplib's header sets Printing Depth to 10^7, which makes Coq's printer ~4x slower on string results; strings are single
# tokens, so the default depth prints them unchanged (checked: identical output)
FAST_PRINT = "Set Printing Depth 50.\n"

META = {
    "technique": "Coq proof (invariant over arbitrary arrival histories of the JoinBuffer model incl. the std binary search, expiry queue, gc interval and per-key cap) + model/impl differential compared verbatim + brute-force oracle of the property text",
    "design_ref": "DESIGN.md §7 C15, §12 Join",
    "level_text": "Theorems C15_* in coq/theories/Join/Props.v: for every configuration with cap >= 1 and window >= 0 and every arrival history with non-decreasing timestamps, each add_event of the model returns exactly the specified correlation (an output iff every source has a same-key arrival with ts >= t - W, built from the most recently arrived one per source); for every history in any order a produced output is the specified one (C15_any_order_sound: out-of-order arrivals can only lose outputs); for out-of-order histories the full statement is refuted by three machine-checked witnesses that are replayed against the real JoinBuffer on every run; the model is tied to the Rust by a differential run on every check",
    "level_note": "Out-of-order histories are a recorded known-finding class (ooo-history), not proved. 'Within the window' is read as ts >= t - W (the only bound the code and DESIGN.md use). Proved about the choice of events; the field merge of create_correlated_event is modelled and compared verbatim but only its per-source prefixed fields are judged by the oracle. find_common_key_field (source without configured key) is not modelled. Engine-level join programs (stream S_i = T_i; join(..).on(..).window(..).emit(..)) are driven through Engine::process and compared with the model's choice of events and the oracle; the engine's key/window extraction itself is not modelled. slice::partition_point is modelled after the toolchain's std algorithm and tied to it by direct comparison on random slices each run.",
}
CLASS_OOO = "ooo-history"


def classes_of(c, cats=("missing",)):
    """known-finding classes a failing input belongs to.  ooo-history: the history is not timestamp-sorted AND the only
    thing that went wrong is a missing output (C15_any_order_sound: a produced output is right in any order, so a
    spurious or wrong output is never excused)."""
    cl = []
    if not J.is_sorted(c) and all(k == "missing" for k in cats):
        cl.append(CLASS_OOO)
    return cl


def cases_for(run):
    rng = run.rng
    cases = []
    # corpus first: minimised past failures (regression cases of fixed findings)
    cdir = os.path.join(os.path.dirname(os.path.dirname(os.path.abspath(__file__))), "corpus", "C15")
    if os.path.isdir(cdir):
        for fn in sorted(os.listdir(cdir)):
            for item in json.load(open(os.path.join(cdir, fn))):
                c = J.case_from_json(item["case"])
                c["kind"] = "corpus"
                cases.append(c)
    n = 320 if run.tier == "quick" else 12000
    for i in range(n):
        cases.append(J.gen_case(rng, maxlen=14 if i % 4 else 24))
    quick = run.tier == "quick"
    cases += J.exhaustive_small(W=2, cap=None, nev=4 if quick else 5)
    cases += J.exhaustive_small(W=2, cap=1, nev=3 if quick else 5)
    return cases


def check(run):
    run.rule = ("arrival histories on JoinBuffer::add_event: 2- and 3-way joins, windows 1..5 ticks with tick 1/20/100/1000/5000 ms (gc interval clamped low, proportional, clamped high), "
                "1..3 key values, per-source key fields, caps default/1/2/3, time steps 0 .. beyond the window and the gc interval, in-order with ties and out-of-order streams, events missing the key, "
                "event types equal to / different from the source name (also named like another source); 2- and 3-way join programs through the Engine (windows 100ms/500ms/2s/1m); plus every in-order 2-source history of 4 arrivals (cap default) and 3 arrivals (cap 1) with steps 0/1/3 for W=2 (thorough: 5 arrivals, both caps); "
                "non-trivial = >= 1 joined output and >= 1 refused arrival with both sources seen; distinct = distinct (config, history)")
    run.trusted += ["Coq 8.16.1 kernel + vm_compute",
                    "hand-written model coq/theories/Join/Model.v tied by differential run (every add_event result incl. merged field order and the buffered-event total compared verbatim)",
                    "model of slice::partition_point tied to the toolchain's std by direct comparison on random slices",
                    "Rust harness harness/crates/join, Python driver checks/join_common.py (generators, brute-force oracle of the property text)",
                    "FxHashMap / BinaryHeap order: not observable (per-key buffers are independent; equal queue entries are interchangeable)"]
    run.assumptions += ["chrono DateTime/Duration arithmetic does not overflow on the explored timestamps (model uses unbounded Z)",
                        "max_events_per_key >= 1 (0 makes Vec::remove(0) panic; modelled as Panicked, excluded from the theorem and the generator)",
                        "every source has a configured join key (find_common_key_field fallback not modelled)"]
    binpath = J.build_all(run, ["theories/Join/Props.vo", "theories/Join/Run.vo"], "C15.v")
    if binpath is None:
        return

    # --- the std binary search the model copies
    pps = [J.gen_pp(run.rng) for _ in range(300)]
    a = harness.run_jsonl(binpath, [{"pp": ts, "cutoff": c} for ts, c in pps])
    try:
        m = coqtools.coq_eval("C15pp", J.IMPORTS, ["pp_case [%s] (%d)%%Z" % ("; ".join("(%d)%%Z" % t for t in ts), c) for ts, c in pps], shard=60, prelude=FAST_PRINT)
        bad = [(p, x["pp"], y) for p, x, y in zip(pps, a, m) if str(x["pp"]) != y]
        if bad:
            run.tie_broken("model of slice::partition_point vs std", "slice %s cutoff %s: std %s, model %s" % (bad[0][0][0], bad[0][0][1], bad[0][1], bad[0][2]))
    except RuntimeError as e:
        run.tie_broken("model evaluation (pp cases)", str(e))
    run.count("partition_point_slices", len(pps))

    # --- known-finding witnesses: replayed against the real JoinBuffer on every run
    wit = J.witnesses()
    wans = harness.run_jsonl(binpath, [J.j_case(c) for c in wit.values()])
    for (nm, c), ans in zip(wit.items(), wans):
        fc = J.judge_cat(c, ans)
        fails = [m for _, m in fc]
        run.case(("witness", nm))
        if fails:
            run.violation("%s: %s" % (nm, fails[0]), {"case": J.case_json(c), "implementation": ans}, classes=classes_of(c, [k for k, _ in fc]))
        else:
            run.extra.setdefault("witnesses_no_longer_failing", []).append(nm)

    cases = cases_for(run)
    answers = harness.run_jsonl(binpath, [J.j_case(c) for c in cases])
    try:
        model = coqtools.coq_eval("C15", J.IMPORTS, [J.g_case(c) for c in cases], shard=max(10, len(cases) // 16 + 1), prelude=FAST_PRINT)
    except RuntimeError as e:
        run.tie_broken("model evaluation (coqc cases)", str(e))
        model = [None] * len(cases)
    n_viol = 0
    n_corr = 0
    n_known = 0
    for k, (c, ans, ms) in enumerate(zip(cases, answers, model)):
        si = J.impl_str(ans)
        outs = ans.get("outs", [])
        seen = set()
        refused_with_both = False
        for op, o in zip(c["ops"], outs):
            seen.add(op[0])
            if o is None and len(seen) == len(c["sources"]):
                refused_with_both = True
        nontrivial = json.dumps(J.case_json(c), sort_keys=True) if (any(o is not None for o in outs) and refused_with_both) else None
        run.case(nontrivial, sample={"case": J.case_json(c), "impl": si[:300]} if k in (5, 6) else None)
        run.count("kind=" + c["kind"])
        run.count("sorted=%s" % J.is_sorted(c))
        run.count("nsrc=%d" % len(c["sources"]))
        run.count("cap=%s" % c["cap"])
        run.count("window=%d" % c["window"])
        run.count("outputs", sum(1 for o in outs if o is not None))
        fc = J.judge_cat(c, ans)
        fails = [m for _, m in fc]
        if fails:
            cl = classes_of(c, [k for k, _ in fc])
            run.count("oracle_fail" + ("_known" if cl else ""))
            if cl:
                n_known += 1
                run.violation(fails[0], {"case": J.case_json(c)}, classes=cl)
            else:
                n_viol += 1
                if n_viol <= 3:
                    def still(cc):
                        a2 = harness.run_jsonl(binpath, [J.j_case(cc)])[0]
                        f2 = J.judge_cat(cc, a2)
                        return bool(f2) and not classes_of(cc, [k for k, _ in f2])
                    small = J.shrink(c, still)
                    a2 = harness.run_jsonl(binpath, [J.j_case(small)])[0]
                    run.violation("; ".join(J.judge(small, a2))[:700],
                                  {"case": J.case_json(small), "implementation": a2, "expected_choice": J.expected(small),
                                   "contradicts": "theorem C15_inorder in coq/theories/Join/Props.v (timestamps non-decreasing, cap >= 1)"})
        if ms is not None:
            mrun, mspec = ms.split("|")
            if si != mrun:
                n_corr += 1
                if n_corr <= 3:
                    run.tie_broken("correspondence Join/Model.v vs crates/varpulis-runtime/src/join.rs on %s" % json.dumps(J.case_json(c)),
                                   "model and implementation differ:\n impl  %s\n model %s" % (si, mrun))
            # the Coq specification and the Python oracle must agree on produce / not produce
            exp = J.expected(c)
            sp = mspec.split(";") if c["ops"] else []
            if [e is None for e in exp] != [s == "-" for s in sp]:
                run.tie_broken("Coq specification Join/Spec.v vs Python oracle on %s" % json.dumps(J.case_json(c)), "spec %s\noracle %s" % (mspec, exp))
    # --- Engine path: join programs through Engine::process (routing, key and window extraction in engine/mod.rs)
    ecases = [J.gen_engine_case(run.rng) for _ in range(110 if run.tier == "quick" else 3000)]
    eans = harness.run_jsonl(binpath, [J.j_engine(c) for c in ecases])
    try:
        emodel = coqtools.coq_eval("C15e", J.IMPORTS, [J.g_case(c) for c in ecases], shard=max(8, len(ecases) // 16 + 1), prelude=FAST_PRINT)
    except RuntimeError as e:
        run.tie_broken("model evaluation (coqc engine cases)", str(e))
        emodel = [None] * len(ecases)
    n_eviol = 0
    n_ecorr = 0
    for c, ans, ms in zip(ecases, eans, emodel):
        got = J.engine_choice(c, ans)
        run.case(("engine", json.dumps(J.case_json(c), sort_keys=True)) if got and any(g is not None for g in got) and any(g is None for g in got) else None)
        run.count("engine kind=%s nsrc=%d window=%s" % (c["kind"], len(c["sources"]), c["wname"]))
        fc = J.judge_engine_cat(c, ans)
        fails = [m for _, m in fc]
        if fails:
            cl = classes_of(c, [k for k, _ in fc])
            run.count("engine_oracle_fail" + ("_known" if cl else ""))
            if cl:
                n_known += 1
                run.violation(fails[0], {"case": J.case_json(c), "program": J.engine_program(c)}, classes=cl)
            else:
                n_eviol += 1
                if n_eviol <= 2:
                    def still_e(cc):
                        a2 = harness.run_jsonl(binpath, [J.j_engine(cc)])[0]
                        f2 = J.judge_engine_cat(cc, a2)
                        return bool(f2) and not classes_of(cc, [k for k, _ in f2])
                    cc = dict(c)
                    small = J.shrink(cc, still_e)
                    a2 = harness.run_jsonl(binpath, [J.j_engine(small)])[0]
                    run.violation("; ".join(J.judge_engine(small, a2))[:700],
                                  {"engine": True, "wname": small["wname"], "program": J.engine_program(small), "case": J.case_json(small), "implementation": a2,
                                   "expected_choice": J.expected(small),
                                   "contradicts": "theorem C15_inorder in coq/theories/Join/Props.v, through the Engine's join routing"})
        if ms is not None and c["ops"]:
            mc = J.model_choice(c, ms.split("|")[0])
            if mc != got:
                n_ecorr += 1
                if n_ecorr <= 2:
                    run.tie_broken("correspondence Join/Model.v vs Engine join program on %s" % json.dumps(J.case_json(c)),
                                   "program:\n%s\nengine chose %s\nmodel chose  %s" % (J.engine_program(c), got, mc))
    run.extra["engine_oracle_failures_outside_known_classes"] = n_eviol
    run.extra["engine_disagreements"] = n_ecorr
    run.extra["oracle_failures_outside_known_classes"] = n_viol
    run.extra["oracle_failures_in_known_classes"] = n_known
    run.extra["disagreements"] = n_corr


def replay(run, path):
    r = json.load(open(path))["replay"]
    ok, bindir, lg = harness.build("vp-join")
    c = J.case_from_json(r["case"])
    if r.get("engine"):
        c["wname"] = r.get("wname", dict((w, n) for n, w in J.ENGINE_WINDOWS if n)[c["window"]])
        ans = harness.run_jsonl(os.path.join(bindir, "vp-join"), [J.j_engine(c)])[0]
        fc = J.judge_engine_cat(c, ans)
    else:
        ans = harness.run_jsonl(os.path.join(bindir, "vp-join"), [J.j_case(c)])[0]
        fc = J.judge_cat(c, ans)
    fails = [m for _, m in fc]
    run.case(("replay",), {"case": r["case"]})
    run.case(("replay2",))
    if fails:
        run.violation("; ".join(fails)[:700], {"case": r["case"], "implementation": ans}, classes=classes_of(c, [k for k, _ in fc]))
